"""C04 — one origin convention: sample n//2 is the origin for every grid, pad, crop, slice and centroid.

Monitors (contracts attached to the real functions, so calls made from inside prysm are seen too):
  pad2d        post: the input block sits at offset o//2 - i//2 on every axis, rest is the fill / np.pad extension
  crop_center  post: the output is the input block starting at i//2 - o//2 on every axis
  fftrange / make_xy_grid / forward_ft_unit   post: exact zero at n//2, constant spacing
Law monitors driven by the workload: crop(pad(x)) == x, slices pass through the origin sample, centroid of a
point source k samples from the origin is k*dx.

Hardening pass (HARDENING.md classes A-D):
  A  sections 6: the same argument OBJECTS (data arrays in C / F / transposed-view / strided / negative-stride layout,
     out_shape as tuple / list / ndarray / numpy ints, fill as python / numpy scalars) are re-used across pad2d,
     Wavefront.pad2d, crop_center, centroid and slices and the LATER call is judged against a pristine copy;
     the pad2d / crop_center contracts judge against a snapshot of the input taken BEFORE the call.
  B  section 7: histories on ONE object.  slices(), x/y/r/t reads and the mutators of Interferogram (crop, pad,
     recenter, latcal, strip_latcal, mask, fill, remove_piston, filter, data re-binding, in-place pokes, copy, psd),
     RichData (data re-binding, pokes, copy) and Wavefront (pad2d / crop in-place and out-of-place, copy) are
     interleaved and EVERY slices() result is judged against the current data and the current coordinates: the
     slice must pass through the one sample whose current coordinate is exactly 0, and after an operation that
     (re)builds the grid (construction, pad, latcal, strip_latcal, recenter) that sample must be n//2.
  C  the grid contracts judge at the round-off of the CONFIGURED precision (a float32 vector served under
     precision 64 is a spacing violation); section 8 runs float32 warm-ups of the same (n, dx) first and then the
     float64 calls; a share of the histories runs under precision 32 with float32 data, immediately before the
     float64 run of the same history.
  D  1xN / Nx1 / extreme aspect ratios, boolean and narrow-integer images.

Hardening pass 2 (HARDENING2.md classes E, F):
  E  section 6b `forms_workload`: every argument form the current tree accepts as the same mathematical input (the table is the comment
     above SHAPE_FORMS, established by calling the current tree) must satisfy the origin law and agree with the canonical form:
     pad2d / Wavefront.pad2d (out_shape= as tuple / list / int ndarray / numpy ints / int, Q= as python / numpy scalars, value omitted vs
     explicit default, positional vs keyword, in-place vs out-of-place), Interferogram.pad (samples= vs shape= in every container, default
     NaN fill omitted, chained pads on one object) over EVERY parity combination of axis length and pad count and nine image dtype kinds;
     crop_center / Wavefront.crop forms; fftrange / forward_ft_unit / make_xy_grid n / shape / dx / diameter / dtype / shift forms under
     both precisions; centroid and slices() over eight image dtype kinds, six dx forms, omitted / None / numpy.bool_ / 0 / 1 `twosided`,
     RichData vs Interferogram, positional vs keyword — one argument at a time in another form, the rest canonical, so that one defect
     gives one key `C04/<routine>/form:<argument>=<form>/...`.  Form findings of the grid routines are recorded only when no contract
     refuted a call of the same cell (then the defect is not one of form and already has its key).  The histories draw pad variants in
     list / ndarray / numpy-int containers, with the default fill omitted and with `value=` by keyword.
  F  `vp/foreign.py` runs the OTHER public consumers of fftrange / forward_ft_unit / fftfreq / make_xy_grid and of the shared matrix-DFT /
     chirp-Z executors with hostile arguments (never-repeated non-zero shifts through focus_fixed_sampling / unfocus_fixed_sampling /
     to_fpm_and_back / mdft.dft2 / idft2 / czt.czt2 / iczt2 in float32 / float64 / complex, render_synthetic_surface, psd,
     Interferogram.latcal / recenter / pad, in-place edits of the arrays the helpers handed out, the same under precision 32) on the SAME
     axis lengths, before a share of the grid, slices, centroid, precision-switch and form cells; `foreign` is also an operation of the
     Interferogram / RichData / Wavefront history alphabets.  The grid contracts remember which identical calls (same routine, argument
     values AND types, configuration) were right earlier in the process: a later failure of such a call is keyed
     `.../same-call-was-right-earlier` (state that survived a call), and the witness names the foreign traffic that ran before.

Hardening pass 3 (HARDENING3.md classes G, H, I):
  H  section 6c `special_slices_workload`: coordinate vectors of every legal kind for slices — built like make_xy_grid, with the exact zero
     on an arbitrary sample (cropped / re-registered grids), np.linspace-built (origin zero only to rounding: linspace(-1, 1, n)[n//2] =
     -1.1e-16 for n = 99, 197, 207, ...), accumulated with cumsum, shifted and shifted back — each ASCENDING and DESCENDING, through the
     public Slices(data, x, y[, twosided]) class, through the public x / y setters of RichData / Interferogram followed by slices(), through a
     NEGATIVE dx handed to the containers, and through Wavefront.focus with a negative focal length; all shapes 1..9 x 1..9 (thorough 33 x 33)
     and EVERY length 1..420 (thorough 4000) for the rounded-zero kinds.  Law: the slice passes through the one sample whose coordinate is
     nearest zero (monitor-side uniqueness check: |x| <= 1e-9 of the spacing, every other sample >= half a spacing away; otherwise excluded
     and counted), which is sample n//2 whenever the library built the grid.  Keys `C04/slices/special:<direction>,<exact-zero |
     zero-to-rounding>,<at-n//2 | off-centre>/<values | abscissae>` name the class of the coordinate vector whose origin was missed.
     `pad_sweep_workload`: pad count 0 (pad to the same size) through every pad form, crop to the same size, Q exactly 1 (python int /
     float, numpy float64 / int64) passed TOGETHER with a non-trivial out_shape, fill or np.pad mode (the "fast path" temptation).
  I  `pad_sweep_workload`: every axis length 1..64 x pad count 0..9 on BOTH axes (640 cells, the axis-1 cell of case k is cell 7k+3 mod 640)
     through pad2d(out_shape=), pad2d(Q=1, out_shape=), pad2d(mode= nine numpy modes), Wavefront.pad2d (in / out of place),
     Interferogram.pad(samples= tuple / list / int, shape= tuple / list, fill omitted / positional / keyword) and back through crop_center
     (tuple / list) and Wavefront.crop; thorough 96 x 14.
  G  dx of the slices / grids in {1e-9, 1e9} next to the ordinary ones (the uniqueness margin of the origin sample is relative to the spacing).
"""
import copy
import itertools
import math

import numpy as np

from ..contracts import attach, detach_all
from ..core import parity
from ..foreign import foreign_traffic
from ..util import precision

RULE = ('per-axis (in,out) length cells enumerated exhaustively up to a bound and paired across the two axes (all pairs of '
        'cells in both tiers); grids/axes for every n up to a bound; point sources at every offset; argument re-use over '
        'memory layouts {C, F, transposed view, strided view, negative strides} x dtype x out_shape/fill containers; '
        'histories = planned mutator sequences (ALL sequences up to a depth over the mutator alphabet of the object kind, '
        'plus seeded random longer ones, deduplicated globally and partitioned over shards by index) interleaved with '
        'observations by pattern {slices(two-sided) after every step, one-sided, default, random mix of slices/x/y/r/t reads}, '
        'on base objects (off-centre valid region with/without the origin sample, centred circle, NaN-free non-square, '
        'ragged, 1xN, Nx1, 3x40); argument forms (class E) = every accepted container / scalar type / dtype kind / keyword form of every '
        'argument, one argument at a time against the canonical call, over every parity combination of axis length and pad count; '
        'foreign-traffic preludes (class F) on the same axis lengths before a fixed share of the grid / slices / centroid / form cells and as '
        'an operation of the history alphabets; special slices (class H) = coordinate-vector kind {fft, offset, linspace, cumsum, recentred} x direction '
        'per axis x route {Slices class, x / y setters, negative dx, focus(efl < 0)} x shapes 1..9 x 1..9 and every length 1..420 for the rounded-zero kinds; '
        'pad sweep (class I) = every (axis length 1..64, pad count 0..9) cell on both axes x every pad / crop form, Q exactly 1 with out_shape; a case is non-trivial when the array has >= 2 samples or the shape changes / the history '
        'contains a mutator; distinct = distinct descriptor (shapes, mode, fill, dtype, layout, offsets, full op list); '
        'backends (class N\') = {numpy.fft, minimal shim without fftfreq / next_fast_len} x (every axis length up to a bound for the axes / grids; every shape 1..9 x 1..9 for psd DC / cosine peak, linear-phase transfer function = circular shift, focus / unfocus)')
ASSUMPTIONS = ['origin sample of an axis of length n is index n//2 (the convention the property states)',
               'for non-constant pad modes only the placement of the original block and agreement with numpy.pad of '
               'that placement is required',
               'histories: "the origin sample" of an object is the one sample whose current public x (resp. y) coordinate is '
               'exactly 0; when the current coordinates have no such sample (a crop that cut the origin away) the slices '
               'are not judged (excluded and counted); Interferogram.crop legitimately leaves the origin off n//2, every '
               'operation that rebuilds or recentres the grid must put it back on n//2',
               'the grid contracts judge spacing at the round-off of prysm.conf.config.precision at the time of the call',
               'deepcopy of an object is a faithful, non-perturbing snapshot of what a user would read',
               'the set of argument forms treated as the same mathematical input was fixed from the current tree (/repo @ faa8443, table in '
               'the module above SHAPE_FORMS); forms that raise there (bare numpy integers / floats / 0-d arrays as shapes, lists as grid '
               'shapes, unsigned 8-bit n) are out of domain; only VALUES are compared between forms, never the dtype handed back',
               'a caller may edit in place an array that fftrange / forward_ft_unit / make_xy_grid returned to it (every one is a fresh array '
               'on the current tree and prysm\'s own callers do so); the foreign-traffic prelude does, and is never judged itself',
               'float32 / float16 scalar arguments (dx, diameter) lower the spacing tolerance of the grid contracts to the round-off of that type',
               'special slices: "the origin sample" of a user-supplied coordinate vector is the one sample whose coordinate is zero to rounding (|x| <= 1e-9 '
               'of the spacing) while every other sample is at least half a spacing away; vectors without such a sample (even-length symmetric linspace, origin '
               'cropped away) are excluded and counted; coordinate vectors given as lists / tuples raise TypeError on the current tree (out of domain); a '
               'negative dx is in domain (the current tree builds descending grids with the zero on n//2 and Wavefront.focus(efl < 0) produces them)',
               'swapping prysm.mathops.fft._srcmodule for numpy.fft or for a module exposing only fft/ifft/fft2/ifft2/fftn/ifftn/fftshift/ifftshift is a documented configuration; forward_ft_unit, fttools.fftfreq, interferogram.psd (explicit unit window), convolution.apply_transfer_functions, focus / unfocus are correct under both on the current tree (angular_spectrum calls fft.fftfreq directly and raises under the shim: out of domain)']
REQUIRED = ['pad2d.placement', 'crop_center.placement', 'fftrange.origin', 'make_xy_grid.origin', 'forward_ft_unit.origin',
            'roundtrip.crop(pad)', 'slices.through-origin', 'centroid.point-source',
            'reuse.pad2d.later-call', 'reuse.crop_center.later-call', 'reuse.centroid.layout', 'reuse.slices.layout',
            'history.slices.through-current-origin', 'history.grid-origin-after-centring-op', 'history.wavefront.shadow',
            'precision.32-then-64.grids',
            'forms.pad2d', 'forms.Wavefront.pad2d', 'forms.Interferogram.pad', 'forms.crop', 'forms.grids', 'forms.centroid', 'forms.slices',
            'special.slices.nearest-zero-sample', 'sweep.pad-forms',
            'backend.fft-origin-laws']

CTX = None


def _richdata_class():
    """RichData through a public module (the module that defines it has a private name)."""
    try:
        from prysm.interferogram import RichData
    except ImportError:
        from prysm._richdata import RichData
    return RichData


def cell_class(i, o):
    return f'{parity(i)}->{parity(o)}'


# ------------------------------------------------------------------------------------------ contracts
def _norm_shape(out_shape, ndim):
    if isinstance(out_shape, (int, np.integer)):
        return (int(out_shape),) * ndim
    return tuple(int(s) for s in out_shape)


SNAP_MAX = 4_000_000


def ref_pad(array, oshape, mode, value):
    """Reference placement: input sample i//2 goes to output sample o//2 on every axis."""
    ishape = array.shape
    offs = [o // 2 - i // 2 for o, i in zip(oshape, ishape)]
    if mode == 'constant':
        ref = np.zeros(oshape, dtype=array.dtype)
        if value != 0:
            ref += value
        ref[tuple(slice(d, d + s) for d, s in zip(offs, ishape))] = array
    else:
        ref = np.pad(array, [(d, o - i - d) for d, o, i in zip(offs, oshape, ishape)], mode=mode)
    return ref, offs


def ref_crop(img, oshape):
    offs = [i // 2 - o // 2 for o, i in zip(oshape, img.shape)]
    return img[tuple(slice(d, d + o) for d, o in zip(offs, oshape))]


def _snapshot(a):
    """Copy of an input array taken BEFORE the real call (so that a routine that writes into its argument is judged
    against what the caller passed, not against what it left behind)."""
    if isinstance(a, np.ndarray) and a.size <= SNAP_MAX:
        return a.copy()
    return None


def pre_pad2d(args, kwargs):
    array = args[0] if args else kwargs.get('array')
    return _snapshot(array)


def post_pad2d(token, args, kwargs, result):
    names = ['array', 'Q', 'value', 'mode', 'out_shape']
    a = dict(zip(names, args))
    a.update(kwargs)
    passed = a['array']
    array = token if token is not None else passed
    Q = a.get('Q', 2)
    value = a.get('value', 0)
    mode = a.get('mode', 'constant')
    out_shape = a.get('out_shape', None)
    if Q == 1 and out_shape is None:
        CTX.require('pad2d.placement', result is passed or np.array_equal(result, array, equal_nan=True),
                    'C04/pad2d/Q1-not-identity', 'pad2d(Q=1) is not the identity', {'shape': array.shape})
        return
    if out_shape is None:
        oshape = tuple(math.ceil(s * Q) for s in array.shape)
    else:
        oshape = _norm_shape(out_shape, array.ndim)
    ishape = array.shape
    if any(o < i for o, i in zip(oshape, ishape)):
        return  # shrinking pad is out of domain
    desc = {'fn': 'pad2d', 'in': ishape, 'out': oshape, 'mode': mode, 'value': value, 'dtype': str(array.dtype)}
    CTX.observe('pad2d.placement')
    if tuple(result.shape) != oshape:
        CTX.violation('C04/pad2d/shape', f'pad2d returned shape {result.shape}, expected {oshape}', desc)
        return
    cls = ','.join(cell_class(i, o) for i, o in zip(ishape, oshape))
    ref, offs = ref_pad(array, oshape, mode, value)
    if not np.array_equal(result, ref, equal_nan=True):
        bad = [cell_class(i, o) for i, o in zip(ishape, oshape)]
        # which axes are misplaced?  find the block
        blk = result[tuple(slice(d, d + s) for d, s in zip(offs, ishape))]
        kind = 'origin-misplaced' if not np.array_equal(blk, array, equal_nan=True) else 'border-values'
        axes = sorted(set(bad))
        CTX.violation(f'C04/pad2d/{kind}/{"constant" if mode == "constant" else "np.pad-modes"}/{"|".join(axes)}',
                      f'pad2d does not put input sample i//2 at output sample o//2 (axis classes {cls}, mode={mode})', desc)


def pre_crop_center(args, kwargs):
    img = args[0] if args else kwargs.get('img')
    return _snapshot(img)


def post_crop_center(token, args, kwargs, result):
    img = args[0] if args else kwargs['img']
    if token is not None:
        img = token
    out_shape = args[1] if len(args) > 1 else kwargs['out_shape']
    oshape = _norm_shape(out_shape, img.ndim) if not isinstance(out_shape, (int, np.integer)) else (int(out_shape),) * 2
    ishape = img.shape[:len(oshape)]
    if any(o > i for o, i in zip(oshape, ishape)):
        return  # growing crop is out of domain
    desc = {'fn': 'crop_center', 'in': ishape, 'out': oshape, 'dtype': str(img.dtype)}
    CTX.observe('crop_center.placement')
    ref = ref_crop(img, oshape)
    if tuple(result.shape) != tuple(ref.shape) or not np.array_equal(result, ref, equal_nan=True):
        axes = sorted(set(cell_class(i, o) for i, o in zip(ishape, oshape)))
        CTX.violation(f'C04/crop_center/origin-misplaced/{"|".join(axes)}',
                      'crop_center does not put input sample i//2 at output sample o//2', desc)


def _conf_eps(dtype):
    """Round-off unit the grid contracts judge at: that of the precision prysm is CONFIGURED for at the time of the call
    (a float32 vector handed out under precision 64, e.g. from a cache keyed without the precision, is not the grid of
    the current configuration); never coarser than float32, never finer than float64."""
    from prysm.conf import config
    try:
        return float(np.finfo(config.precision).eps)
    except Exception:
        return float(np.finfo(dtype).eps)


EARLIER_OK = set()      # (routine, arguments, configured precision) of calls that satisfied their contract earlier in this process
FOREIGN = {'last': None}
HIST_FOREIGN = ['mini']   # weight of the `foreign` operation inside object histories (a fuller prelude runs before 1 history in 16)


def _prec_bits():
    from prysm.conf import config
    return 32 if config.precision is np.float32 else 64


def _hist(key, ok):
    """'' or '/same-call-was-right-earlier': the identical call (same routine, arguments, configuration) satisfied the contract
    earlier in this process, so the defect is one of state that survived a call (shared cache / table), not of the formula."""
    try:
        hash(key)
    except TypeError:
        return ''
    if ok:
        if len(EARLIER_OK) < 200000:
            EARLIER_OK.add(key)
        return ''
    return '/same-call-was-right-earlier' if key in EARLIER_OK else ''


def _fdesc(desc):
    if FOREIGN['last']:
        desc['foreign_traffic_before'] = FOREIGN['last']
    return desc


def _dtype_name(dt):
    try:
        return 'None' if dt is None else np.dtype(dt).name
    except Exception:
        return repr(dt)


def _arg_eps(eps, *vals):
    """Round-off unit of the narrowest float among the scalar arguments and the configured precision."""
    for v in vals:
        dt = getattr(v, 'dtype', None)
        if dt is not None and dt.kind == 'f' and dt.itemsize < 8:
            eps = max(eps, float(np.finfo(dt).eps))
    return eps


def post_fftrange(token, args, kwargs, result):
    a = dict(zip(['n', 'dtype'], args))
    a.update(kwargs)
    n = int(a['n'])
    CTX.observe('fftrange.origin')
    ref = np.arange(n) - n // 2
    ok = result.shape == (n,) and np.array_equal(np.asarray(result), ref.astype(np.asarray(result).dtype))
    h = _hist(('fftrange', n, type(a['n']).__name__, _dtype_name(a.get('dtype'))), ok)
    if not ok:
        CTX.violation(f'C04/fftrange/{parity(n)}{h}', 'fftrange(n) != arange(n) - n//2',
                      _fdesc({'fn': 'fftrange', 'n': n, 'dtype': _dtype_name(a.get('dtype'))}))


def post_make_xy_grid(token, args, kwargs, result):
    shape = args[0] if args else kwargs['shape']
    if not isinstance(shape, tuple):
        shape = (shape, shape)
    dx = kwargs.get('dx', 0)
    diameter = kwargs.get('diameter', 0)
    grid = kwargs.get('grid', True)
    if diameter != 0:
        dx = diameter / max(shape)
    x, y = result
    CTX.observe('make_xy_grid.origin')
    desc = {'fn': 'make_xy_grid', 'shape': shape, 'dx': dx, 'grid': grid, 'diameter': diameter}
    n0, n1 = shape
    xv = x[0] if grid else x
    yv = y[:, 0] if grid else y
    ok = xv.shape == (n1,) and yv.shape == (n0,)
    if ok and grid:
        ok = x.shape == (n0, n1) and y.shape == (n0, n1) and (x == xv[None, :]).all() and (y == yv[:, None]).all()
    if not ok:
        CTX.violation('C04/make_xy_grid/shape', 'make_xy_grid returned arrays of the wrong shape / not separable', desc)
        return
    eps = _arg_eps(_conf_eps(xv.dtype), kwargs.get('dx', 0), diameter)
    bad = []
    for name, v, n in (('x', xv, n1), ('y', yv, n0)):
        ref = (np.arange(n) - n // 2) * float(dx)
        if v[n // 2] != 0.0:
            bad.append((f'no-exact-zero/{parity(n)}', f'{name}[n//2] is not exactly 0'))
        elif not np.allclose(v, ref, rtol=8 * eps, atol=0):
            bad.append((f'spacing/{parity(n)}', f'{name} is not (arange(n)-n//2)*dx'))
    try:
        hk = ('make_xy_grid', int(n0), int(n1), type(n0).__name__, type(n1).__name__, float(dx), type(kwargs.get('dx', 0)).__name__,
              type(diameter).__name__, bool(grid), _prec_bits())
    except Exception:
        hk = None
    h = _hist(hk, not bad) if hk is not None else ''
    for k, what in bad:
        CTX.violation(f'C04/make_xy_grid/{k}{h}', what, _fdesc(desc))


def post_forward_ft_unit(token, args, kwargs, result):
    names = ['dx', 'samples', 'shift']
    a = dict(zip(names, args))
    a.update(kwargs)
    dx, n, shift = a['dx'], int(a['samples']), a.get('shift', True)
    CTX.observe('forward_ft_unit.origin')
    desc = {'fn': 'forward_ft_unit', 'n': n, 'dx': dx, 'shift': shift}
    ref = (np.arange(n) - n // 2) / (n * float(dx))
    if not shift:
        ref = np.fft.ifftshift(ref)
    z = n // 2 if shift else 0
    eps = _arg_eps(_conf_eps(result.dtype), dx)
    shift = bool(shift)
    kind = None
    if result.shape != (n,) or result[z] != 0.0:
        kind = 'no-exact-zero'
    elif not np.allclose(result, ref, rtol=16 * eps, atol=0):
        kind = 'spacing'
    try:
        hk = ('forward_ft_unit', n, type(a['samples']).__name__, float(dx), type(dx).__name__, shift, type(a.get('shift', True)).__name__, _prec_bits())
    except Exception:
        hk = None
    h = _hist(hk, kind is None) if hk is not None else ''
    if kind == 'no-exact-zero':
        CTX.violation(f'C04/forward_ft_unit/no-exact-zero/{parity(n)}/shift={shift}{h}', 'frequency axis has no exact zero at the origin index', _fdesc(desc))
    elif kind == 'spacing':
        CTX.violation(f'C04/forward_ft_unit/spacing/{parity(n)}/shift={shift}{h}', 'frequency axis is not (arange(n)-n//2)/(n dx)', _fdesc(desc))


def install_monitors(ctx):
    global CTX
    CTX = ctx
    install()


def install():
    from prysm import fttools, coordinates
    attach(fttools, 'pad2d', pre=pre_pad2d, post=post_pad2d)
    attach(fttools, 'crop_center', pre=pre_crop_center, post=post_crop_center)
    attach(fttools, 'fftrange', post=post_fftrange)
    attach(coordinates, 'make_xy_grid', post=post_make_xy_grid)
    attach(fttools, 'forward_ft_unit', post=post_forward_ft_unit)


# ------------------------------------------------------------------------------------------ workload
def marker_array(shape, dtype, rng):
    n = int(np.prod(shape))
    a = (np.arange(1, n + 1, dtype=float).reshape(shape) + 0.5)
    if np.dtype(dtype).kind == 'c':
        a = a + 1j * (a[::-1, ::-1] if a.ndim == 2 else a)
    if np.dtype(dtype).kind in 'iu':
        a = np.arange(1, n + 1).reshape(shape)
    return a.astype(dtype)


# ------------------------------------------------------------------------------------------ class A: re-use / layouts
LAYOUTS = ['C', 'F', 'T', 'strided', 'negstride']


def relayout(a, layout):
    """The same values in another memory layout (always a fresh buffer, never the caller's)."""
    a = np.array(a, order='C', copy=True)
    if layout == 'C':
        return a
    if layout == 'F':
        return np.asfortranarray(a)
    if layout == 'T':                       # transposed view of a C-ordered array
        return np.ascontiguousarray(a.T).T
    if layout == 'strided':                 # non-contiguous in both axes
        big = np.zeros((2 * a.shape[0] + 1, 3 * a.shape[1] + 2), dtype=a.dtype)
        v = big[1::2, 2::3][:a.shape[0], :a.shape[1]]
        v[...] = a
        return v
    if layout == 'negstride':
        return np.ascontiguousarray(a[::-1, ::-1])[::-1, ::-1]
    raise ValueError(layout)


def shape_container(kind, shp):
    if kind == 'list':
        return [int(v) for v in shp]
    if kind == 'ndarray':
        return np.array(shp, dtype=np.int64)
    if kind == 'np-ints':
        return (np.int32(shp[0]), np.int64(shp[1]))
    return tuple(int(v) for v in shp)


def value_container(kind, v, dtype):
    k = np.dtype(dtype).kind
    if k in 'iub':                          # integer / boolean images: the fill must be castable to the image dtype
        return (bool(v) if k == 'b' else int(v))
    if kind == 'np64':
        return np.float64(v)
    if kind == 'np32':
        return np.float32(v)
    if kind == '0d':
        return np.array(float(v))
    return float(v)


def image_array(shape, dtype, rng):
    if np.dtype(dtype).kind == 'b':
        a = rng.random(shape) > 0.5
        a[shape[0] // 2, shape[1] // 2] = True
        return a
    if np.dtype(dtype).kind == 'u':
        return (np.arange(1, shape[0] * shape[1] + 1).reshape(shape) % 251).astype(dtype)
    return marker_array(shape, dtype, rng)


def _same(a, b):
    a, b = np.asarray(a), np.asarray(b)
    return a.shape == b.shape and (np.array_equal(a, b, equal_nan=True) if a.dtype.kind in 'fc' else np.array_equal(a, b))


def reuse_workload(ctx, rng):
    from prysm import fttools, psf, propagation
    RichData = _richdata_class()
    ins0 = ctx.pick([1, 2, 5, 6], [1, 2, 3, 5, 6, 9, 12, 40])
    ins1 = ctx.pick([1, 3, 4, 7], [1, 2, 3, 4, 7, 10, 33])
    deltas = ctx.pick([0, 1, 2, 3], [0, 1, 2, 3, 6, 7, 20])
    dts = ['float64', 'float32', 'complex128', 'int16', 'uint8', 'bool', 'int64']
    conts = ['tuple', 'list', 'ndarray', 'np-ints']
    vconts = ['py', 'np64', 'np32', '0d']
    k = -1
    for i0, i1, d0, d1, layout in itertools.product(ins0, ins1, deltas, deltas, LAYOUTS):
        k += 1
        if not ctx.mine(k):
            continue
        o0, o1 = i0 + d0, i1 + d1
        dtype = dts[k % len(dts)]
        cont = conts[(k // 5) % len(conts)]
        vcont = vconts[(k // 3) % len(vconts)]
        kind = np.dtype(dtype).kind
        mode = 'edge' if k % 4 == 0 else 'constant'
        if kind in 'fc':
            fill = [0, 1.5, float('nan'), -2][(k // 2) % 4]
        elif kind == 'b':
            fill = [0, 1][(k // 2) % 2]
        else:
            fill = [0, 3][(k // 2) % 2]
        if mode != 'constant':
            fill = 0
        desc = {'wl': 'reuse', 'in': (i0, i1), 'out': (o0, o1), 'layout': layout, 'dtype': dtype, 'out_shape_as': cont, 'fill': fill,
                'fill_as': vcont, 'mode': mode, 'class': f'reuse:{layout}:{dtype}:{cont}:{cell_class(i0, o0)},{cell_class(i1, o1)}'}
        ctx.case(desc, nontrivial=(i0 * i1 >= 2 or (o0, o1) != (i0, i1)))
        a0 = image_array((i0, i1), dtype, rng)
        a = relayout(a0, layout)
        S = shape_container(cont, (o0, o1))
        Sin = shape_container(cont, (i0, i1))
        v = value_container(vcont, fill, dtype)
        ref, _ = ref_pad(a0, (o0, o1), mode, fill if kind in 'fc' else v)
        with ctx.guard('C04/pad2d', desc):
            fttools.pad2d(a, out_shape=S, value=v, mode=mode)
            p2 = fttools.pad2d(a, out_shape=S, value=v, mode=mode)          # the same argument objects, second call judged
            ctx.observe('reuse.pad2d.later-call')
            if not _same(p2, ref):
                ctx.violation('C04/reuse/pad2d/second-call-with-the-same-arguments',
                              'pad2d called twice with the same array / out_shape / value objects: the second result does not put '
                              'the (original) input sample i//2 at output sample o//2', desc)
            w = propagation.Wavefront(a, 0.5, 1.0)
            w2 = w.pad2d(2, value=v, mode=mode, out_shape=S, inplace=False)  # other routine of the property, same objects
            ctx.observe('reuse.pad2d.later-call')
            if not (_same(w2.data, ref) and _same(w.data, a0)):
                ctx.violation('C04/reuse/Wavefront.pad2d/after-pad2d-with-the-same-arguments',
                              'Wavefront.pad2d(inplace=False) after pad2d with the same array / out_shape / value objects misplaces '
                              'the data or changes the source wavefront', desc)
        with ctx.guard('C04/crop_center', desc):
            fttools.crop_center(p2, Sin)
            c2 = fttools.crop_center(p2, Sin)
            ctx.observe('reuse.crop_center.later-call')
            if not _same(c2, a0):
                ctx.violation('C04/reuse/crop_center/second-call-with-the-same-arguments',
                              'crop_center(pad2d(x)) called twice with the same objects: the second result is not x', desc)
            b0 = image_array((o0, o1), dtype, rng)
            b = relayout(b0, layout)
            fttools.crop_center(b, Sin)
            c3 = fttools.crop_center(b, Sin)
            wb = propagation.Wavefront(b, 0.5, 1.0)
            wb.crop(Sin, inplace=True)
            ctx.observe('reuse.crop_center.later-call')
            rc = ref_crop(b0, (i0, i1))
            if not (_same(c3, rc) and _same(wb.data, rc)):
                ctx.violation(f'C04/reuse/crop_center/layout={layout}',
                              'crop_center / Wavefront.crop of a non-C-contiguous array re-using the same out_shape object does not put input '
                              'sample i//2 at output sample o//2', desc)
        # centroid and slices on the same layouts / image dtypes / dx containers
        if dtype == 'complex128':
            continue
        dxc = ['py', 'np32', 'np64', 'int'][(k // 7) % 4]
        dxv = {'py': 0.37, 'np32': np.float32(0.37), 'np64': np.float64(12.5), 'int': 2}[dxc]
        k0 = int(rng.integers(-(i0 // 2), i0 - i0 // 2))
        k1 = int(rng.integers(-(i1 // 2), i1 - i1 // 2))
        d0_ = np.zeros((i0, i1), dtype=dtype)
        d0_[i0 // 2 + k0, i1 // 2 + k1] = 1
        d = relayout(d0_, layout)
        desc2 = dict(desc, wl='reuse-centroid', dx_as=dxc, k=(k0, k1), **{'class': f'reuse-centroid:{layout}:{dtype}:{dxc}:{parity(i0)}{parity(i1)}'})
        ctx.case(desc2, nontrivial=i0 * i1 >= 2)
        with ctx.guard('C04/centroid', desc2):
            psf.centroid(d, dxv)
            c = psf.centroid(d, dxv)
            ctx.observe('reuse.centroid.layout')
            rt = 1e-4 if dxc == 'np32' else 1e-12
            fd = float(dxv)
            bad = [parity(n) for n, got, kk in ((i0, c[0], k0), (i1, c[1], k1)) if not abs(float(got) - kk * fd) <= rt * fd * n]
            if len(c) != 2 or bad or not _same(d, d0_):
                ctx.violation(f'C04/reuse/centroid/point-source-offset/n={"|".join(sorted(set(bad)))}',
                              'centroid (second call, same data / dx objects) of a point source k samples from index n//2 is not k*dx', desc2, got=c)
        if dtype in ('float64', 'float32', 'int16'):
            desc3 = dict(desc, wl='reuse-slices', dx_as=dxc, **{'class': f'reuse-slices:{layout}:{dtype}:{dxc}:{parity(i0)}{parity(i1)}'})
            ctx.case(desc3, nontrivial=i0 * i1 >= 2)
            with ctx.guard('C04/slices', desc3):
                rd = RichData(a, dxv, None)
                rd.slices()
                for two in (True, False):
                    sl = rd.slices(twosided=two)
                    ctx.observe('reuse.slices.layout')
                    fd = float(dxv)
                    fx = (np.arange(i1) - i1 // 2) * fd
                    fy = (np.arange(i0) - i0 // 2) * fd
                    ok = _judge_slices_against(sl, a0, fx, fy, i0 // 2, i1 // 2, two, exact=False)
                    if ok is not True:
                        ctx.violation(f'C04/reuse/slices/{"two" if two else "one"}sided/{parity(i0)}{parity(i1)}',
                                      f'slices of a RichData over a {layout}-layout array do not pass through the origin sample ({ok})', desc3)


def _judge_slices_against(sl, data, xs, ys, jy, jx, two, exact=True, rtol=1e-14):
    """True, or the name of the first failing component, for a Slices object against expected data / axes / origin indices."""
    gx, vx = sl.x
    gy, vy = sl.y
    if two:
        ex, evx, ey, evy = xs, data[jy, :], ys, data[:, jx]
    else:
        ex, evx, ey, evy = xs[jx:], data[jy, jx:], ys[jy:], data[jy:, jx]
    if not (_same(vx, evx) and _same(vy, evy)):
        return 'values'
    if exact:
        okc = _same(gx, ex) and _same(gy, ey)
    else:
        okc = (np.shape(gx) == np.shape(ex) and np.shape(gy) == np.shape(ey)
               and np.allclose(gx, ex, rtol=rtol, atol=0) and np.allclose(gy, ey, rtol=rtol, atol=0))
    return True if okc else 'abscissae'



# ------------------------------------------------------------------------------------------ class E: argument forms
# The forms below are the ones the CURRENT tree (/repo @ faa8443) accepts and treats as the same mathematical input; established by
# calling every routine with every candidate form and comparing with the canonical form (python ints in a tuple, python float dx):
#   out_shape / crop shape / Interferogram.pad(samples=|shape=): int (square), tuple, list, int ndarray, tuple of numpy ints; samples also a
#       range; a bare numpy integer, a float, a tuple of floats and a 0-d array RAISE TypeError on the current tree (out of domain);
#   Q of pad2d / Wavefront.pad2d: python int / float, numpy int64 / float64 / float32 scalars;
#   value: omitted (0 for pad2d / Wavefront.pad2d, NaN for Interferogram.pad) == the documented default passed explicitly, positional
#       or by keyword;
#   fftrange n: int, numpy int32 / int64 (unsigned 8-bit n is wrong today: out of domain); dtype: None, float, numpy.float64, 'float64',
#       numpy.dtype, numpy.float32, int, positional or keyword;
#   forward_ft_unit dx: python float / int, numpy float32 / float64 / int64, 0-d array; samples: int, numpy int32 / int64 (float and 0-d
#       array raise); shift: True / False / numpy.bool_ / 1 / 0, positional or keyword;
#   make_xy_grid shape: int, numpy int, tuple of python / numpy ints (list and ndarray raise); dx / diameter: as dx above;
#   centroid: data of dtype bool, uint8, uint16, int32, int64, float16, float32, float64; dx forms as above; unit omitted == 'spatial';
#   RichData / Interferogram dx: as above; slices(twosided=) omitted / None (class default) / True / False / numpy.bool_ / 1 / 0.
SHAPE_FORMS = ['tuple', 'list', 'ndarray', 'np-ints']
DX_FORMS = ['py', 'int', 'np32', 'np64', 'npint', '0d']
ALL_KINDS = ['bool', 'uint8', 'uint16', 'int32', 'int64', 'float32', 'float64', 'complex64', 'complex128']


def dx_form(kind, v):
    """(object handed to prysm, the float it stands for)."""
    if kind in ('int', 'npint'):
        v = max(1, int(round(v)))
        o = v if kind == 'int' else np.int64(v)
    else:
        o = {'py': float(v), 'np32': np.float32(v), 'np64': np.float64(v), '0d': np.array(float(v))}[kind]
    return o, float(o)


def _placement(res, a0, oshape, fill):
    """Per-axis offsets at which `a0` sits inside `res` (searching every placement), or None."""
    i0, i1 = a0.shape
    o0, o1 = oshape
    for d0 in range(o0 - i0 + 1):
        for d1 in range(o1 - i1 + 1):
            if _same(res[d0:d0 + i0, d1:d1 + i1], a0):
                return d0, d1
    return None


def judge_pad_form(ctx, monitor, routine, form, res, a0, oshape, fill, desc, canon_bad):
    """Origin law for one call form.  Keys: canonical form -> C04/<routine>/origin-misplaced/<classes of the misplaced axes>;
    another form of the same call whose canonical form is right -> C04/<routine>/form:<argument>=<form>/..."""
    ctx.observe(monitor)
    ref, offs = ref_pad(a0, oshape, 'constant', fill)
    if _same(res, ref):
        return True
    if canon_bad and form != 'canonical':
        return False            # the canonical form of this call already failed (recorded once)
    if tuple(np.shape(res)) != tuple(oshape):
        what = 'shape'
    else:
        pl = _placement(np.asarray(res), a0, oshape, fill)
        if pl is None:
            what = 'values'
        elif tuple(pl) == tuple(offs):
            what = 'border-values'
        else:
            axes = sorted(set(cell_class(i, o) for i, o, d, r in zip(a0.shape, oshape, pl, offs) if d != r))
            what = 'origin-misplaced/' + '|'.join(axes)
    tag = '' if form == 'canonical' else f'form:{form}/'
    ctx.violation(f'C04/{routine}/{tag}{what}', f'{routine} ({form} form) does not put input sample i//2 at output sample o//2 '
                  f'(in {a0.shape} -> out {tuple(oshape)}, fill {fill})', desc, form=form)
    return False


def forms_workload(ctx, rng):
    from prysm import fttools, coordinates, psf, propagation
    from prysm.interferogram import Interferogram
    from prysm.conf import config
    RichData = _richdata_class()
    nan = float('nan')

    # ---- E1. pad: every parity combination of axis length and pad count x routine x keyword form x container form
    lens = ctx.pick([1, 2, 3, 4, 5, 6], [1, 2, 3, 4, 5, 6, 7, 8, 9, 12, 31, 32])
    pads = ctx.pick([0, 1, 2, 3, 4], [0, 1, 2, 3, 4, 5, 6, 7, 33, 34])
    k = -1
    for n0, n1, p0, p1 in itertools.product(lens, lens, pads, pads):
        k += 1
        if not ctx.mine(k):
            continue
        o0, o1 = n0 + p0, n1 + p1
        dtype = ALL_KINDS[k % len(ALL_KINDS)]
        kind = np.dtype(dtype).kind
        fill = ([0, 1.5, nan, -2][(k // 3) % 4] if kind in 'fc' else [0, 1][(k // 3) % 2])
        if kind == 'b':
            fill = bool(fill)       # the fill must be castable to the image dtype
        cls = f'{cell_class(n0, o0)},{cell_class(n1, o1)}'
        desc = {'wl': 'forms-pad', 'in': (n0, n1), 'pad': (p0, p1), 'out': (o0, o1), 'dtype': dtype, 'fill': fill, 'class': f'forms-pad:{cls}:{dtype}'}
        ctx.case(desc, nontrivial=(n0 * n1 >= 2 or p0 + p1 > 0))
        if k % 16 == 5:
            FOREIGN['last'] = foreign_traffic(ctx, [n0, n1, o0, o1], heavy=False)
        a0 = image_array((n0, n1), dtype, rng)
        fkw = {} if fill == 0 and k % 2 else {'value': fill}             # omitted vs explicit default
        with ctx.guard('C04/forms/pad2d', desc):
            bad = not judge_pad_form(ctx, 'forms.pad2d', 'pad2d(out_shape=)', 'canonical', fttools.pad2d(a0.copy(), out_shape=(o0, o1), **fkw),
                                     a0, (o0, o1), fill, desc, False)
            for f in SHAPE_FORMS[1:] + (['int'] if o0 == o1 else []):
                S = o0 if f == 'int' else shape_container(f, (o0, o1))
                judge_pad_form(ctx, 'forms.pad2d', 'pad2d(out_shape=)', f'out_shape={f}', fttools.pad2d(a0.copy(), 2, fill, 'constant', S),
                               a0, (o0, o1), fill, desc, bad)
        with ctx.guard('C04/forms/Wavefront.pad2d', desc):
            bad = False
            for j, f in enumerate(SHAPE_FORMS + (['int'] if o0 == o1 else [])):
                S = o0 if f == 'int' else shape_container(f, (o0, o1))
                w = propagation.Wavefront(a0.copy(), 0.5, 1.0)
                inplace = bool((j + k) % 2)
                r = w.pad2d(2, out_shape=S, inplace=inplace, **fkw)
                ok = judge_pad_form(ctx, 'forms.Wavefront.pad2d', 'Wavefront.pad2d(out_shape=)', 'canonical' if j == 0 else f'out_shape={f}',
                                    r.data, a0, (o0, o1), fill, desc, bad)
                bad = bad or (j == 0 and not ok)
                if ok and not inplace and not _same(w.data, a0):
                    ctx.violation('C04/Wavefront.pad2d/inplace=False-changes-the-source', 'Wavefront.pad2d(inplace=False) changed the source', desc)
        if kind in 'f' or (kind in 'iu' and fill == fill):
            # Interferogram.pad: samples= and shape= keyword forms, each in every container the current tree accepts; default fill NaN
            ifill = fill
            with ctx.guard('C04/forms/Interferogram.pad', desc):
                results = {}
                anybad = False
                for kw, canon, extra in (('samples', (p0, p1), (['int'] if p0 == p1 else []) + (['range'] if p1 == p0 + 1 else [])),
                                          ('shape', (o0, o1), ['int'] if o0 == o1 else [])):
                    bad = False
                    for j, f in enumerate(SHAPE_FORMS + extra):
                        v = canon[0] if f == 'int' else range(p0, p0 + 2) if f == 'range' else shape_container(f, canon)
                        o = Interferogram(a0.copy(), dx=0.37)
                        if (j + k) % 3 == 0:
                            o.x, o.r                       # populated caches before the pad
                        usedefault = kind == 'f' and ifill != ifill and (j + k) % 2 == 0
                        r = o.pad(**{kw: v}) if usedefault else o.pad(ifill, **{kw: v}) if j % 2 else o.pad(value=ifill, **{kw: v})
                        ok = judge_pad_form(ctx, 'forms.Interferogram.pad', f'Interferogram.pad({kw}=)', 'canonical' if j == 0 else f'{kw}={f}',
                                            o.data, a0, (o0, o1), ifill, desc, bad)
                        bad = bad or (j == 0 and not ok)
                        anybad = anybad or not ok
                        if j == 0:
                            results[kw] = o
                        # the object's coordinates: exact zero at (o0//2, o1//2), i.e. ON the sample the old origin sample went to
                        ctx.observe('forms.Interferogram.pad')
                        x, y = o.x, o.y
                        if not (r is o and np.shape(x) == (o0, o1) and x[o0 // 2, o1 // 2] == 0 and y[o0 // 2, o1 // 2] == 0):
                            ctx.violation(f'C04/Interferogram.pad({kw}=)/grid-origin-not-at-n//2', 'after pad the coordinates of the object do not have '
                                          'their zero at sample (n0//2, n1//2)', desc, form=f)
                # the two keyword forms of one method against each other
                ctx.observe('forms.Interferogram.pad')
                anybad = anybad or not _same(results['samples'].data, ref_pad(a0, (o0, o1), 'constant', ifill)[0])
                if not anybad and not _same(results['samples'].data, results['shape'].data):
                    ctx.violation('C04/Interferogram.pad/form:samples=|shape=/differ', 'pad(samples=p) and pad(shape=s+p) of the same data differ', desc)
                if anybad:
                    continue            # recorded above, once; the chained forms below would only repeat it
                # chained: pad(samples=) then pad(shape=) on ONE object == one pad to the final shape (and in the other order)
                q0, q1 = (k // 5) % 3, (k // 7) % 4
                o = Interferogram(a0.copy(), dx=2.0)
                o.pad(ifill, samples=[p0, p1])
                o.pad(ifill, shape=(o0 + q0, o1 + q1))
                ref1 = ref_pad(a0, (o0, o1), 'constant', ifill)[0]
                judge_pad_form(ctx, 'forms.Interferogram.pad', 'Interferogram.pad(shape=)', 'canonical', o.data, ref1, (o0 + q0, o1 + q1), ifill, desc, False)
                o2 = Interferogram(a0.copy(), dx=2.0)
                o2.pad(ifill, samples=(q0, q1))
                if judge_pad_form(ctx, 'forms.Interferogram.pad', 'Interferogram.pad(samples=)', 'canonical', o2.data, a0, (n0 + q0, n1 + q1), ifill, desc, False):
                    mid = o2.data.copy()
                    o2.pad(ifill, samples=np.array([p0, p1]))
                    judge_pad_form(ctx, 'forms.Interferogram.pad', 'Interferogram.pad(samples=)', 'canonical', o2.data, mid, (o0 + q0, o1 + q1), ifill, desc, False)

    # ---- E2. Q forms of pad2d / Wavefront.pad2d
    QF = [('py-int', 2), ('py-float', 2.0), ('np64', np.float64(2)), ('npint', np.int64(2)), ('py-float', 1.5), ('np32', np.float32(1.5)),
          ('np64', np.float64(1.5)), ('py-int', 3), ('npint', np.int64(3)), ('py-int', 1), ('py-float', 1.0), ('np64', np.float64(1.25)), ('py-float', 2.5)]
    k = -1
    for n0, n1 in itertools.product(ctx.pick(range(1, 9), range(1, 34)), repeat=2):
        k += 1
        if not ctx.mine(k):
            continue
        for qn, Q in QF:
            o0, o1 = math.ceil(n0 * float(Q)), math.ceil(n1 * float(Q))
            desc = {'wl': 'forms-Q', 'in': (n0, n1), 'Q': float(Q), 'Q_as': qn, 'class': f'forms-Q:{qn}:{cell_class(n0, o0)},{cell_class(n1, o1)}'}
            ctx.case(desc, nontrivial=n0 * n1 >= 2)
            a0 = marker_array((n0, n1), 'complex128', rng)
            with ctx.guard('C04/forms/pad2d(Q=)', desc):
                form = 'canonical' if qn.startswith('py') else f'Q={qn}'
                judge_pad_form(ctx, 'forms.pad2d', 'pad2d(Q=)', form, fttools.pad2d(a0.copy(), Q), a0, (o0, o1), 0, desc, False)
                judge_pad_form(ctx, 'forms.pad2d', 'pad2d(Q=)', form, fttools.pad2d(a0.copy(), Q=Q, value=0, mode='constant', out_shape=None), a0, (o0, o1), 0, desc, False)
                w = propagation.Wavefront(a0.copy(), 0.5, 1.0)
                judge_pad_form(ctx, 'forms.Wavefront.pad2d', 'Wavefront.pad2d(Q=)', form, w.pad2d(Q, inplace=False).data, a0, (o0, o1), 0, desc, False)
                w.pad2d(Q=Q, value=0, mode='constant', out_shape=None, inplace=True)
                judge_pad_form(ctx, 'forms.Wavefront.pad2d', 'Wavefront.pad2d(Q=)', form, w.data, a0, (o0, o1), 0, desc, False)

    # ---- E3. crop forms
    k = -1
    clens = ctx.pick([1, 2, 3, 4, 5, 6], [1, 2, 3, 4, 5, 6, 7, 8, 9, 12, 31, 32])
    for n0, n1, p0, p1 in itertools.product(clens, clens, pads, pads):
        k += 1
        if not ctx.mine(k):
            continue
        o0, o1 = n0 + p0, n1 + p1
        dtype = ALL_KINDS[(k + 4) % len(ALL_KINDS)]
        desc = {'wl': 'forms-crop', 'in': (o0, o1), 'out': (n0, n1), 'dtype': dtype, 'class': f'forms-crop:{cell_class(o0, n0)},{cell_class(o1, n1)}:{dtype}'}
        ctx.case(desc, nontrivial=o0 * o1 >= 2)
        b0 = image_array((o0, o1), dtype, rng)
        ref = ref_crop(b0, (n0, n1))
        with ctx.guard('C04/forms/crop', desc):
            for j, f in enumerate(SHAPE_FORMS + (['int'] if n0 == n1 else [])):
                S = n0 if f == 'int' else shape_container(f, (n0, n1))
                form = 'canonical' if j == 0 else f'out_shape={f}'
                c = fttools.crop_center(b0.copy(), S) if j % 2 else fttools.crop_center(img=b0.copy(), out_shape=S)
                w = propagation.Wavefront(b0.copy(), 0.5, 1.0)
                inplace = bool((j + k) % 2)
                r = w.crop(S, inplace=inplace)
                for routine, got in (('crop_center', c), ('Wavefront.crop', r.data)):
                    ctx.observe('forms.crop')
                    if not _same(got, ref):
                        tag = '' if j == 0 else f'form:{form}/'
                        axes = sorted(set(cell_class(i, o) for i, o in zip((o0, o1), (n0, n1))))
                        ctx.violation(f'C04/{routine}/{tag}origin-misplaced/{"|".join(axes)}', f'{routine} ({form} form) does not put input sample '
                                      'i//2 at output sample o//2', desc, form=form)
                if not inplace and not _same(w.data, b0):
                    ctx.violation('C04/Wavefront.crop/inplace=False-changes-the-source', 'Wavefront.crop(inplace=False) changed the source', desc)

    # ---- E4. grid routines: n / shape / dx / dtype / shift forms (the contracts judge every call; forms must agree with the canonical call)
    NG = ctx.pick(40, 800)
    for n in range(1, NG + 1):
        if not ctx.mine(n):
            continue
        n2 = int(rng.integers(1, min(NG, 64) + 1))
        if n % 8 == 3:
            FOREIGN['last'] = foreign_traffic(ctx, [n, n2], heavy=(n % 16 == 3))
        desc = {'wl': 'forms-grids', 'n': n, 'n2': n2, 'class': f'forms-grid:{parity(n)}{parity(n2)}'}
        ctx.case(desc)
        with ctx.guard('C04/forms/grids', desc):
            for prec in (64, 32):
                with precision(prec):
                    _grid_forms(ctx, fttools, coordinates, config, n, n2, prec, desc)
    _forms_centroid_slices(ctx, rng)


def _nviol(ctx):
    return sum(v['count'] for v in ctx.violations.values())


class _FormSink:
    """Form-equivalence findings of one cell: recorded only if no contract refuted a call made in that cell (then the defect is not
    one of argument form and has its own key already)."""

    def __init__(self, ctx):
        self.ctx, self.n0, self.items = ctx, _nviol(ctx), []

    def violation(self, key, what, desc):
        self.items.append((key, what, desc))

    def flush(self):
        if _nviol(self.ctx) == self.n0:
            for key, what, desc in self.items:
                self.ctx.violation(key, what, desc)


def _grid_forms(ctx_, fttools, coordinates, config, n, n2, prec, desc):
    sink = ctx = _FormSink(ctx_)
    ctx.observe = ctx_.observe
    cp = config.precision
    canon = fttools.fftrange(n, dtype=cp)
    nforms = {'np64int': np.int64(n), 'np32int': np.int32(n)}
    dforms = {'numpy-type': cp, 'dtype-object': np.dtype(cp), 'name': np.dtype(cp).name}
    if prec == 64:
        dforms['python-float'] = float
    for fn_, nv in nforms.items():
        for fd, dv in dforms.items():
            ctx.observe('forms.grids')
            got = fttools.fftrange(nv, dv) if (n + len(fd)) % 2 else fttools.fftrange(n=nv, dtype=dv)
            if not np.array_equal(got, canon):          # values only: the dtype handed back is not part of the origin convention
                ctx.violation(f'C04/fftrange/form:n={fn_},dtype={fd}/differs-from-canonical', 'fftrange with the same n / dtype in another '
                              'form differs from fftrange(int, dtype=config.precision)', desc)
    ci = fttools.fftrange(n)
    for fn_, nv in nforms.items():
        for dv in (None, int):
            ctx.observe('forms.grids')
            got = fttools.fftrange(nv) if dv is None else fttools.fftrange(nv, dtype=dv)
            if not np.array_equal(got, ci):
                ctx.violation(f'C04/fftrange/form:n={fn_},dtype={"omitted" if dv is None else "int"}/differs-from-canonical',
                              'integer fftrange in another argument form differs from fftrange(int)', desc)
    eps = _prec_eps(prec)
    for dxf in DX_FORMS:
        dxo, dxv = dx_form(dxf, [0.37, 12.5, 2.0][n % 3])
        cx, cy = coordinates.make_xy_grid((n, n2), dx=dxv)
        cu = fttools.forward_ft_unit(dxv, n)
        cu0 = fttools.forward_ft_unit(dxv, n, shift=False)
        for sf, sv in (('np-ints', (np.int64(n), np.int32(n2))),) + ((('int', n), ('npint', np.int64(n))) if n == n2 or dxf == 'py' else ()):
            ctx.observe('forms.grids')
            sq = sf in ('int', 'npint')
            gx, gy = coordinates.make_xy_grid(sv, dx=dxo) if n % 2 else coordinates.make_xy_grid(shape=sv, dx=dxo, diameter=0, grid=True)
            rx, ry = (cx, cy) if not sq else coordinates.make_xy_grid((n, n), dx=dxv)
            if not (gx.shape == rx.shape and np.allclose(gx, rx, rtol=8 * eps, atol=0) and np.allclose(gy, ry, rtol=8 * eps, atol=0)):
                ctx.violation(f'C04/make_xy_grid/form:shape={sf},dx={dxf}/differs-from-canonical', 'make_xy_grid with the same shape / dx in '
                              'another form differs from make_xy_grid(tuple of ints, dx=python float)', desc)
        ctx.observe('forms.grids')
        vx, vy = coordinates.make_xy_grid((n, n2), dx=dxo, grid=False)
        dia = dxv * max(n, n2)
        dx_, dy_ = coordinates.make_xy_grid((n, n2), diameter=dx_form(dxf if dxf not in ('int', 'npint') else 'py', dia)[0])
        rd_ = 1e-4 if dxf == 'np32' else 64 * eps
        if not (np.allclose(vx, cx[0], rtol=8 * eps, atol=0) and np.allclose(vy, cy[:, 0], rtol=8 * eps, atol=0)
                and np.allclose(dx_, cx, rtol=rd_, atol=0) and np.allclose(dy_, cy, rtol=rd_, atol=0)):
            ctx.violation(f'C04/make_xy_grid/form:grid=False|diameter=,dx={dxf}/differs-from-canonical', 'make_xy_grid(grid=False) / '
                          '(diameter=dx*max(shape)) differ from the canonical grid', desc)
        for nf, nv in nforms.items():
            for shf, shv in (('omitted', None), ('True', True), ('np.bool_', np.bool_(True)), ('1', 1)):
                ctx.observe('forms.grids')
                got = fttools.forward_ft_unit(dxo, nv) if shv is None else fttools.forward_ft_unit(dx=dxo, samples=nv, shift=shv)
                if not (got.shape == cu.shape and np.allclose(got, cu, rtol=1e-4 if dxf == 'np32' else 16 * eps, atol=0)):
                    ctx.violation(f'C04/forward_ft_unit/form:dx={dxf},samples={nf},shift={shf}/differs-from-canonical',
                                  'forward_ft_unit with the same arguments in another form differs from the canonical call', desc)
            for shf, shv in (('False', False), ('np.bool_', np.bool_(False)), ('0', 0)):
                ctx.observe('forms.grids')
                got = fttools.forward_ft_unit(dxo, nv, shv)
                if not (got.shape == cu0.shape and np.allclose(got, cu0, rtol=1e-4 if dxf == 'np32' else 16 * eps, atol=0)):
                    ctx.violation(f'C04/forward_ft_unit/form:dx={dxf},samples={nf},shift={shf}(unshifted)/differs-from-canonical',
                                  'forward_ft_unit(shift=False) with the same arguments in another form differs from the canonical call', desc)

    sink.flush()


def _forms_centroid_slices(ctx, rng):
    from prysm import psf
    from prysm.interferogram import Interferogram
    RichData = _richdata_class()
    # ---- E5. centroid / slices: image dtype kinds x dx forms x omitted-vs-explicit defaults, every parity
    NC = ctx.pick(9, 40)
    k = -1
    CK = ['bool', 'uint8', 'uint16', 'int32', 'int64', 'float16', 'float32', 'float64']
    for n0 in range(1, NC + 1):
        for n1 in range(1, NC + 1):
            k += 1
            if not ctx.mine(k):
                continue
            if k % 8 == 1:
                FOREIGN['last'] = foreign_traffic(ctx, [n0, n1], heavy=False)
            for q in range(ctx.pick(2, 4)):
                dtype = CK[(k + 3 * q) % len(CK)]
                dxf = DX_FORMS[(k + q) % len(DX_FORMS)]
                dxo, dxv = dx_form(dxf, [0.37, 12.5, 2.0][(k + q) % 3])
                k0 = int(rng.integers(-(n0 // 2), n0 - n0 // 2))
                k1 = int(rng.integers(-(n1 // 2), n1 - n1 // 2))
                d = np.zeros((n0, n1), dtype=dtype)
                d[n0 // 2 + k0, n1 // 2 + k1] = 1
                desc = {'wl': 'forms-centroid', 'shape': (n0, n1), 'dtype': dtype, 'dx_as': dxf, 'dx': dxv, 'k': (k0, k1),
                        'class': f'forms-centroid:{dtype}:{dxf}:{parity(n0)}{parity(n1)}'}
                ctx.case(desc, nontrivial=n0 * n1 >= 2)
                with ctx.guard('C04/forms/centroid', desc):
                    def offs(c, rt):
                        return [parity(n) for n, got, kk in ((n0, c[0], k0), (n1, c[1], k1)) if not abs(float(np.real(got)) - kk * dxv) <= rt * dxv * n]
                    d64 = d.astype('float64')
                    c = psf.centroid(d64, dxv)             # canonical form: float64 image, python float dx, positional
                    ctx.observe('forms.centroid')
                    bad = offs(c, 1e-12)
                    if len(c) != 2 or bad:
                        ctx.violation(f'C04/centroid/point-source-offset/n={"|".join(sorted(set(bad)))}',
                                      'centroid of a point source k samples from index n//2 is not k*dx', _fdesc(desc), got=c)
                        continue
                    # one argument at a time in another form, the others canonical
                    calls = {f'data={dtype}': (lambda: psf.centroid(d, dxv), 1e-3 if dtype == 'float16' else 1e-12),
                             f'dx={dxf}': (lambda: psf.centroid(d64, dxo), 1e-4 if dxf == 'np32' else 1e-12),
                             'call=keywords': (lambda: psf.centroid(data=d64, dx=dxv), 1e-12),
                             'call=unit-spatial-positional': (lambda: psf.centroid(d64, dxv, 'spatial'), 1e-12),
                             'call=unit-spatial-keyword': (lambda: psf.centroid(d64, dx=dxv, unit='spatial'), 1e-12),
                             f'data={dtype},dx={dxf}': (lambda: psf.centroid(d, dx=dxo), 1e-3 if dtype == 'float16' else 1e-4 if dxf == 'np32' else 1e-12)}
                    seen = False
                    for cf, (call, rt) in calls.items():
                        c = call()
                        ctx.observe('forms.centroid')
                        bad = offs(c, rt)
                        if (len(c) != 2 or bad) and not (seen and ',' in cf):
                            seen = True
                            ctx.violation(f'C04/centroid/form:{cf}/point-source-offset/n={"|".join(sorted(set(bad)))}',
                                          'centroid of a point source k samples from index n//2 is not k*dx for this argument form', desc, got=c)
                if dtype == 'float16':
                    continue
                a0 = image_array((n0, n1), dtype, rng) if dtype not in ('int32', 'uint16') else marker_array((n0, n1), dtype, rng)
                desc2 = dict(desc, wl='forms-slices', **{'class': f'forms-slices:{dtype}:{dxf}:{parity(n0)}{parity(n1)}'})
                ctx.case(desc2, nontrivial=n0 * n1 >= 2)
                fx, fy = (np.arange(n1) - n1 // 2) * dxv, (np.arange(n0) - n0 // 2) * dxv
                a64 = a0.astype('float64')
                with ctx.guard('C04/forms/slices', desc2):
                    canon_ok = True
                    for eff in (True, False):        # canonical form: RichData, float64 data, positional python float dx, explicit python bool
                        sl = RichData(a64, dxv, None).slices(twosided=eff)
                        ctx.observe('forms.slices')
                        res = _judge_slices_against(sl, a64, fx, fy, n0 // 2, n1 // 2, eff, exact=False, rtol=1e-14)
                        if res is not True:
                            canon_ok = False
                            ctx.violation(f'C04/slices/{"two" if eff else "one"}sided/{parity(n0)}{parity(n1)}',
                                          f'slices do not pass through the origin sample (n0//2, n1//2) ({res})', _fdesc(desc2))
                    if not canon_ok:
                        continue
                    # one argument at a time in another form, the others canonical
                    trials = []
                    for tf, tv, eff in (('omitted', 'omit', True), ('None', None, True), ('np.bool_(True)', np.bool_(True), True),
                                        ('np.bool_(False)', np.bool_(False), False), ('1', 1, True), ('0', 0, False), ('positional', 'pos', False)):
                        trials.append((f'twosided={tf}', lambda: RichData(a64, dxv, None), tv, eff, a64, 1e-14))
                    for eff in (True, False):
                        trials.append((f'data={dtype}', lambda: RichData(a0, dxv, None), eff, eff, a0, 1e-14))
                        trials.append((f'dx={dxf}', lambda: RichData(a64, dxo, None), eff, eff, a64, 1e-4 if dxf == 'np32' else 1e-14))
                        trials.append(('object=RichData-keywords', lambda: RichData(data=a64, dx=dxv, wavelength=0.5), eff, eff, a64, 1e-14))
                        trials.append(('object=Interferogram', lambda: Interferogram(a64, dxv), eff, eff, a64, 1e-14))
                        trials.append(('object=Interferogram-keywords', lambda: Interferogram(phase=a64, dx=dxv, wavelength=None), eff, eff, a64, 1e-14))
                        trials.append((f'object=Interferogram,data={dtype},dx={dxf}', lambda: Interferogram(a0, dx=dxo), eff, eff, a0, 1e-4 if dxf == 'np32' else 1e-14))
                    seen = set()
                    for form, mk, tv, eff, arr, rtol in trials:
                        o = mk()
                        sl = o.slices() if tv == 'omit' else o.slices(False) if tv == 'pos' else o.slices(twosided=tv)
                        ctx.observe('forms.slices')
                        res = _judge_slices_against(sl, arr, fx, fy, n0 // 2, n1 // 2, eff, exact=False, rtol=rtol)
                        if res is not True and not (',' in form and seen):
                            seen.add(form)
                            ctx.violation(f'C04/slices/form:{form}/{"two" if eff else "one"}sided-{res}',
                                          f'slices() for this argument form do not pass through the origin sample ({res})', desc2)

# ------------------------------------------------------------------------------------------ class B: histories on one object
IFG_MUT = ['crop', 'recenter', 'latcal', 'strip_latcal', 'pad', 'mask', 'fill', 'remove_piston', 'set-data', 'poke', 'filter', 'copy', 'psd',
           'foreign']
RICH_MUT = ['set-data', 'poke', 'copy', 'foreign']
WF_MUT = ['wpad-Q', 'wpad-shape', 'wcrop', 'copy', 'set-data', 'foreign']
OBS = ['slices', 'slices2', 'slices1', 'read-x', 'read-y', 'read-r', 'read-t']
CENTRING = {'construct', 'pad', 'latcal', 'strip_latcal', 'recenter'}

H_SHAPE = {'offcentre': (13, 15), 'offcentre-no-origin': (12, 12), 'circ': (11, 11), 'full': (8, 11), 'ragged': (10, 9),
           'line': (1, 9), 'col': (9, 1), 'wide': (3, 40)}
H_BASES_IFG = list(H_SHAPE)
H_BASES_RICH = ['full', 'circ', 'line', 'col', 'wide', 'sq-even']
H_SHAPE['sq-even'] = (6, 6)
WF_SHAPE = {'w56': (5, 6), 'w65': (6, 5), 'w44': (4, 4), 'w77': (7, 7), 'w18': (1, 8), 'w340': (3, 40)}


def h_base(name):
    n0, n1 = H_SHAPE[name]
    i, j = np.indices((n0, n1))
    z = 1.25 + i * n1 + j + 0.5 * np.sin(1.0 + i * 0.7 + j * 1.3)       # distinct, deterministic values
    nan = float('nan')
    if name == 'offcentre':            # valid rows 1..8, cols 4..13: contains the origin (6,7) but is not centred on it
        m = np.zeros((n0, n1), dtype=bool)
        m[1:9, 4:14] = True
        z[~m] = nan
    elif name == 'offcentre-no-origin':  # valid region does not contain the origin sample (6,6)
        m = np.zeros((n0, n1), dtype=bool)
        m[7:11, 1:5] = True
        z[~m] = nan
    elif name == 'circ':
        z[np.hypot(i - n0 // 2, j - n1 // 2) > 5.2] = nan
    elif name == 'ragged':
        z[0, :] = nan
        z[:, -2:] = nan
        z[1, :4] = nan
        z[n0 // 2, n1 // 2] = nan          # the origin sample itself is invalid
    elif name == 'line':
        z[0, :3] = nan
    elif name == 'col':
        z[6:, 0] = nan
    elif name == 'wide':
        z[:, :5] = nan
        z[:, 31:] = nan
    return z


def draw_h_variant(op, vr):
    if op == 'pad':
        kind = ['samples', 'samples2', 'shape2', 'shape', 'samples2@list', 'samples2@ndarray', 'shape2@list', 'shape2@np-ints',
                'samples@default-value'][int(vr.integers(9))]
        val = ['nan', '0', '1.5'][int(vr.integers(3))]
        if kind == 'samples@default-value':
            val = 'nan'
        return f'pad:{kind}:{int(vr.integers(0, 4))},{int(vr.integers(1, 4))}:{val}'
    if op == 'mask':
        if vr.random() < 0.2:
            return 'mask:origin'
        return 'mask:rect:' + ','.join(str(int(v)) for v in vr.integers(0, 3, 4))
    if op == 'latcal':
        return 'latcal:' + ['2.0', '0.1', '3.3'][int(vr.integers(3))]
    if op == 'fill':
        return 'fill:' + ['0', '2.5'][int(vr.integers(2))]
    if op == 'filter':
        return 'filter:' + ['lp', 'hp'][int(vr.integers(2))] + ':' + ['0.3', '0.6'][int(vr.integers(2))]
    form = ['ip', 'oop', 'oop>'][int(vr.integers(3))]
    if op == 'wpad-Q':
        return 'wpad:Q=' + ['1', '1.5', '2', '2.5', '3', '1.25'][int(vr.integers(6))] + ':' + form
    if op == 'wpad-shape':
        val = ['0', '1.5', 'nan'][int(vr.integers(3))]
        mode = 'edge' if vr.random() < 0.25 else 'constant'
        return f'wpad:shape={int(vr.integers(0, 5))},{int(vr.integers(0, 5))}:{val if mode == "constant" else "0"}:{mode}:{form}'
    if op == 'wcrop':
        return f'wcrop:{int(vr.integers(0, 4))},{int(vr.integers(0, 4))}:{form}'
    return op


def h_class(opv):
    return opv.split(':', 1)[0]


def _prec_eps(prec):
    return float(np.finfo(np.float32 if prec == 32 else np.float64).eps)


class ObjHistory:
    """One history on one Interferogram / RichData object: every slices() is judged against the CURRENT data and coordinates."""

    def __init__(self, ctx, desc):
        from prysm.interferogram import Interferogram
        RichData = _richdata_class()
        self.ctx, self.desc = ctx, desc
        self.kind = desc['kind']
        z = h_base(desc['base']).astype(desc.get('dtype', 'float64'))
        z = relayout(z, desc.get('layout', 'C'))
        self.obj = Interferogram(z, dx=desc['dx']) if self.kind == 'ifg' else RichData(z, desc['dx'], None)
        self.lastmut = 'construct'
        self.lastcoord = 'construct'   # last operation that changed the coordinates (crop that cut, pad, recenter, latcal, strip_latcal)
        self.centred = True          # model: True = the grid was (re)built / recentred and not cropped since; None = unknown
        self.executed = []
        self.dead = False

    # -- monitors ------------------------------------------------------------------------------------------
    def grid_origin(self, opc):
        """After an operation that builds / rebuilds / recentres the grid the exact zero of x and y is sample n//2."""
        ctx, o, desc = self.ctx, self.obj, self.desc
        c = copy.deepcopy(o)                        # the user's view, without populating the live object's caches
        n0, n1 = o.data.shape
        ctx.observe('history.grid-origin-after-centring-op')
        x, y = c.x, c.y
        ok = np.shape(x) == (n0, n1) and np.shape(y) == (n0, n1)
        if ok:
            row, col = x[n0 // 2, :], y[:, n1 // 2]
            ok = (row[n1 // 2] == 0 and (row[:n1 // 2] < 0).all() and (row[n1 // 2 + 1:] > 0).all()
                  and col[n0 // 2] == 0 and (col[:n0 // 2] < 0).all() and (col[n0 // 2 + 1:] > 0).all())
        if not ok:
            ctx.violation(f'C04/history/grid-origin/{self.kind}/after:{opc}',
                          f'after {opc} the coordinate grids of the object do not have their exact zero at sample (n0//2, n1//2)', desc,
                          executed=self.executed)
            self.centred = None

    def judge(self, sl, obj, two, who):
        """`sl` = obj.slices(...) just returned.  Judge it against obj's current data and public coordinates."""
        ctx, desc = self.ctx, self.desc
        data = obj.data
        x, y = obj.x, obj.y            # slices() has just read them, so this populates nothing new
        if np.ndim(x) != 2 or np.shape(x) != data.shape or np.shape(y) != data.shape:
            ctx.skip('history slices: coordinates not of the data shape (that is C12), slices not judged')
            return
        xs, ys = x[0, :], y[:, 0]
        if not ((x == xs[None, :]) | (x != x)).all() or not ((y == ys[:, None]) | (y != y)).all():
            ctx.skip('history slices: coordinates not separable, slices not judged')
            return
        jx, jy = np.flatnonzero(xs == 0), np.flatnonzero(ys == 0)
        if jx.size != 1 or jy.size != 1:
            ctx.skip('history slices: the current coordinates have no unique zero sample (origin cropped away), slices not judged')
            return
        jx, jy = int(jx[0]), int(jy[0])
        n0, n1 = data.shape
        ctx.observe('history.slices.through-current-origin')
        side = 'two' if two else 'one'
        if self.centred is True and who == self.kind and (jx, jy) != (n1 // 2, n0 // 2):
            ctx.violation(f'C04/history/origin-moved/{who}/after:{self.lastmut}',
                          f'no crop since the grid was last built, yet the zero of the coordinates sits at sample ({jy},{jx}) '
                          f'instead of ({n0 // 2},{n1 // 2})', desc, executed=self.executed)
            return
        if who != self.kind and (jx, jy) != (n1 // 2, n0 // 2):
            ctx.violation(f'C04/history/origin-moved/{who}/after:{self.lastmut}',
                          f'the frequency axes of the PSD have their zero at sample ({jy},{jx}) instead of ({n0 // 2},{n1 // 2})', desc,
                          executed=self.executed)
            return
        res = _judge_slices_against(sl, data, xs, ys, jy, jx, two, exact=True)
        if res is not True:
            # attribute the failure: values that are another row / column of the CURRENT data mean a stale centre (the culprit is the
            # last operation that changed the coordinates); anything else is attributed to the last mutator
            culprit = self.lastmut
            if res == 'values':
                vx, vy = np.asarray(sl.x[1]), np.asarray(sl.y[1])
                rows = [r for r in range(n0) if r != jy and any(_same(vx, data[r, c:]) for c in ((0,) if two else range(n1)))]
                cols = [c for c in range(n1) if c != jx and any(_same(vy, data[r:, c]) for r in ((0,) if two else range(n0)))]
                if rows or cols:
                    culprit, res = self.lastcoord, 'through-another-sample'
            ctx.violation(f'C04/history/slices/{who}/after:{culprit}/{side}sided-{res}',
                          f'after {culprit} (history on one object) slices() does not pass through the sample whose current '
                          f'coordinate is 0, sample ({jy},{jx}) of the {n0}x{n1} array: {res} differ', desc, executed=self.executed,
                          last_mutator=self.lastmut)

    # -- one step ------------------------------------------------------------------------------------------
    def step(self, opv, pos):
        ctx, o, desc = self.ctx, self.obj, self.desc
        opc = h_class(opv)
        d = o.data
        n0, n1 = d.shape
        fin = np.isfinite(d)
        nvalid = int(fin.sum())
        # ---- domain
        if opc in ('crop', 'remove_piston', 'mask') and nvalid < 1:
            ctx.skip(f'history {opc}: no valid sample')
            return
        if opc in ('filter', 'psd') and (nvalid != d.size or min(n0, n1) < 3):
            ctx.skip(f'history {opc}: data has NaNs or fewer than 3 rows/columns (out of domain)')
            return
        marg = None
        if opc == 'mask':
            m = np.ones((n0, n1), dtype=bool)
            if opv == 'mask:origin':
                m[n0 // 2, n1 // 2] = False
            else:
                a, b, c, e = (int(v) for v in opv.split(':')[2].split(','))
                if a + b < n0:
                    m[:a, :] = False
                    if b:
                        m[n0 - b:, :] = False
                if c + e < n1:
                    m[:, :c] = False
                    if e:
                        m[:, n1 - e:] = False
            if int((m & fin).sum()) < 1:
                ctx.skip('history mask: would leave no valid sample')
                return
            marg = m
        ctx.event(f'{self.kind}:{self.lastmut}>{opc}')
        try:
            if opc in ('slices', 'slices2', 'slices1'):
                two = {'slices': None, 'slices2': True, 'slices1': False}[opc]
                sl = o.slices() if two is None else o.slices(twosided=two)
                eff = bool(sl.twosided) if two is None else two      # the default sidedness is whatever the returned object says it is
                self.executed.append(opv)
                self.judge(sl, o, bool(eff), self.kind)
                if bool(sl.twosided) != bool(eff):
                    ctx.violation(f'C04/history/slices/{self.kind}/after:{self.lastmut}/sidedness',
                                  'slices(twosided=...) returned an object of the other sidedness', desc, executed=self.executed)
                return
            if opc.startswith('read-'):
                getattr(o, opc[-1])
                self.executed.append(opv)
                return
            if opc == 'crop':
                o.crop()
                if o.data.shape != (n0, n1):
                    self.centred = None
                    self.lastcoord = 'crop'
            elif opc == 'pad':
                _, kind, ks, val = opv.split(':')
                k0, k1 = (int(v) for v in ks.split(','))
                value = float('nan') if val == 'nan' else float(val)
                kind, _, cont = kind.partition('@')
                if kind == 'samples' and cont == 'default-value':
                    o.pad(samples=k1)                                   # the documented default fill (NaN), omitted
                elif kind == 'samples':
                    o.pad(value, samples=k1)
                elif kind == 'samples2':
                    o.pad(value, samples=shape_container(cont or 'tuple', (k0, k1)))
                elif kind == 'shape2':
                    o.pad(value=value, shape=shape_container(cont or 'tuple', (n0 + k1, n1 + k0)))
                else:
                    o.pad(value, shape=max(n0, n1) + k1)
            elif opc == 'mask':
                o.mask(marg)
            elif opc == 'fill':
                o.fill(float(opv.split(':')[1]))
            elif opc == 'latcal':
                o.latcal(float(opv.split(':')[1]))
            elif opc == 'filter':
                _, typ, frac = opv.split(':')
                o.filter(float(frac) / (2 * float(o.dx)), typ)
            elif opc == 'set-data':
                o.data = o.data * 1 + 1          # a new array of the same shape bound to the public attribute
            elif opc == 'poke':
                o.data[n0 // 2, :] += 0.5        # in-place change of the row through n//2
                o.data[:, n1 // 2] -= 0.25
            elif opc == 'copy':
                self.obj = o = o.copy()
            elif opc == 'foreign':
                FOREIGN['last'] = foreign_traffic(ctx, [n0, n1], heavy=HIST_FOREIGN[0])      # class F: other consumers of the shared helpers
                self.executed.append(opv)
                self.lastmut = 'foreign'
                if self.centred is True and self.kind == 'ifg':
                    self.grid_origin('foreign')       # a deep copy of a not-yet-read object builds its grid NOW
                return
            elif opc == 'psd':
                p = o.psd()
                self.executed.append(opv)
                for two in (None, True):
                    sl = p.slices() if two is None else p.slices(twosided=True)
                    self.judge(sl, p, bool(sl.twosided), 'psd-of-ifg')
                    if two is True and not sl.twosided:
                        ctx.violation(f'C04/history/slices/psd-of-ifg/after:{self.lastmut}/sidedness',
                                      'slices(twosided=True) returned a one-sided object', desc, executed=self.executed)
                return
            else:
                getattr(o, opc)()                # recenter, strip_latcal, remove_piston
        except Exception as e:
            import traceback
            tb = traceback.extract_tb(e.__traceback__)
            where = [f'{f.filename.split("/prysm/")[-1]}:{f.lineno}:{f.name}' for f in tb if '/prysm/' in f.filename][-3:]
            ctx.violation(f'C04/history/{self.kind}/{opc}/raises:{type(e).__name__}', f'{opc} in a history on one object raises {type(e).__name__}: {str(e)[:160]}',
                          desc, step=pos, executed=self.executed, where=where)
            self.dead = True
            return
        self.executed.append(opv)
        self.lastmut = opc
        if self.obj.data.size == 0:
            ctx.skip('history: an operation left an array without samples (that is C12), history ended')
            self.dead = True
            return
        if opc in CENTRING:
            self.centred = True
            self.lastcoord = opc
            self.grid_origin(opc)

    def run(self):
        from ..util import precision
        with precision(self.desc.get('prec', 64)):
            if self.kind == 'ifg':
                self.grid_origin('construct')
            for pos, opv in enumerate(self.desc['ops']):
                if self.dead:
                    break
                self.step(opv, pos)


class WfHistory:
    """History on Wavefront objects: pad2d / crop in-place and out-of-place, every object ever produced is tracked with an exact
    shadow array (own placement rule) and re-verified after every step; slices of .intensity/.real/.imag/.phase are judged."""

    def __init__(self, ctx, desc):
        from prysm.propagation import Wavefront
        self.ctx, self.desc = ctx, desc
        n0, n1 = WF_SHAPE[desc['base']]
        a0 = marker_array((n0, n1), desc.get('dtype', 'complex128'), None)
        self.objs = [[Wavefront(relayout(a0, desc.get('layout', 'C')), 0.55, desc['dx']), a0.copy()]]
        self.cur = 0
        self.executed = []
        self.dead = False

    def verify(self, opc, form):
        ctx = self.ctx
        for w, sh in self.objs:
            ctx.observe('history.wavefront.shadow')
            if not _same(w.data, sh):
                ctx.violation(f'C04/history/wavefront/data-misplaced/after:{opc}:{form}',
                              f'after {opc} ({form}) a tracked Wavefront no longer holds its data at the placement '
                              'sample i//2 -> sample o//2 of every pad / crop it went through', self.desc, executed=self.executed)
                self.dead = True
                return

    def step(self, opv, pos):
        ctx, desc = self.ctx, self.desc
        w, sh = self.objs[self.cur]
        opc = h_class(opv)
        s0, s1 = sh.shape
        form = opv.rsplit(':', 1)[-1] if opc in ('wpad', 'wcrop') else '-'
        ctx.event(f'wf:{opc}:{form}')
        try:
            if opc == 'wslices':
                _, part, two = opv.split(':')
                two = two == 'two'
                rd = getattr(w, part)
                sl = rd.slices(twosided=two)
                self.executed.append(opv)
                fn = {'intensity': lambda v: abs(v) ** 2, 'real': np.real, 'imag': np.imag, 'phase': np.angle}[part]
                dx = float(desc['dx'])
                xs, ys = (np.arange(s1) - s1 // 2) * dx, (np.arange(s0) - s0 // 2) * dx
                ctx.observe('history.slices.through-current-origin')
                res = _judge_slices_against(sl, fn(sh), xs, ys, s0 // 2, s1 // 2, two, exact=False, rtol=8 * _prec_eps(desc.get('prec', 64)))
                if res is not True:
                    ctx.violation(f'C04/history/slices/wf.{part}/{"two" if two else "one"}sided-{res}',
                                  f'slices of Wavefront.{part} in a pad / crop history do not pass through sample (n0//2, n1//2): {res} differ',
                                  desc, executed=self.executed)
                return
            if opc == 'wpad':
                parts = opv.split(':')
                if parts[1].startswith('Q='):
                    Q = float(parts[1][2:])
                    Q = int(Q) if Q == int(Q) else Q
                    oshape = (math.ceil(s0 * Q), math.ceil(s1 * Q))
                    new = sh if Q == 1 else ref_pad(sh, oshape, 'constant', 0)[0]
                    r = w.pad2d(Q, inplace=(form == 'ip'))
                else:
                    d0, d1 = (int(v) for v in parts[1][6:].split(','))
                    value = float('nan') if parts[2] == 'nan' else float(parts[2])
                    mode = parts[3]
                    oshape = (s0 + d0, s1 + d1)
                    new = ref_pad(sh, oshape, mode, value)[0]
                    r = w.pad2d(2, value=value, mode=mode, out_shape=oshape, inplace=(form == 'ip'))
            elif opc == 'wcrop':
                d0, d1 = (int(v) for v in opv.split(':')[1].split(','))
                oshape = (max(1, s0 - d0), max(1, s1 - d1))
                new = ref_crop(sh, oshape).copy()
                r = w.crop(oshape, inplace=(form == 'ip'))
            elif opc == 'copy':
                self.objs.append([w.copy(), sh.copy()])
                self.cur = len(self.objs) - 1
                self.executed.append(opv)
                self.verify(opc, form)
                return
            elif opc == 'foreign':
                FOREIGN['last'] = foreign_traffic(ctx, [s0, s1], heavy=HIST_FOREIGN[0])
                self.executed.append(opv)
                self.verify(opc, form)
                return
            elif opc == 'set-data':
                w.data = w.data * 1 + 1
                self.objs[self.cur][1] = sh * 1 + 1
                self.executed.append(opv)
                self.verify(opc, form)
                return
            else:
                raise ValueError(opv)
        except Exception as e:
            import traceback
            tb = traceback.extract_tb(e.__traceback__)
            where = [f'{f.filename.split("/prysm/")[-1]}:{f.lineno}:{f.name}' for f in tb if '/prysm/' in f.filename][-3:]
            if not where:
                raise
            ctx.violation(f'C04/history/wavefront/{opc}/raises:{type(e).__name__}', f'{opc} in a Wavefront history raises {type(e).__name__}: {str(e)[:160]}',
                          desc, step=pos, executed=self.executed, where=where)
            self.dead = True
            return
        self.executed.append(opv)
        if form == 'ip':
            if r is not w:
                ctx.violation(f'C04/history/wavefront/{opc}/inplace-returns-other-object', f'{opc}(inplace=True) did not return self', desc)
            self.objs[self.cur][1] = new
        else:
            self.objs.append([r, new])
            if form.endswith('>'):
                self.cur = len(self.objs) - 1
        self.verify(opc, form)

    def run(self):
        from ..util import precision
        with precision(self.desc.get('prec', 64)):
            for pos, opv in enumerate(self.desc['ops']):
                if self.dead:
                    break
                self.step(opv, pos)


def run_history(ctx, desc):
    try:
        (WfHistory if desc['kind'] == 'wf' else ObjHistory)(ctx, desc).run()
    except Exception as e:      # the MONITOR failed on an object state it cannot handle (never a verdict): counted, visible in the evidence
        ctx.skip(f'monitor aborted a history ({type(e).__name__}) - rest of that history not monitored')


def plan_histories(ctx, kind):
    """Global (shard-independent) list of mutator-class sequences: exhaustive to a depth, then seeded random, deduplicated."""
    muts = {'ifg': IFG_MUT, 'rich': RICH_MUT, 'wf': WF_MUT}[kind]
    depth = {'ifg': ctx.pick(2, 3), 'rich': ctx.pick(2, 4), 'wf': ctx.pick(3, 4)}[kind]
    seqs = [()]
    for L in range(1, depth + 1):
        seqs.extend(itertools.product(range(len(muts)), repeat=L))
    nexh = len(seqs)
    seen = set(seqs)
    rng = np.random.default_rng([ctx.seed, 4, sum(map(ord, kind))])
    nrand = {'ifg': ctx.pick(500, 110000), 'rich': ctx.pick(40, 4000), 'wf': ctx.pick(200, 24000)}[kind]
    lo, hi = depth + 1, ctx.pick(7, 14)
    tries = 0
    while len(seqs) < nexh + nrand and tries < 20 * nrand:
        tries += 1
        sq = tuple(int(v) for v in rng.integers(0, len(muts), int(rng.integers(lo, hi + 1))))
        if sq not in seen:
            seen.add(sq)
            seqs.append(sq)
    return muts, seqs, nexh, depth


def build_ops(kind, mutv, pattern, vr):
    ops = []

    def obs(last=False):
        if kind == 'wf':
            if pattern == 'end' and not last:
                return
            for _ in range(1 if pattern != 'all2' else 2):
                ops.append(f'wslices:{["intensity", "real", "imag", "phase"][int(vr.integers(4))]}:{["two", "one"][int(vr.integers(2))]}')
            return
        if pattern in ('slices', 'slices2', 'slices1'):
            ops.append(pattern)
        elif pattern == 'mix':
            for _ in range(int(vr.integers(0, 3))):
                ops.append(OBS[int(vr.integers(len(OBS)))])
        elif pattern == 'sparse':
            if vr.random() < 0.4:
                ops.append(OBS[int(vr.integers(3))])
        if last and not (ops and ops[-1].startswith('slices')):
            ops.append(OBS[int(vr.integers(3))])

    obs()
    for i, m in enumerate(mutv):
        ops.append(m)
        obs(last=(i == len(mutv) - 1))
    if not mutv and not (ops and ops[-1].startswith(('slices', 'wslices'))):
        obs(last=True)
    return ops


def history_workload(ctx):
    HIST_FOREIGN[0] = 'mini'
    dxs = [1.0, 0.37, 12.5]
    hcount = 0
    for kind in ('ifg', 'rich', 'wf'):
        muts, seqs, nexh, depth = plan_histories(ctx, kind)
        bases = {'ifg': H_BASES_IFG, 'rich': H_BASES_RICH, 'wf': list(WF_SHAPE)}[kind]
        patterns = ['all', 'end', 'all2'] if kind == 'wf' else ['slices2', 'slices1', 'slices', 'mix', 'sparse']
        nplanned = 0
        for j, sq in enumerate(seqs):
            # the shortest histories (<= 2 mutators) all run on shard 0, first => near-minimal witnesses; the others are
            # spread over the remaining shards (quick) / all shards (thorough)
            if len(sq) <= 2:
                take = ctx.shard == 0
            elif ctx.quick and ctx.nshards > 1:
                take = j % (ctx.nshards - 1) + 1 == ctx.shard
            else:
                take = ctx.mine(j)
            if not take:
                continue
            nplanned += 1
            if j < nexh:
                combos = [(b, p) for b in bases for p in patterns]
            else:
                combos = [(bases[(j + q) % len(bases)], patterns[(j + q) % len(patterns)]) for q in range(ctx.pick(2, 3))]
            for q, (b, pat) in enumerate(combos):
                hcount += 1
                dx = dxs[(j + q) % 3]
                vr = np.random.default_rng([ctx.seed, j, q, sum(map(ord, kind + b + pat))])
                mutv = [draw_h_variant(muts[i], vr) for i in sq]
                ops = build_ops(kind, mutv, pat, vr)
                layout = (['C', 'C', 'F', 'T', 'strided'] if kind != 'rich' else LAYOUTS)[hcount % 5]
                if hcount % 16 == 5:        # class F: a fuller prelude on the axis lengths of the base object, BEFORE it is constructed
                    FOREIGN['last'] = foreign_traffic(ctx, list((WF_SHAPE if kind == 'wf' else H_SHAPE)[b]), heavy=(hcount % 128 == 5))
                # class C: precision / dtype variants; the precision-32 run of a history comes immediately BEFORE its float64 run
                v = hcount % 6
                runs = {0: [(32, 'f32'), (64, 'f64')], 1: [(64, 'f32')], 2: [(32, 'f64'), (64, 'f64')]}.get(v, [(64, 'f64')])
                for prec, dt in runs:
                    if kind == 'wf':
                        dtype = 'complex64' if dt == 'f32' else 'complex128'
                    else:
                        dtype = 'float32' if dt == 'f32' else 'float64'
                    desc = {'wl': 'history', 'kind': kind, 'base': b, 'dx': dx, 'prec': prec, 'dtype': dtype, 'layout': layout, 'pattern': pat,
                            'ops': ops, 'class': f'history:{kind}:{b}|len={len(sq)}|{pat}|p{prec}{dt}'}
                    ctx.case(desc, nontrivial=len(sq) > 0)
                    run_history(ctx, desc)
        ctx.event(f'histories.{kind}.distinct-mutator-class-sequences', nplanned)
        ctx.note(f'histories.{kind}', f'all {nexh} mutator-class sequences of length <= {depth} over {muts} on every base object and observation '
                 f'pattern, plus {len(seqs) - nexh} distinct random sequences of length {depth + 1}..{ctx.pick(7, 14)}')


# ------------------------------------------------------------------------------------------ class C: 32 -> 64 switch on the grids
def precision_switch_workload(ctx, rng):
    from prysm import fttools, coordinates
    RichData = _richdata_class()
    from prysm.conf import config
    NP = ctx.pick(40, 900)
    for n in range(1, NP + 1):
        if not ctx.mine(n):
            continue
        n2 = int(rng.integers(1, min(NP, 120) + 1))
        for dx in (0.37, 1 / 3, [12.5, 1.0, 1e-3, 977.1][n % 4]):
            desc = {'wl': 'precision-switch', 'n': n, 'n2': n2, 'dx': dx, 'class': f'prec32->64:{parity(n)}{parity(n2)}'}
            ctx.case(desc)
            a32 = marker_array((n, n2), 'float32', rng)
            if n % 4 == 1 and dx == 0.37:
                FOREIGN['last'] = foreign_traffic(ctx, [n, n2], heavy=(n % 16 == 1))
            with ctx.guard('C04/grids', desc):
                for prec in (32, 64, 32, 64):        # float32 warm-up of the same arguments, then the float64 calls are judged at eps64
                    with precision(prec):
                        ctx.observe('precision.32-then-64.grids')
                        fttools.fftrange(n, dtype=config.precision)
                        coordinates.make_xy_grid((n, n2), dx=dx)
                        coordinates.make_xy_grid((n2, n), dx=dx, grid=False)
                        coordinates.make_xy_grid(min(n, 60), diameter=2.0)
                        fttools.forward_ft_unit(dx, n)
                        fttools.forward_ft_unit(dx, n, shift=False)
                        # a container builds its grid lazily under the current configuration; slices judged at its round-off
                        for arr in (a32, a32.astype('float64')):
                            rd = RichData(arr, dx, None)
                            for two in (True, False):
                                sl = rd.slices(twosided=two)
                                fx = (np.arange(n2) - n2 // 2) * dx
                                fy = (np.arange(n) - n // 2) * dx
                                res = _judge_slices_against(sl, arr, fx, fy, n // 2, n2 // 2, two, exact=False, rtol=8 * _prec_eps(prec))
                                ctx.require('slices.through-origin', res is True, f'C04/slices/{"two" if two else "one"}sided/{parity(n)}{parity(n2)}',
                                            f'slices do not pass through the origin sample (precision {prec}, data {arr.dtype}): {res}', desc)


# ------------------------------------------------------------------------------------------ classes G / H / I (HARDENING3.md)
# Coordinate vectors of every legal kind for slices.  What the CURRENT tree (/repo @ c2c1d7f) does was established first by calling it:
#   * RichData / Interferogram accept a negative dx (python / numpy float, int): make_xy_grid hands out DESCENDING axes with the zero
#     (a negative zero) on sample n//2; Wavefront.focus with a negative efl produces such a container; slices() pass through n//2;
#   * the public x / y setters take any 2-D arrays (slices() reads x[0], y[:, 0]); the public Slices(data, x, y, twosided) takes 1-D
#     ndarrays (lists / tuples RAISE TypeError: out of domain); the slices pass through the sample nearest zero on every kind below;
#   * the statement fixes the answer exactly when ONE sample is the origin: its coordinate is zero (or zero to rounding: |x| <= 1e-9 of
#     the spacing) and every other sample is at least half a spacing away.  Grids without such a sample (even-length linspace(-a, a, n),
#     an origin cropped away) are excluded and counted.
VEC_KINDS = ['fft', 'offset', 'linspace', 'cumsum', 'recentred']


def coord_vector(kind, n, dx, rng):
    """1-D coordinate vector of length n, spacing dx (dx < 0: descending) whose origin sample is known by construction:
    (vector, index of the origin sample)."""
    j = n // 2
    if kind == 'fft':                       # what make_xy_grid builds
        v = (np.arange(n) - j) * dx
    elif kind == 'offset':                  # exact zero on an arbitrary sample (a cropped / re-registered grid)
        j = int(rng.integers(0, n))
        v = (np.arange(n) - j) * dx
    elif kind == 'linspace':                # zero only to rounding for some n (99, 197, 207, ...)
        if n % 2:
            a = dx * (n // 2)
            v = np.linspace(-a, a, n)
        else:
            a = dx * n / 2
            v = np.linspace(-a, a, n, endpoint=False)
    elif kind == 'cumsum':                  # accumulated steps: zero to (accumulated) rounding
        v = np.cumsum(np.full(n, dx)) - (j + 1) * dx
    elif kind == 'recentred':               # a grid that was shifted and shifted back: zero to rounding
        c = 1e3 * abs(dx) / 3
        v = ((np.arange(n) - j) * dx + c) - c
    else:
        raise ValueError(kind)
    return np.asarray(v, dtype=float), j


def nearest_zero(v):
    """Index of THE origin sample of a coordinate vector (zero to rounding, every other sample >= half a spacing away), else None."""
    v = np.asarray(v, dtype=float)
    if v.ndim != 1 or v.size == 0 or not np.isfinite(v).all():
        return None
    if v.size == 1:
        return 0
    a = np.abs(v)
    j = int(np.argmin(a))
    step = float(np.abs(np.diff(v)).min())
    if step > 0 and a[j] <= 1e-9 * step and float(np.delete(a, j).min()) >= 0.5 * step:
        return j
    return None


def vec_label(v, j):
    n = v.size
    direction = 'single-sample' if n == 1 else 'ascending' if v[-1] > v[0] else 'descending'
    zero = 'exact-zero' if v[j] == 0 else 'zero-to-rounding'
    return f'{direction},{zero},{"at-n//2" if j == n // 2 else "off-centre"}'


def _slice_centres(sl, data, two):
    """(row, column) the returned slices actually pass through: from the object's centre attributes when it has them, else recovered from
    the returned values (small arrays with distinct values), else (None, None)."""
    cy, cx = getattr(sl, 'center_y', None), getattr(sl, 'center_x', None)
    if cy is not None and cx is not None:
        try:
            return int(cy), int(cx)
        except Exception:
            pass
    if data.size > 4096:
        return None, None
    n0, n1 = data.shape
    vx, vy = np.asarray(sl.x[1]), np.asarray(sl.y[1])
    rows = [(r, c) for r in range(n0) for c in ((0,) if two else range(n1)) if _same(vx, data[r, c:])]
    cols = [(r, c) for c in range(n1) for r in ((0,) if two else range(n0)) if _same(vy, data[r:, c])]
    cy = rows[0][0] if rows else (cols[0][0] if cols and not two else None)
    cx = cols[0][1] if cols else (rows[0][1] if rows and not two else None)
    return cy, cx


def judge_special_slices(ctx, sl, data, xs, ys, jy, jx, two, desc, route):
    """The slices pass through the sample (jy, jx) — the one nearest the origin of the coordinate vectors the caller supplied.
    One key per CLASS of the coordinate vector whose origin sample was missed (direction, exact / rounded zero, position)."""
    ctx.observe('special.slices.nearest-zero-sample')
    res = _judge_slices_against(sl, data, xs, ys, jy, jx, two, exact=True)
    if res is True:
        return True
    n0, n1 = data.shape
    cy, cx = _slice_centres(sl, data, two)
    labs = []
    if cy is not None and cy != jy:
        labs.append('y:' + vec_label(ys, jy))
    if cx is not None and cx != jx:
        labs.append('x:' + vec_label(xs, jx))
    if not labs and res == 'abscissae':       # the right samples on the wrong coordinates: name the class of the vector that came back changed
        ex, ey = (xs, ys) if two else (xs[jx:], ys[jy:])
        if not _same(sl.x[0], ex):
            labs.append('x:' + vec_label(xs, jx))
        if not _same(sl.y[0], ey):
            labs.append('y:' + vec_label(ys, jy))
    if not labs:
        labs = ['unattributed']
    for lab in sorted(set(l.split(':', 1)[-1] for l in labs)):
        ctx.violation(f'C04/slices/special:{lab}/{res}',
                      f'slices ({route}, {"two" if two else "one"}-sided) do not pass through the sample nearest the origin of the coordinate vectors, '
                      f'sample ({jy},{jx}) of the {n0}x{n1} array: {res} differ', desc, passes_through=[cy, cx], wrong_axes=labs)
    return False


def special_slices_workload(ctx, rng):
    from prysm import propagation
    from prysm.interferogram import Interferogram
    try:
        from prysm.interferogram import Slices
    except ImportError:
        from prysm._richdata import Slices
    RichData = _richdata_class()
    DXS = [1.0, 0.25, 3.3, 0.37, 1 / 3, 1e-9, 1e9, 12.5]
    NS = ctx.pick(9, 33)
    k = -1
    for n0 in range(1, NS + 1):
        for n1 in range(1, NS + 1):
            k += 1
            if not ctx.mine(k):
                continue
            a = marker_array((n0, n1), 'float64', rng)
            for q, (kx, sx) in enumerate(itertools.product(VEC_KINDS, (1, -1))):
                ky = VEC_KINDS[(k + q) % len(VEC_KINDS)]
                sy = 1 if (k + q // 2) % 2 else -1
                dx = DXS[(k + q) % len(DXS)]
                xs, jx = coord_vector(kx, n1, sx * dx, rng)
                ys, jy = coord_vector(ky, n0, sy * dx, rng)
                desc = {'wl': 'special-slices', 'shape': (n0, n1), 'x': f'{kx}{"+" if sx > 0 else "-"}', 'y': f'{ky}{"+" if sy > 0 else "-"}', 'dx': dx,
                        'origin': (jy, jx), 'class': f'special-slices:{kx}{sx:+d},{ky}{sy:+d}:{parity(n0)}{parity(n1)}'}
                ctx.case(desc, nontrivial=n0 * n1 >= 2)
                if nearest_zero(xs) != jx or nearest_zero(ys) != jy:
                    ctx.skip('special slices: the constructed vector has no unique origin sample (monitor-side check), not judged')
                    continue
                with ctx.guard('C04/slices/special', desc):
                    for two in (True, False):
                        # route 1: the public Slices class on user vectors
                        sl = Slices(a, xs, ys, two) if (k + q) % 2 else Slices(data=a, x=xs, y=ys, twosided=two)
                        judge_special_slices(ctx, sl, a, xs, ys, jy, jx, two, desc, 'Slices(data, x, y)')
                        # route 2: the public x / y setters of a container (2-D arrays), then slices()
                        rd = RichData(a, dx, None) if q % 2 else Interferogram(a.copy(), dx=dx)
                        if (k + q) % 3 == 0:
                            rd.x, rd.y              # the library's own grid was read before it is replaced
                        X, Y = np.meshgrid(xs, ys)
                        rd.x, rd.y = X, Y
                        judge_special_slices(ctx, rd.slices(twosided=two), rd.data, xs, ys, jy, jx, two, desc, 'x / y setters, then slices()')
            # route 3: negative sample spacing handed to the containers (the make_xy_grid contract sees the grid)
            for q, (mk, dxv) in enumerate(((lambda d, v: RichData(d, v, None), -0.25), (lambda d, v: Interferogram(d, dx=v), np.float64(-3.3)),
                                           (lambda d, v: RichData(d, v, None), -1), (lambda d, v: Interferogram(d, v), -1e9),
                                           (lambda d, v: RichData(data=d, dx=v, wavelength=1.0), -1e-9))):
                desc = {'wl': 'special-slices-negative-dx', 'shape': (n0, n1), 'dx': float(dxv), 'container': q,
                        'class': f'special-slices:negative-dx:{parity(n0)}{parity(n1)}'}
                ctx.case(desc, nontrivial=n0 * n1 >= 2)
                with ctx.guard('C04/slices/special', desc):
                    o = mk(a.copy(), dxv)
                    xs, ys = (np.arange(n1) - n1 // 2) * float(dxv), (np.arange(n0) - n0 // 2) * float(dxv)
                    for two in (True, False):
                        sl = o.slices(twosided=two)
                        gx, gy = o.x[0], o.y[:, 0]
                        if not (np.shape(gx) == (n1,) and np.shape(gy) == (n0,) and np.allclose(gx, xs, rtol=1e-14, atol=0) and np.allclose(gy, ys, rtol=1e-14, atol=0)
                                and gx[n1 // 2] == 0 and gy[n0 // 2] == 0):
                            ctx.skip('special slices: the container grid for a negative dx is not the fft grid (judged by the make_xy_grid contract)')
                            continue
                        judge_special_slices(ctx, sl, o.data, np.asarray(gx), np.asarray(gy), n0 // 2, n1 // 2, two, desc, 'container with negative dx')
            # route 4: Wavefront.focus with a negative focal length -> containers with a negative dx
            if n0 >= 2 and n1 >= 2 and k % 3 == 0:
                Q = [1, 2, 1.5][k % 3 if k % 9 else 0]
                desc = {'wl': 'special-slices-focus', 'shape': (n0, n1), 'Q': Q, 'efl': -80.0, 'class': f'special-slices:focus(efl<0):{parity(n0)}{parity(n1)}'}
                ctx.case(desc)
                with ctx.guard('C04/slices/special', desc):
                    w = propagation.Wavefront(marker_array((n0, n1), 'complex128', rng), 0.5, 0.75)
                    p = w.focus(-80.0, Q)
                    for part in ('intensity', 'real'):
                        o = getattr(p, part)
                        m0, m1 = o.data.shape
                        gx, gy = np.asarray(o.x[0]), np.asarray(o.y[:, 0])
                        if nearest_zero(gx) != m1 // 2 or nearest_zero(gy) != m0 // 2 or not float(p.dx) < 0:
                            ctx.skip('special slices: focus with a negative efl did not yield a descending fft grid, not judged here')
                            continue
                        for two in (True, False):
                            judge_special_slices(ctx, o.slices(twosided=two), o.data, gx, gy, m0 // 2, m1 // 2, two, desc, f'focus(efl<0).{part}')

    # every length 1 .. NL for the vectors whose origin is zero only to rounding (np.linspace(-1, 1, n)[n//2] = -1.1e-16 for n = 99, 197, ...)
    NL = ctx.pick(420, 4000)
    for n in range(1, NL + 1):
        if not ctx.mine(n):
            continue
        for q, (kind, s) in enumerate(itertools.product(('linspace', 'cumsum', 'recentred'), (1, -1))):
            dx = [1.0, 2.0 / max(n - 1, 1), 0.37, 1e-9, 1e9, 1 / 3][(n + q) % 6]
            if kind == 'linspace' and q % 2 == 0 and n % 2 and n > 1:
                dx = 1.0 / (n // 2)             # np.linspace(-1, 1, n) itself
            v, j = coord_vector(kind, n, s * dx, rng)
            along = (n + q) % 2             # the long vector as x (columns) or as y (rows)
            m = 3 - (n + q) % 2 if n > 1 else 1
            other, jo = coord_vector('fft', m, dx, rng)
            shape = (m, n) if along else (n, m)
            desc = {'wl': 'special-slices-long', 'shape': shape, 'kind': kind, 'sign': s, 'dx': dx, 'class': f'special-slices-long:{kind}{s:+d}:{parity(n)}'}
            ctx.case(desc, nontrivial=n >= 2)
            if nearest_zero(v) != j:
                ctx.skip('special slices: the constructed vector has no unique origin sample (monitor-side check), not judged')
                continue
            a = np.arange(1.0, shape[0] * shape[1] + 1).reshape(shape)
            xs, ys, jx, jy = (v, other, j, jo) if along else (other, v, jo, j)
            with ctx.guard('C04/slices/special', desc):
                for two in (True, False):
                    judge_special_slices(ctx, Slices(a, xs, ys, two), a, xs, ys, jy, jx, two, desc, 'Slices(data, x, y)')


PAD_MODES = ['edge', 'reflect', 'symmetric', 'wrap', 'linear_ramp', 'maximum', 'mean', 'median', 'minimum']


def pad_sweep_workload(ctx, rng):
    """Class I: every axis length 1 .. 64 x pad count 0 .. 9 (both axes see every cell; the axis-1 cell of case k is cell 7k+3 mod 640) through
    EVERY pad form of the property and back through every crop form.  Class H: pad count 0 (pad to the same size), crop to the same size, and
    Q exactly 1 passed together with a non-trivial out_shape / fill / mode."""
    from prysm import fttools, propagation
    from prysm.interferogram import Interferogram
    NL, NP = ctx.pick(64, 96), ctx.pick(10, 14)
    cells = [(n, p) for n in range(1, NL + 1) for p in range(NP)]
    nc = len(cells)
    mult = 7 if nc % 7 else 11
    nan = float('nan')
    for k, (n0, p0) in enumerate(cells):
        if not ctx.mine(k):
            continue
        n1, p1 = cells[(mult * k + 3) % nc]
        o0, o1 = n0 + p0, n1 + p1
        S = (o0, o1)
        fill = [0, nan, 1.5, -2.0][k % 4]
        dtype = ['float64', 'float32'][(k // 4) % 2]
        cls = f'{cell_class(n0, o0)},{cell_class(n1, o1)}'
        zero = ('pad0' if p0 == 0 else '') + ('|pad0' if p1 == 0 else '')
        desc = {'wl': 'pad-sweep', 'in': (n0, n1), 'pad': (p0, p1), 'out': S, 'fill': fill, 'dtype': dtype, 'class': f'pad-sweep:{cls}:{zero}'}
        ctx.case(desc, nontrivial=(n0 * n1 >= 2 or p0 + p1 > 0))
        a0 = marker_array((n0, n1), dtype, rng)
        Q1 = [1, 1.0, np.float64(1), np.int64(1)][k % 4]
        results = []
        with ctx.guard('C04/pad-sweep/pad2d', desc):
            results.append(('pad2d(out_shape=)', 'canonical', fttools.pad2d(a0.copy(), out_shape=S, value=fill)))
            results.append(('pad2d(Q=1,out_shape=)', 'canonical', fttools.pad2d(a0.copy(), Q1, fill, 'constant', S)))
            w = propagation.Wavefront(a0.copy(), 0.5, 1.0)
            r = w.pad2d(Q1, value=fill, out_shape=S, inplace=bool(k % 2))
            results.append(('Wavefront.pad2d(Q=1,out_shape=)', 'canonical', r.data))
        with ctx.guard('C04/pad-sweep/Interferogram.pad', desc):
            o = Interferogram(a0.copy(), dx=0.37)
            if k % 3 == 0:
                o.x, o.r
            o.pad(fill, samples=(p0, p1)) if k % 2 else o.pad(value=fill, samples=[p0, p1])
            results.append(('Interferogram.pad(samples=)', 'canonical', o.data))
            ctx.observe('sweep.pad-forms')
            x, y = o.x, o.y
            if not (np.shape(x) == S and x[o0 // 2, o1 // 2] == 0 and y[o0 // 2, o1 // 2] == 0):
                ctx.violation('C04/Interferogram.pad(samples=)/grid-origin-not-at-n//2', 'after pad the coordinates of the object do not have their '
                              'zero at sample (n0//2, n1//2)', desc)
            o = Interferogram(a0.copy(), dx=2.0)
            o.pad(fill, shape=S) if k % 2 == 0 else o.pad(value=fill, shape=list(S))
            results.append(('Interferogram.pad(shape=)', 'canonical', o.data))
            if fill != fill:
                o = Interferogram(a0.copy(), dx=1.0)
                o.pad(samples=(p0, p1))                 # the documented default fill
                results.append(('Interferogram.pad(samples=)', 'value=omitted', o.data))
            if p0 == p1:
                o = Interferogram(a0.copy(), dx=1.0)
                o.pad(fill, samples=p0)
                results.append(('Interferogram.pad(samples=)', 'samples=int', o.data))
        bad = False
        for routine, form, res in results:
            ok = judge_pad_form(ctx, 'sweep.pad-forms', routine, form, res, a0, S, fill, desc, False)
            bad = bad or not ok
        # np.pad modes: placement of the block and agreement with numpy.pad of that placement
        mode = PAD_MODES[k % len(PAD_MODES)]
        if mode == 'reflect' and (p0 >= n0 or p1 >= n1 or n0 < 2 or n1 < 2):
            mode = 'edge'
        if mode in ('symmetric', 'wrap') and (p0 > n0 or p1 > n1):
            mode = 'edge'
        with ctx.guard('C04/pad-sweep/pad2d(mode=)', dict(desc, mode=mode)):
            pm = fttools.pad2d(a0.copy(), Q1, 0, mode, S) if k % 2 else fttools.pad2d(a0.copy(), mode=mode, out_shape=list(S))
            ctx.observe('sweep.pad-forms')
            refm, offs = ref_pad(a0, S, mode, 0)
            if not _same(pm, refm):
                blk = pm[offs[0]:offs[0] + n0, offs[1]:offs[1] + n1] if np.shape(pm) == S else None
                kind = 'shape' if blk is None else 'border-values' if _same(blk, a0) else 'origin-misplaced'
                axes = sorted(set((cell_class(n0, o0), cell_class(n1, o1))))
                ctx.violation(f'C04/pad2d(mode=)/{kind}' + ('' if kind == 'shape' else '/' + '|'.join(axes)), f'pad2d(mode={mode}) does not put input sample i//2 at output sample o//2 / '
                              'is not numpy.pad of that placement', dict(desc, mode=mode))
                bad = True
        if bad:
            continue
        # and back: every crop form undoes every pad exactly; crop to the same size is the identity
        ref = results[0][2]
        with ctx.guard('C04/pad-sweep/crop', desc):
            back = [('crop_center', fttools.crop_center(ref, (n0, n1))), ('crop_center', fttools.crop_center(pm, [n0, n1])),
                    ('Wavefront.crop', propagation.Wavefront(ref.copy(), 0.5, 1.0).crop((n0, n1), inplace=bool(k % 2)).data),
                    ('crop_center(same size)', fttools.crop_center(a0.copy(), (n0, n1))),
                    ('Wavefront.crop(same size)', propagation.Wavefront(a0.copy(), 0.5, 1.0).crop([n0, n1], inplace=not k % 2).data)]
            for routine, got in back:
                ctx.observe('roundtrip.crop(pad)')
                if not _same(got, a0):
                    axes = sorted(set((cell_class(o0, n0), cell_class(o1, n1))))
                    ctx.violation(f'C04/roundtrip/{routine}/{"|".join(axes)}', f'{routine} does not undo the pad exactly (in {(n0, n1)}, padded {S})', desc)


# ---- HARDENING5.md class N': FFT backends lacking optional helpers (fftfreq / next_fast_len fallbacks become live) ------------------

class _ShimFFT:
    """Minimal FFT backend: only the transforms and the two shifts (delegating to scipy.fft); no fftfreq, no next_fast_len,
    no set_workers -- the kind of module prysm documents putting into prysm.mathops.fft._srcmodule (mkl_fft's interface)."""

    def __init__(self):
        import scipy.fft as sfft
        for name in ('fft', 'ifft', 'fft2', 'ifft2', 'fftn', 'ifftn', 'fftshift', 'ifftshift'):
            setattr(self, name, getattr(sfft, name))


def backend_workload(ctx, rng):
    """Frequency axes, grids and the origin laws that go through prysm.mathops.fft, under numpy.fft and under the minimal shim.
    Oracles: the closed form (arange(n)-n//2)/(n dx); a point source / constant <-> flat spectrum / DC on the origin sample; a pure
    cosine of k cycles peaks at +-k/(n dx); a linear-phase transfer function built from the axes handed to a user callable is an
    integer circular shift (np.roll); unfocus(focus(x)) == x."""
    import numpy.fft as npfft
    from prysm import fttools, coordinates, propagation, interferogram, convolution
    from ..util import fft_backend
    M = 'backend.fft-origin-laws'
    NB = ctx.pick(36, 300)
    NS = ctx.pick(9, 20)
    for bname, mod in (('numpy.fft', npfft), ('shim', _ShimFFT())):
        tag = f'backend:{bname}'
        with fft_backend(mod):
            # (a) axes and grids, every n
            for n in range(1, NB + 1):
                if not ctx.mine(n):
                    continue
                dx = [1.0, 0.37, 2.5e-3, 12.5, float(rng.uniform(1e-3, 1e3))][n % 5]
                desc = {'wl': 'backend-axes', 'backend': bname, 'n': n, 'dx': dx, 'class': f'{tag}:axes:{parity(n)}'}
                ctx.case(desc)
                with ctx.guard(f'C04/forward_ft_unit/{tag}', desc):
                    ref = (np.arange(n) - n // 2) / (n * dx)
                    u = np.asarray(fttools.forward_ft_unit(dx, n))
                    u0 = np.asarray(fttools.forward_ft_unit(dx, n, shift=False))
                    f = np.asarray(fttools.fftfreq(n, dx))
                    for form, v, r, z in (('shift=True', u, ref, n // 2), ('shift=False', u0, np.fft.ifftshift(ref), 0),
                                          ('fftfreq', f, np.fft.ifftshift(ref), 0)):
                        ok = v.shape == (n,) and v[z] == 0.0 and np.count_nonzero(v == 0.0) == 1 and np.allclose(v, r, rtol=1e-13, atol=0)
                        ctx.require(M, ok, f'C04/forward_ft_unit/{tag}/{form}/{parity(n)}',
                                    'frequency axis under a swapped FFT backend is not (arange(n)-n//2)/(n dx) with its zero on the origin index',
                                    desc, got=v[:6].tolist())
                    fttools.fftrange(n)
                    coordinates.make_xy_grid((n, (n * 7) % 11 + 1), dx=dx)
            # (b) origin laws through the transforms, every parity pair of small shapes
            k = -1
            for n0 in range(1, NS + 1):
                for n1 in range(1, NS + 1):
                    k += 1
                    if not ctx.mine(k):
                        continue
                    dx = [0.5, 1.0, 0.37][k % 3]
                    desc = {'wl': 'backend-laws', 'backend': bname, 'shape': (n0, n1), 'dx': dx, 'class': f'{tag}:laws:{parity(n0)}{parity(n1)}'}
                    ctx.case(desc, nontrivial=n0 * n1 >= 2)
                    pp = f'{parity(n0)}{parity(n1)}'
                    c0, c1 = n0 // 2, n1 // 2
                    unit = np.ones((n0, n1))   # explicit unit window: the guessed default window is degenerate on tiny arrays
                    with ctx.guard(f'C04/psd/{tag}', desc):
                        ux, uy, p = interferogram.psd(np.ones((n0, n1)), dx, window=unit)
                        ux, uy, p = np.asarray(ux), np.asarray(uy), np.asarray(p)
                        iy, ix = np.unravel_index(int(np.argmax(p)), p.shape)
                        ok = (iy, ix) == (c0, c1) and ux[iy, ix] == 0.0 and uy[iy, ix] == 0.0
                        ctx.require(M, ok, f'C04/psd/{tag}/dc-peak-off-zero-frequency/{pp}',
                                    'PSD of a constant: the DC peak is not on sample (n0//2, n1//2) or its reported frequency is not 0', desc,
                                    got=[int(iy), int(ix), float(ux[iy, ix]), float(uy[iy, ix])])
                        if n1 >= 5:
                            kc = 1 + k % ((n1 - 1) // 2)
                            h = np.cos(2 * np.pi * kc * np.arange(n1) / n1)[None, :] * np.ones((n0, 1))
                            ux, uy, p = interferogram.psd(h, dx, window=unit)
                            ux, uy, p = np.asarray(ux), np.asarray(uy), np.asarray(p)
                            iy, ix = np.unravel_index(int(np.argmax(p)), p.shape)
                            want = kc / (n1 * dx)
                            ok = abs(abs(float(ux[iy, ix])) - want) <= 1e-12 * want and uy[iy, ix] == 0.0
                            ctx.require(M, ok, f'C04/psd/{tag}/cosine-peak-frequency/{pp}',
                                        'PSD of a cosine of k cycles: the peak is not reported at +-k/(n dx), fy = 0', desc,
                                        got=[int(iy), int(ix), float(ux[iy, ix]), float(uy[iy, ix])], want=want)
                    s0 = int(rng.integers(0, n0))
                    s1 = int(rng.integers(0, n1))
                    obj = rng.standard_normal((n0, n1))
                    for sh in (True, False):
                        with ctx.guard(f'C04/apply_transfer_functions/{tag}', desc):
                            def tf(fx, fy, _s0=s0, _s1=s1):
                                return np.exp(-2j * np.pi * dx * (np.asarray(fx) * _s1 + np.asarray(fy) * _s0))
                            got = np.asarray(convolution.apply_transfer_functions(obj, dx, [tf], shift=sh))
                            # an integer circular shift is exactly diagonal in the DFT (the Nyquist term of an even axis is (-1)**s, real)
                            want = np.roll(obj, (s0, s1), axis=(0, 1))
                            ctx.close(M, got, want, f'C04/apply_transfer_functions/{tag}/shift={sh}/linear-phase-is-not-a-circular-shift/{pp}',
                                      'a linear-phase transfer function built from the frequency axes handed to the callable does not shift the image by that many samples',
                                      dict(desc, shift=sh, s=(s0, s1)), rtol=1e-9, atol=1e-9)
                    if n0 > 1 and n1 > 1:
                        with ctx.guard(f'C04/focus/{tag}', desc):
                            a = marker_array((n0, n1), 'complex128', rng)
                            Q = [1, 2, 1.5][k % 3]
                            ff = np.asarray(propagation.focus(np.ones((n0, n1), dtype=complex), Q))
                            iy, ix = np.unravel_index(int(np.argmax(abs(ff))), ff.shape)
                            ctx.require(M, (iy, ix) == (ff.shape[0] // 2, ff.shape[1] // 2), f'C04/focus/{tag}/flat-field-focus-off-origin/{pp}',
                                        'focus of a flat field does not peak on the origin sample of the padded array', dict(desc, Q=Q), got=[int(iy), int(ix)])
                            back = np.asarray(propagation.unfocus(propagation.focus(a, 1), 1))
                            ctx.close(M, back, a, f'C04/focus/{tag}/unfocus(focus(x))!=x/{pp}', 'unfocus(focus(x, Q=1), Q=1) != x',
                                      desc, rtol=1e-9, atol=1e-9)


def run(ctx):
    global CTX
    CTX = ctx
    install()
    try:
        _run(ctx)
    finally:
        detach_all()


def _run(ctx):
    from prysm import fttools, coordinates, psf, propagation
    RichData = _richdata_class()
    from prysm.conf import config
    rng = ctx.rng('c04')

    # --- 1. pad / crop / round trip over per-axis cells -------------------------------------------
    N = ctx.pick(16, 56)
    cells = [(i, o) for i in range(1, N + 1) for o in range(i, N + 1)]
    modes = ['constant', 'edge', 'reflect', 'symmetric', 'wrap']
    fills = [0, 1, -3.5, float('nan')]
    dtypes = ['float64', 'float32', 'complex128', 'int64']
    pairs = itertools.product(cells, cells)
    full = True
    k = -1
    for (i0, o0), (i1, o1) in pairs:
        k += 1
        if not ctx.mine(k):
            continue
        mode = 'constant' if k % 3 else modes[(k // 3) % len(modes)]
        dtype = dtypes[(k // 7) % len(dtypes)] if k % 7 == 0 else 'float64'
        fill = fills[(k // 5) % len(fills)] if (mode == 'constant' and k % 5 == 0) else 0
        if np.dtype(dtype).kind in 'iu' and isinstance(fill, float):
            fill = 1 if fill == fill and fill == int(fill) else 0
        if mode in ('reflect',) and (o0 - i0 >= i0 or o1 - i1 >= i1 or i0 < 2 or i1 < 2):
            mode = 'edge'
        if mode in ('symmetric', 'wrap') and (o0 - i0 > i0 or o1 - i1 > i1):
            mode = 'edge'
        desc = {'wl': 'pad-crop', 'in': (i0, i1), 'out': (o0, o1), 'mode': mode, 'fill': fill, 'dtype': dtype,
                'class': f'pad:{cell_class(i0, o0)},{cell_class(i1, o1)}:{mode}'}
        ctx.case(desc, nontrivial=(i0 * i1 >= 2 or (o0, o1) != (i0, i1)))
        a = marker_array((i0, i1), dtype, rng)
        with ctx.guard('C04/pad2d', desc):
            kw = {'out_shape': (o0, o1)} if k % 4 else {'out_shape': (o0, o1), 'Q': 3}
            p = fttools.pad2d(a, value=fill, mode=mode, **kw)
            # marker: the origin sample goes to the origin
            ctx.require('pad2d.origin-marker', p.shape == (o0, o1) and (p[o0 // 2, o1 // 2] == a[i0 // 2, i1 // 2]),
                        f'C04/pad2d/origin-marker/{cell_class(i0, o0)}|{cell_class(i1, o1)}',
                        'the origin sample of the input is not at the origin of the padded array', desc)
            c = fttools.crop_center(p, (i0, i1))
            ctx.equal('roundtrip.crop(pad)', c, a, 'C04/roundtrip/crop(pad(x))!=x', 'crop_center(pad2d(x)) != x', desc)
        # crop on its own (shrinking from the big shape)
        b = marker_array((o0, o1), dtype, rng)
        with ctx.guard('C04/crop_center', desc):
            c = fttools.crop_center(b, (i0, i1))
            ctx.require('crop.origin-marker', c.shape == (i0, i1) and c[i0 // 2, i1 // 2] == b[o0 // 2, o1 // 2],
                        f'C04/crop_center/origin-marker/{cell_class(o0, i0)}|{cell_class(o1, i1)}',
                        'the origin sample of the input is not at the origin of the cropped array', desc)
            if i0 == i1:
                fttools.crop_center(b, int(i0)) if o0 >= i0 and o1 >= i0 else None
    # a few large, random shapes (sampled, not enumerated)
    for q in range(ctx.share(ctx.pick(60, 3000))):
        big = ctx.pick(200, 1500)
        aspect = ['any', 'any', '1xN', 'Nx1', 'thin', 'tall'][q % 6]
        i0, i1 = (int(v) for v in rng.integers(1, big, 2))
        if aspect == '1xN':
            i0, i1 = 1, int(rng.integers(2, 4 * big))
        elif aspect == 'Nx1':
            i0, i1 = int(rng.integers(2, 4 * big)), 1
        elif aspect == 'thin':
            i0, i1 = int(rng.integers(2, 5)), int(rng.integers(big, 4 * big))
        elif aspect == 'tall':
            i0, i1 = int(rng.integers(big, 4 * big)), int(rng.integers(2, 5))
        o0 = i0 + int(rng.integers(0, 300 if i0 > 4 else 4))
        o1 = i1 + int(rng.integers(0, 300 if i1 > 4 else 4))
        fill = [0, 0, 2.5, float('nan')][q % 4]
        desc = {'wl': 'pad-crop-large', 'in': (i0, i1), 'out': (o0, o1), 'aspect': aspect, 'fill': fill,
                'class': f'padL:{aspect}:{cell_class(i0, o0)},{cell_class(i1, o1)}'}
        ctx.case(desc)
        a = rng.standard_normal((i0, i1))
        with ctx.guard('C04/pad2d', desc):
            pz = fttools.pad2d(a, out_shape=(o0, o1), value=fill)
            ctx.equal('roundtrip.crop(pad)', fttools.crop_center(pz, (i0, i1)), a, 'C04/roundtrip/crop(pad(x))!=x', 'crop_center(pad2d(x)) != x', desc)
    if full:
        ctx.note('pad_crop_cells', f'all per-axis (in,out) cells with 1<=in<=out<={N}, all pairs of cells (axis0 x axis1)')

    # --- 2. Q-form of pad2d, Wavefront.pad2d / crop, FFT route with non-integer Q ------------------
    nQ = ctx.share(ctx.pick(300, 20000))
    for _ in range(nQ):
        i0, i1 = (int(v) for v in rng.integers(1, ctx.pick(16, 64), 2))
        Q = [1, 2, 3, 1.5, 2.5, 1.25, float(rng.uniform(1, 4))][int(rng.integers(7))]
        o0, o1 = math.ceil(i0 * Q), math.ceil(i1 * Q)
        desc = {'wl': 'wavefront', 'in': (i0, i1), 'Q': Q, 'class': f'wfQ:{cell_class(i0, o0)},{cell_class(i1, o1)}'}
        ctx.case(desc)
        a = marker_array((i0, i1), 'complex128', rng)
        with ctx.guard('C04/Wavefront.pad2d', desc):
            w = propagation.Wavefront(a.copy(), 0.5, 1.0)
            w2 = w.pad2d(Q, inplace=False)
            ctx.require('wavefront.pad-shape', w2.data.shape == (o0, o1) if Q != 1 else True, 'C04/pad2d/Q-shape',
                        'pad2d(Q) does not land on ceil(s*Q)', desc)
            w3 = w2.crop((i0, i1), inplace=False)
            ctx.equal('roundtrip.crop(pad)', w3.data, a, 'C04/roundtrip/Wavefront', 'Wavefront.crop(Wavefront.pad2d(x)) != x', desc)
            w.pad2d(Q, inplace=True)
            w.crop((i0, i1), inplace=True)
            ctx.equal('roundtrip.crop(pad)', w.data, a, 'C04/roundtrip/Wavefront-inplace', 'in-place pad then crop != x', desc)
            if i0 > 1 and i1 > 1:
                propagation.focus(a, Q)     # pad2d monitor sees the call made inside propagation
                propagation.unfocus(a, Q)

    # --- 3. grids and axes ---------------------------------------------------------------------------
    NG = ctx.pick(64, 4000)
    FT_MAX = ctx.pick(64, 600)
    k = -1
    for n in range(1, NG + 1):
        k += 1
        if not ctx.mine(k):
            continue
        dx = [1.0, 0.37, 12.5, 1 / 3, float(rng.uniform(1e-3, 1e3))][n % 5]
        n2 = int(rng.integers(1, min(NG, 300) + 1))
        desc = {'wl': 'grids', 'n': n, 'n2': n2, 'dx': dx, 'class': f'grid:{parity(n)}{parity(n2)}'}
        ctx.case(desc)
        if n <= FT_MAX and (n % 2 == 0 or n % 64 == 1):
            # class F: the other consumers of fftrange / forward_ft_unit / make_xy_grid run first, on the same axis lengths
            FOREIGN['last'] = foreign_traffic(ctx, [n, n2], heavy=(n % 8 == 0 and n <= 128))
        with ctx.guard('C04/grids', desc):
            fttools.fftrange(n)
            fttools.fftrange(n, dtype=config.precision)
            coordinates.make_xy_grid((n, n2), dx=dx)
            coordinates.make_xy_grid((n2, n), dx=dx, grid=False)
            coordinates.make_xy_grid(n if n < 200 else 7, diameter=2.0)
            fttools.forward_ft_unit(dx, n)
            fttools.forward_ft_unit(dx, n, shift=False)
    with precision(32):
        for n in range(1, 40):
            if ctx.mine(n):
                ctx.case({'wl': 'grids-f32', 'n': n, 'class': 'grid:f32'})
                coordinates.make_xy_grid((n, n + 1), dx=0.37)
                fttools.forward_ft_unit(0.37, n)

    # --- 4. slices through the origin sample ---------------------------------------------------------
    NS = ctx.pick(14, 64)
    k = -1
    for n0 in range(1, NS + 1):
        for n1 in range(1, NS + 1):
            k += 1
            if not ctx.mine(k):
                continue
            dx = [1.0, 0.25, 3.3][k % 3]
            desc = {'wl': 'slices', 'shape': (n0, n1), 'dx': dx, 'class': f'slices:{parity(n0)}{parity(n1)}'}
            ctx.case(desc, nontrivial=n0 * n1 >= 2)
            if k % 3 == 1:
                FOREIGN['last'] = foreign_traffic(ctx, [n0, n1], heavy=(k % 12 == 1))
            a = marker_array((n0, n1), 'float64', rng)
            with ctx.guard('C04/slices', desc):
                rd = RichData(a, dx, None)
                for two in (True, False):
                    s = rd.slices(twosided=two)
                    xs, xv = s.x
                    ys, yv = s.y
                    fx = (np.arange(n1) - n1 // 2) * dx
                    fy = (np.arange(n0) - n0 // 2) * dx
                    if two:
                        ok = (np.array_equal(xv, a[n0 // 2, :]) and np.array_equal(yv, a[:, n1 // 2])
                              and np.allclose(xs, fx, rtol=1e-14, atol=0) and np.allclose(ys, fy, rtol=1e-14, atol=0))
                    else:
                        ok = (np.array_equal(xv, a[n0 // 2, n1 // 2:]) and np.array_equal(yv, a[n0 // 2:, n1 // 2])
                              and np.allclose(xs, fx[n1 // 2:], rtol=1e-14, atol=0) and np.allclose(ys, fy[n0 // 2:], rtol=1e-14, atol=0))
                    ctx.require('slices.through-origin', ok, f'C04/slices/{"two" if two else "one"}sided/{parity(n0)}{parity(n1)}',
                                'slices do not pass through the origin sample (n0//2, n1//2)', desc)

    # --- 5. centroid of a point source ---------------------------------------------------------------
    NC = ctx.pick(13, 44)
    k = -1
    for n0 in range(1, NC + 1):
        for n1 in range(1, NC + 1):
            k += 1
            if not ctx.mine(k):
                continue
            dx = [1.0, 0.5, 6.5][k % 3]
            if k % 4 == 2:
                FOREIGN['last'] = foreign_traffic(ctx, [n0, n1], heavy=False)
            pts = [(0, 0)] + [(int(rng.integers(-(n0 // 2), n0 - n0 // 2)), int(rng.integers(-(n1 // 2), n1 - n1 // 2))) for _ in range(3)]
            for (k0, k1) in pts:
                desc = {'wl': 'centroid', 'shape': (n0, n1), 'dx': dx, 'k': (k0, k1), 'class': f'centroid:{parity(n0)}{parity(n1)}'}
                ctx.case(desc, nontrivial=n0 * n1 >= 2)
                d = np.zeros((n0, n1))
                d[n0 // 2 + k0, n1 // 2 + k1] = 2.5
                with ctx.guard('C04/centroid', desc):
                    c = psf.centroid(d, dx)
                    ok = len(c) == 2 and abs(c[0] - k0 * dx) <= 1e-12 * dx * n0 and abs(c[1] - k1 * dx) <= 1e-12 * dx * n1
                    bad = [parity(n) for n, got, want in ((n0, c[0], k0 * dx), (n1, c[1], k1 * dx)) if abs(got - want) > 1e-12 * dx * n]
                    ctx.require('centroid.point-source', ok, f'C04/centroid/point-source-offset/n={"|".join(sorted(set(bad)))}',
                                'centroid of a point source k samples from index n//2 is not k*dx', desc, got=c)
            # two-sample blob: weighted mean
            if n1 >= 2:
                d = np.zeros((n0, n1))
                d[n0 // 2, n1 // 2] = 1.0
                j = n1 // 2 + (1 if n1 // 2 + 1 < n1 else -1)
                d[n0 // 2, j] = 3.0
                desc = {'wl': 'centroid2', 'shape': (n0, n1), 'dx': dx, 'class': f'centroid2:{parity(n0)}{parity(n1)}'}
                ctx.case(desc)
                with ctx.guard('C04/centroid', desc):
                    c = psf.centroid(d, dx)
                    want = 0.75 * (j - n1 // 2) * dx
                    bad = []
                    if abs(c[0]) > 1e-12 * dx * n0:
                        bad.append(parity(n0))
                    if abs(c[1] - want) > 1e-12 * dx * n1:
                        bad.append(parity(n1))
                    ctx.require('centroid.point-source', not bad, f'C04/centroid/point-source-offset/n={"|".join(sorted(set(bad)))}',
                                'centroid of a two-sample blob is not the weighted mean offset from index n//2', desc, got=c)
    # --- 6. argument re-use, memory layouts, containers, image dtypes (class A / D) -------------------
    reuse_workload(ctx, rng)
    # --- 6b. argument forms (class E), with foreign-traffic preludes (class F) before a share of the cells ------
    forms_workload(ctx, rng)
    # --- 6c. special values / magnitudes / structural sweeps (HARDENING3.md classes G, H, I) --------------------
    special_slices_workload(ctx, ctx.rng('c04-special'))
    pad_sweep_workload(ctx, ctx.rng('c04-sweep'))
    # --- 6d. FFT backends lacking optional helpers (HARDENING5.md class N') ---------------------------------------
    backend_workload(ctx, ctx.rng('c04-backend'))
    # --- 7. histories on one object (class B), a share of them under precision 32 first (class C) -----
    history_workload(ctx)
    # --- 8. precision 32 -> 64 switch for the grid routines (class C) ---------------------------------
    precision_switch_workload(ctx, rng)
    if ctx.quick:
        ctx.exhaustive = True


def replay(ctx, rec):
    global CTX
    ws = [w.get('desc') for w in (rec.get('witnesses') or [])]
    ws = [d for d in ws if isinstance(d, dict) and d.get('wl') == 'history' and 'ops' in d]
    if not ws:
        return run(ctx)
    CTX = ctx
    install()
    try:
        for d in ws:
            ctx.case(d)
            run_history(ctx, d)
    finally:
        detach_all()
