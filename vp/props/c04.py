"""C04 — one origin convention: sample n//2 is the origin for every grid, pad, crop, slice and centroid.

Monitors (contracts attached to the real functions, so calls made from inside prysm are seen too):
  pad2d        post: the input block sits at offset o//2 - i//2 on every axis, rest is the fill / np.pad extension
  crop_center  post: the output is the input block starting at i//2 - o//2 on every axis
  fftrange / make_xy_grid / forward_ft_unit   post: exact zero at n//2, constant spacing
Law monitors driven by the workload: crop(pad(x)) == x, slices pass through the origin sample, centroid of a
point source k samples from the origin is k*dx.
"""
import itertools
import math

import numpy as np

from ..contracts import attach, detach_all
from ..core import parity
from ..util import precision

RULE = ('per-axis (in,out) length cells enumerated exhaustively up to a bound and paired across the two axes; '
        'grids/axes for every n up to a bound; point sources at every offset; a case is non-trivial when the array '
        'has >= 2 samples or the shape changes; distinct = distinct descriptor (shapes, mode, fill, dtype, offsets)')
ASSUMPTIONS = ['origin sample of an axis of length n is index n//2 (the convention the property states)',
               'for non-constant pad modes only the placement of the original block and agreement with numpy.pad of '
               'that placement is required']
REQUIRED = ['pad2d.placement', 'crop_center.placement', 'fftrange.origin', 'make_xy_grid.origin', 'forward_ft_unit.origin',
            'roundtrip.crop(pad)', 'slices.through-origin', 'centroid.point-source']

CTX = None


def cell_class(i, o):
    return f'{parity(i)}->{parity(o)}'


# ------------------------------------------------------------------------------------------ contracts
def _norm_shape(out_shape, ndim):
    if isinstance(out_shape, (int, np.integer)):
        return (int(out_shape),) * ndim
    return tuple(int(s) for s in out_shape)


def post_pad2d(token, args, kwargs, result):
    names = ['array', 'Q', 'value', 'mode', 'out_shape']
    a = dict(zip(names, args))
    a.update(kwargs)
    array = a['array']
    Q = a.get('Q', 2)
    value = a.get('value', 0)
    mode = a.get('mode', 'constant')
    out_shape = a.get('out_shape', None)
    if Q == 1 and out_shape is None:
        CTX.require('pad2d.placement', result is array or np.array_equal(result, array, equal_nan=True),
                    'C04/pad2d/Q1-not-identity', 'pad2d(Q=1) is not the identity', {'shape': array.shape})
        return
    if out_shape is None:
        oshape = tuple(math.ceil(s * Q) for s in array.shape)
    else:
        oshape = _norm_shape(out_shape, array.ndim)
    ishape = array.shape
    if any(o < i for o, i in zip(oshape, ishape)):
        return  # shrinking pad is out of domain
    desc = {'fn': 'pad2d', 'in': ishape, 'out': oshape, 'mode': mode, 'value': value, 'dtype': str(array.dtype)}
    CTX.observe('pad2d.placement')
    if tuple(result.shape) != oshape:
        CTX.violation('C04/pad2d/shape', f'pad2d returned shape {result.shape}, expected {oshape}', desc)
        return
    offs = [o // 2 - i // 2 for o, i in zip(oshape, ishape)]
    cls = ','.join(cell_class(i, o) for i, o in zip(ishape, oshape))
    if mode == 'constant':
        ref = np.zeros(oshape, dtype=array.dtype)
        if value != 0:
            ref += value
        ref[tuple(slice(d, d + s) for d, s in zip(offs, ishape))] = array
    else:
        ref = np.pad(array, [(d, o - i - d) for d, o, i in zip(offs, oshape, ishape)], mode=mode)
    if not np.array_equal(result, ref, equal_nan=True):
        bad = [cell_class(i, o) for i, o in zip(ishape, oshape)]
        # which axes are misplaced?  find the block
        blk = result[tuple(slice(d, d + s) for d, s in zip(offs, ishape))]
        kind = 'origin-misplaced' if not np.array_equal(blk, array, equal_nan=True) else 'border-values'
        axes = sorted(set(bad))
        CTX.violation(f'C04/pad2d/{kind}/{"constant" if mode == "constant" else "np.pad-modes"}/{"|".join(axes)}',
                      f'pad2d does not put input sample i//2 at output sample o//2 (axis classes {cls}, mode={mode})', desc)


def post_crop_center(token, args, kwargs, result):
    img = args[0] if args else kwargs['img']
    out_shape = args[1] if len(args) > 1 else kwargs['out_shape']
    oshape = _norm_shape(out_shape, img.ndim) if not isinstance(out_shape, (int, np.integer)) else (int(out_shape),) * 2
    ishape = img.shape[:len(oshape)]
    if any(o > i for o, i in zip(oshape, ishape)):
        return  # growing crop is out of domain
    desc = {'fn': 'crop_center', 'in': ishape, 'out': oshape, 'dtype': str(img.dtype)}
    CTX.observe('crop_center.placement')
    offs = [i // 2 - o // 2 for o, i in zip(oshape, ishape)]
    ref = img[tuple(slice(d, d + o) for d, o in zip(offs, oshape))]
    if tuple(result.shape) != tuple(ref.shape) or not np.array_equal(result, ref, equal_nan=True):
        axes = sorted(set(cell_class(i, o) for i, o in zip(ishape, oshape)))
        CTX.violation(f'C04/crop_center/origin-misplaced/{"|".join(axes)}',
                      'crop_center does not put input sample i//2 at output sample o//2', desc)


def post_fftrange(token, args, kwargs, result):
    n = args[0] if args else kwargs['n']
    n = int(n)
    CTX.observe('fftrange.origin')
    ref = np.arange(n) - n // 2
    if result.shape != (n,) or not np.array_equal(np.asarray(result), ref.astype(np.asarray(result).dtype)):
        CTX.violation(f'C04/fftrange/{parity(n)}', 'fftrange(n) != arange(n) - n//2', {'fn': 'fftrange', 'n': n})


def post_make_xy_grid(token, args, kwargs, result):
    shape = args[0] if args else kwargs['shape']
    if not isinstance(shape, tuple):
        shape = (shape, shape)
    dx = kwargs.get('dx', 0)
    diameter = kwargs.get('diameter', 0)
    grid = kwargs.get('grid', True)
    if diameter != 0:
        dx = diameter / max(shape)
    x, y = result
    CTX.observe('make_xy_grid.origin')
    desc = {'fn': 'make_xy_grid', 'shape': shape, 'dx': dx, 'grid': grid, 'diameter': diameter}
    n0, n1 = shape
    xv = x[0] if grid else x
    yv = y[:, 0] if grid else y
    ok = xv.shape == (n1,) and yv.shape == (n0,)
    if ok and grid:
        ok = x.shape == (n0, n1) and y.shape == (n0, n1) and (x == xv[None, :]).all() and (y == yv[:, None]).all()
    if not ok:
        CTX.violation('C04/make_xy_grid/shape', 'make_xy_grid returned arrays of the wrong shape / not separable', desc)
        return
    eps = np.finfo(xv.dtype).eps
    for name, v, n in (('x', xv, n1), ('y', yv, n0)):
        ref = (np.arange(n) - n // 2) * float(dx)
        if v[n // 2] != 0.0:
            CTX.violation(f'C04/make_xy_grid/no-exact-zero/{parity(n)}', f'{name}[n//2] is not exactly 0', desc)
        elif not np.allclose(v, ref, rtol=8 * eps, atol=0):
            CTX.violation(f'C04/make_xy_grid/spacing/{parity(n)}', f'{name} is not (arange(n)-n//2)*dx', desc)


def post_forward_ft_unit(token, args, kwargs, result):
    names = ['dx', 'samples', 'shift']
    a = dict(zip(names, args))
    a.update(kwargs)
    dx, n, shift = a['dx'], int(a['samples']), a.get('shift', True)
    CTX.observe('forward_ft_unit.origin')
    desc = {'fn': 'forward_ft_unit', 'n': n, 'dx': dx, 'shift': shift}
    ref = (np.arange(n) - n // 2) / (n * float(dx))
    if not shift:
        ref = np.fft.ifftshift(ref)
    z = n // 2 if shift else 0
    eps = np.finfo(result.dtype).eps
    if result.shape != (n,) or result[z] != 0.0:
        CTX.violation(f'C04/forward_ft_unit/no-exact-zero/{parity(n)}/shift={shift}', 'frequency axis has no exact zero at the origin index', desc)
    elif not np.allclose(result, ref, rtol=16 * eps, atol=0):
        CTX.violation(f'C04/forward_ft_unit/spacing/{parity(n)}/shift={shift}', 'frequency axis is not (arange(n)-n//2)/(n dx)', desc)


def install_monitors(ctx):
    global CTX
    CTX = ctx
    install()


def install():
    from prysm import fttools, coordinates
    attach(fttools, 'pad2d', post=post_pad2d)
    attach(fttools, 'crop_center', post=post_crop_center)
    attach(fttools, 'fftrange', post=post_fftrange)
    attach(coordinates, 'make_xy_grid', post=post_make_xy_grid)
    attach(fttools, 'forward_ft_unit', post=post_forward_ft_unit)


# ------------------------------------------------------------------------------------------ workload
def marker_array(shape, dtype, rng):
    n = int(np.prod(shape))
    a = (np.arange(1, n + 1, dtype=float).reshape(shape) + 0.5)
    if np.dtype(dtype).kind == 'c':
        a = a + 1j * (a[::-1, ::-1] if a.ndim == 2 else a)
    if np.dtype(dtype).kind in 'iu':
        a = np.arange(1, n + 1).reshape(shape)
    return a.astype(dtype)


def run(ctx):
    global CTX
    CTX = ctx
    install()
    try:
        _run(ctx)
    finally:
        detach_all()


def _run(ctx):
    from prysm import fttools, coordinates, psf, propagation
    from prysm._richdata import RichData
    from prysm.conf import config
    rng = ctx.rng('c04')

    # --- 1. pad / crop / round trip over per-axis cells -------------------------------------------
    N = ctx.pick(16, 64)
    cells = [(i, o) for i in range(1, N + 1) for o in range(i, N + 1)]
    modes = ['constant', 'edge', 'reflect', 'symmetric', 'wrap']
    fills = [0, 1, -3.5, float('nan')]
    dtypes = ['float64', 'float32', 'complex128', 'int64']
    if ctx.quick:
        pairs = itertools.product(cells, cells)
        full = True
    else:
        # every cell on axis 0 paired with partners covering all four parity classes + random ones
        by_cls = {}
        for c in cells:
            by_cls.setdefault(cell_class(*c), []).append(c)
        def gen():
            for c0 in cells:
                for cl, lst in sorted(by_cls.items()):
                    for _ in range(3):
                        yield c0, lst[int(rng.integers(len(lst)))]
                    yield lst[int(rng.integers(len(lst)))], c0
        pairs = gen()
        full = False
    k = -1
    for (i0, o0), (i1, o1) in pairs:
        k += 1
        if not ctx.mine(k):
            continue
        mode = 'constant' if k % 3 else modes[(k // 3) % len(modes)]
        dtype = dtypes[(k // 7) % len(dtypes)] if k % 7 == 0 else 'float64'
        fill = fills[(k // 5) % len(fills)] if (mode == 'constant' and k % 5 == 0) else 0
        if np.dtype(dtype).kind in 'iu' and isinstance(fill, float):
            fill = 1 if fill == fill and fill == int(fill) else 0
        if mode in ('reflect',) and (o0 - i0 >= i0 or o1 - i1 >= i1 or i0 < 2 or i1 < 2):
            mode = 'edge'
        if mode in ('symmetric', 'wrap') and (o0 - i0 > i0 or o1 - i1 > i1):
            mode = 'edge'
        desc = {'wl': 'pad-crop', 'in': (i0, i1), 'out': (o0, o1), 'mode': mode, 'fill': fill, 'dtype': dtype,
                'class': f'pad:{cell_class(i0, o0)},{cell_class(i1, o1)}:{mode}'}
        ctx.case(desc, nontrivial=(i0 * i1 >= 2 or (o0, o1) != (i0, i1)))
        a = marker_array((i0, i1), dtype, rng)
        with ctx.guard('C04/pad2d', desc):
            kw = {'out_shape': (o0, o1)} if k % 4 else {'out_shape': (o0, o1), 'Q': 3}
            p = fttools.pad2d(a, value=fill, mode=mode, **kw)
            # marker: the origin sample goes to the origin
            ctx.require('pad2d.origin-marker', p.shape == (o0, o1) and (p[o0 // 2, o1 // 2] == a[i0 // 2, i1 // 2]),
                        f'C04/pad2d/origin-marker/{cell_class(i0, o0)}|{cell_class(i1, o1)}',
                        'the origin sample of the input is not at the origin of the padded array', desc)
            c = fttools.crop_center(p, (i0, i1))
            ctx.equal('roundtrip.crop(pad)', c, a, 'C04/roundtrip/crop(pad(x))!=x', 'crop_center(pad2d(x)) != x', desc)
        # crop on its own (shrinking from the big shape)
        b = marker_array((o0, o1), dtype, rng)
        with ctx.guard('C04/crop_center', desc):
            c = fttools.crop_center(b, (i0, i1))
            ctx.require('crop.origin-marker', c.shape == (i0, i1) and c[i0 // 2, i1 // 2] == b[o0 // 2, o1 // 2],
                        f'C04/crop_center/origin-marker/{cell_class(o0, i0)}|{cell_class(o1, i1)}',
                        'the origin sample of the input is not at the origin of the cropped array', desc)
            if i0 == i1:
                fttools.crop_center(b, int(i0)) if o0 >= i0 and o1 >= i0 else None
    # a few large, random shapes (sampled, not enumerated)
    for _ in range(ctx.share(ctx.pick(40, 600))):
        i0, i1 = (int(v) for v in rng.integers(1, ctx.pick(200, 1200), 2))
        o0, o1 = i0 + int(rng.integers(0, 300)), i1 + int(rng.integers(0, 300))
        desc = {'wl': 'pad-crop-large', 'in': (i0, i1), 'out': (o0, o1), 'class': f'padL:{cell_class(i0, o0)},{cell_class(i1, o1)}'}
        ctx.case(desc)
        a = rng.standard_normal((i0, i1))
        with ctx.guard('C04/pad2d', desc):
            pz = fttools.pad2d(a, out_shape=(o0, o1))
            ctx.equal('roundtrip.crop(pad)', fttools.crop_center(pz, (i0, i1)), a, 'C04/roundtrip/crop(pad(x))!=x', 'crop_center(pad2d(x)) != x', desc)
    if full:
        ctx.note('pad_crop_cells', f'all per-axis (in,out) cells with 1<=in<=out<={N}, all pairs of cells (axis0 x axis1)')

    # --- 2. Q-form of pad2d, Wavefront.pad2d / crop, FFT route with non-integer Q ------------------
    nQ = ctx.share(ctx.pick(300, 6000))
    for _ in range(nQ):
        i0, i1 = (int(v) for v in rng.integers(1, ctx.pick(16, 48), 2))
        Q = [1, 2, 3, 1.5, 2.5, 1.25, float(rng.uniform(1, 4))][int(rng.integers(7))]
        o0, o1 = math.ceil(i0 * Q), math.ceil(i1 * Q)
        desc = {'wl': 'wavefront', 'in': (i0, i1), 'Q': Q, 'class': f'wfQ:{cell_class(i0, o0)},{cell_class(i1, o1)}'}
        ctx.case(desc)
        a = marker_array((i0, i1), 'complex128', rng)
        with ctx.guard('C04/Wavefront.pad2d', desc):
            w = propagation.Wavefront(a.copy(), 0.5, 1.0)
            w2 = w.pad2d(Q, inplace=False)
            ctx.require('wavefront.pad-shape', w2.data.shape == (o0, o1) if Q != 1 else True, 'C04/pad2d/Q-shape',
                        'pad2d(Q) does not land on ceil(s*Q)', desc)
            w3 = w2.crop((i0, i1), inplace=False)
            ctx.equal('roundtrip.crop(pad)', w3.data, a, 'C04/roundtrip/Wavefront', 'Wavefront.crop(Wavefront.pad2d(x)) != x', desc)
            w.pad2d(Q, inplace=True)
            w.crop((i0, i1), inplace=True)
            ctx.equal('roundtrip.crop(pad)', w.data, a, 'C04/roundtrip/Wavefront-inplace', 'in-place pad then crop != x', desc)
            if i0 > 1 and i1 > 1:
                propagation.focus(a, Q)     # pad2d monitor sees the call made inside propagation
                propagation.unfocus(a, Q)

    # --- 3. grids and axes ---------------------------------------------------------------------------
    NG = ctx.pick(64, 512)
    k = -1
    for n in range(1, NG + 1):
        k += 1
        if not ctx.mine(k):
            continue
        dx = [1.0, 0.37, 12.5, 1 / 3, float(rng.uniform(1e-3, 1e3))][n % 5]
        n2 = int(rng.integers(1, NG + 1))
        desc = {'wl': 'grids', 'n': n, 'n2': n2, 'dx': dx, 'class': f'grid:{parity(n)}{parity(n2)}'}
        ctx.case(desc)
        with ctx.guard('C04/grids', desc):
            fttools.fftrange(n)
            fttools.fftrange(n, dtype=config.precision)
            coordinates.make_xy_grid((n, n2), dx=dx)
            coordinates.make_xy_grid((n2, n), dx=dx, grid=False)
            coordinates.make_xy_grid(n if n < 200 else 7, diameter=2.0)
            fttools.forward_ft_unit(dx, n)
            fttools.forward_ft_unit(dx, n, shift=False)
    with precision(32):
        for n in range(1, 40):
            if ctx.mine(n):
                ctx.case({'wl': 'grids-f32', 'n': n, 'class': 'grid:f32'})
                coordinates.make_xy_grid((n, n + 1), dx=0.37)
                fttools.forward_ft_unit(0.37, n)

    # --- 4. slices through the origin sample ---------------------------------------------------------
    NS = ctx.pick(14, 40)
    k = -1
    for n0 in range(1, NS + 1):
        for n1 in range(1, NS + 1):
            k += 1
            if not ctx.mine(k):
                continue
            dx = [1.0, 0.25, 3.3][k % 3]
            desc = {'wl': 'slices', 'shape': (n0, n1), 'dx': dx, 'class': f'slices:{parity(n0)}{parity(n1)}'}
            ctx.case(desc, nontrivial=n0 * n1 >= 2)
            a = marker_array((n0, n1), 'float64', rng)
            with ctx.guard('C04/slices', desc):
                rd = RichData(a, dx, None)
                for two in (True, False):
                    s = rd.slices(twosided=two)
                    xs, xv = s.x
                    ys, yv = s.y
                    fx = (np.arange(n1) - n1 // 2) * dx
                    fy = (np.arange(n0) - n0 // 2) * dx
                    if two:
                        ok = (np.array_equal(xv, a[n0 // 2, :]) and np.array_equal(yv, a[:, n1 // 2])
                              and np.allclose(xs, fx, rtol=1e-14, atol=0) and np.allclose(ys, fy, rtol=1e-14, atol=0))
                    else:
                        ok = (np.array_equal(xv, a[n0 // 2, n1 // 2:]) and np.array_equal(yv, a[n0 // 2:, n1 // 2])
                              and np.allclose(xs, fx[n1 // 2:], rtol=1e-14, atol=0) and np.allclose(ys, fy[n0 // 2:], rtol=1e-14, atol=0))
                    ctx.require('slices.through-origin', ok, f'C04/slices/{"two" if two else "one"}sided/{parity(n0)}{parity(n1)}',
                                'slices do not pass through the origin sample (n0//2, n1//2)', desc)

    # --- 5. centroid of a point source ---------------------------------------------------------------
    NC = ctx.pick(13, 33)
    k = -1
    for n0 in range(1, NC + 1):
        for n1 in range(1, NC + 1):
            k += 1
            if not ctx.mine(k):
                continue
            dx = [1.0, 0.5, 6.5][k % 3]
            pts = [(0, 0)] + [(int(rng.integers(-(n0 // 2), n0 - n0 // 2)), int(rng.integers(-(n1 // 2), n1 - n1 // 2))) for _ in range(3)]
            for (k0, k1) in pts:
                desc = {'wl': 'centroid', 'shape': (n0, n1), 'dx': dx, 'k': (k0, k1), 'class': f'centroid:{parity(n0)}{parity(n1)}'}
                ctx.case(desc, nontrivial=n0 * n1 >= 2)
                d = np.zeros((n0, n1))
                d[n0 // 2 + k0, n1 // 2 + k1] = 2.5
                with ctx.guard('C04/centroid', desc):
                    c = psf.centroid(d, dx)
                    ok = len(c) == 2 and abs(c[0] - k0 * dx) <= 1e-12 * dx * n0 and abs(c[1] - k1 * dx) <= 1e-12 * dx * n1
                    bad = [parity(n) for n, got, want in ((n0, c[0], k0 * dx), (n1, c[1], k1 * dx)) if abs(got - want) > 1e-12 * dx * n]
                    ctx.require('centroid.point-source', ok, f'C04/centroid/point-source-offset/n={"|".join(sorted(set(bad)))}',
                                'centroid of a point source k samples from index n//2 is not k*dx', desc, got=c)
            # two-sample blob: weighted mean
            if n1 >= 2:
                d = np.zeros((n0, n1))
                d[n0 // 2, n1 // 2] = 1.0
                j = n1 // 2 + (1 if n1 // 2 + 1 < n1 else -1)
                d[n0 // 2, j] = 3.0
                desc = {'wl': 'centroid2', 'shape': (n0, n1), 'dx': dx, 'class': f'centroid2:{parity(n0)}{parity(n1)}'}
                ctx.case(desc)
                with ctx.guard('C04/centroid', desc):
                    c = psf.centroid(d, dx)
                    want = 0.75 * (j - n1 // 2) * dx
                    bad = []
                    if abs(c[0]) > 1e-12 * dx * n0:
                        bad.append(parity(n0))
                    if abs(c[1] - want) > 1e-12 * dx * n1:
                        bad.append(parity(n1))
                    ctx.require('centroid.point-source', not bad, f'C04/centroid/point-source-offset/n={"|".join(sorted(set(bad)))}',
                                'centroid of a two-sample blob is not the weighted mean offset from index n//2', desc, got=c)
    if ctx.quick:
        ctx.exhaustive = True


def replay(ctx, rec):
    run(ctx)
