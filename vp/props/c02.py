"""C02 -- propagators conserve energy and invert each other.

Pure algebraic laws over observed calls of the real code (the only "model" is an origin-aligned zero pad):

  contracts (see every call, also the ones Wavefront methods make):
    fft.energy              propagation.focus / unfocus:  sum|out|^2 == sum|in|^2 for every Q >= 1, shape ceil(s Q)
    as.energy               propagation.angular_spectrum (tf=None, or a unit-modulus tf): energy in == energy out
    tf.unit-modulus         angular_spectrum_transfer_function: shape == samples, |tf| == 1
  laws driven by the workload:
    fft.roundtrip           unfocus(focus(a,Q),1) == origin_pad(a) and focus(unfocus(a,Q),1) == origin_pad(a)
    mdft.band-complete      out >= n integers, Q = out/n per axis: dft2 is an isometry and idft2(dft2(a,Q,out),1,n) == a
    czt.band-complete       (same with czt2/iczt2; both orders for both engines)
    as.identity / as.undo / as.compose / as.tf-argument / tf.group-law   at Q == 1 (Q != 1 pads: energy only)
    as.tf-reuse / repeat.same-objects   a transfer-function array, a field object, a Q container used again gives what it gave first,
                            and the later use still satisfies the laws above (function and Wavefront form)
    history.ops             band-complete pair judged after shifted traffic at the same sizes / a float32 warm-up / clears
    form.equivalence        every accepted argument form reproduces the canonical call (class E; also the pair through the fixed-sampling
                            wrappers, real-dtype / integer / boolean fields everywhere)
    foreign.traffic         laws judged after the other consumers of the shared helpers / executors ran (class F)

Chirp-Z failures are attributed, for the ledger key only, to the C01 chirp-Z defects by the same single-cause models
that C01 uses (vp/props/c01.py::diagnose_czt): the C01 patches clear them.
"""
import math

import numpy as np

from ..contracts import attach, detach_all
from ..core import parity
from ..refmodels.dft import origin_pad, pair, ref_dft
from .c01 import (HarnessError, _safe, _copyarg, _same, _same_value, axes_class, conf_bits, diagnose_czt, is_single, make_input, rtol_for,
                  shape_kind, relayout, LAYOUTS, make_container, container_values)
from .c01 import KEY_AMBIG as C01_AMBIG, KEY_START as C01_START, KEY_SWAP as C01_SWAP

RULE = ('cases are (shape, Q, dtype/precision) for the padded FFT pair, (shape, integer output shape >= shape) for the '
        'band-complete mdft/czt pairs, and (shape, wavelength, dx, z or z-pair, Q) for free space; shapes cover every parity '
        'combination, square / non-square / 1xN and extreme aspect ratios; fields are seeded complex gaussian (repeat cases also '
        'real, integer and boolean images), in the configured precision or mixed (float32 data under precision 64 and vice versa).  '
        'Repeat cases re-use argument objects: one transfer-function array for several propagations through the function and the '
        'Wavefront form (tf=), one field object in six memory layouts for several calls, one Q / sample-count container (tuple, list, '
        'float64 ndarray, numpy scalars) for both legs of the band-complete pair, twice.  Histories put shifted transforms with another '
        'Q at the same array sizes (engine calls and the fixed-sampling wrappers), a float32 warm-up of the same pair and cache clears '
        'before the band-complete pair that is judged; free-space laws are also judged after a float32 warm-up of the same routines.  '
        'Fields of the band-complete grid, of free space and of the foreign-history cases are complex, real-dtype, integer and boolean '
        'arrays (an integer / boolean image is a real field).  The band-complete pair is also made through focus_fixed_sampling / '
        'unfocus_fixed_sampling (function and Wavefront form, both methods, both orders, non-square fields onto one square period, '
        'sample counts as int / tuple / numpy integer / list, shift and method omitted or spelled out).  Form cases (class E, '
        'vp/propforms.py): focus / unfocus / angular_spectrum (with and without tf=) / the transfer function and the band-complete '
        'pairs as composed routines in a canonical form and then in every other accepted form of the same numbers (field dtype kinds, '
        'containers, numpy / integer / 0-d scalars, positional, omitted defaults after a call with other explicit values, Wavefront '
        'methods incl. free_space(tf=)).  Foreign-history cases (class F): the other consumers of the shared helpers and executors '
        '(incl. the adjoint routines at exactly the cache keys of the pair, the transfer function at the same arguments with the '
        'returned array edited in place) run first, then the laws are judged with nothing cleared.  '
        'Non-trivial: the field has >= 2 non-zero samples; distinct = distinct descriptor')
ASSUMPTIONS = [
    'origin-aligned zero padding puts input sample n//2 on output sample N//2 (own placement, not prysm.pad2d)',
    'energy = sum |field|^2; relative tolerance 1e-10 (float64) / 1e-3 (float32); field comparisons 1e-9 / 1e-3 of max|reference| (band-complete pairs: of ||a||_2, '
    'raised to 1000 eps * kernel phase where that is larger, as in C01)',
    'additivity in distance is compared with tolerance 1e-10 + 500 eps * (total transfer-function phase in rad); cases where that '
    'exceeds 1e-3 are ill-conditioned in the working precision and are excluded and counted',
    'group laws of free space are checked at Q == 1 only (Q != 1 pads the array, so only energy is defined)',
    'the sign / physical correctness of the free-space kernel is not part of this property (all four laws hold for its conjugate)',
    'chirp-Z failures are attributed to the C01 defects with the textbook DFT (vp/refmodels/dft.py) -- for the key only',
    'contracts evaluate the laws on the argument values before the call (pre-hook snapshots); results are copied as soon as they are '
    'returned (a routine may hand back memory it shares with an argument); the routines are deterministic, so a later call with the '
    'same argument objects must reproduce the first to 10 eps',
    'a mixed-precision case is judged at the float32 tolerances',
    'accepted argument forms are fixed from the reference tree (/repo @ faa8443, vp/propforms.py); a form must reproduce the canonical '
    'result to 1e-12 (float32-carrying forms / single precision: 1e-3) of max(max|canonical|, bound on the output magnitude); the '
    'canonical result itself is judged by the laws',
    'exact band through the wrappers: P x P samples with P d2 = lambda f / d1, P >= max(field shape), so Q = P / n per axis and the '
    'return trip has Q = 1; same tolerances as the executor-level pair',
    'foreign traffic is not judged; returned arrays belong to the caller and are edited in place; a foreign routine that leaves '
    'config.precision changed is reported under its own key and repaired before the laws are judged',
]
REQUIRED = ['fft.energy', 'fft.roundtrip', 'mdft.band-complete', 'czt.band-complete', 'as.energy', 'tf.unit-modulus',
            'as.identity', 'as.undo', 'as.compose', 'as.tf-argument', 'tf.group-law', 'as.tf-reuse', 'repeat.same-objects', 'history.ops',
            'form.equivalence', 'foreign.traffic']

CTX = None
CUR = {'desc': None}
STATS = {}
ETOL64, ETOL32 = 1e-10, 1e-3      # energy, relative (observed round-off <= 2e-15 / 1e-6)
COND_MULT = 500                  # additivity: tolerance grows with 500 eps * total transfer-function phase (observed error <= 0.4 eps phi)


def energy(a):
    a = np.asarray(a)
    return float(np.sum(np.abs(a.astype(np.complex128)) ** 2))


def stat(label, err, tol):
    if tol > 0:
        STATS[label] = max(STATS.get(label, 0.0), err / tol)


def bits_of(a):
    return 32 if is_single(np.asarray(a).dtype) else 64


def qclass(Q):
    return 'Q=1' if Q == 1 else ('intQ' if float(Q).is_integer() else 'fracQ')


def cur(extra):
    d = dict(CUR['desc']) if CUR['desc'] else {}
    d.update(extra)
    return d


def field_close(monitor, got, ref, key, what, desc, single, rtol64=1e-9, rtol32=1e-3, extra_rtol=0.0):
    """|got - ref|_inf <= rtol * |ref|_inf, counted under `monitor`."""
    CTX.observe(monitor)
    got, ref = np.asarray(got), np.asarray(ref)
    if got.shape != ref.shape:
        CTX.violation(key + '/shape', what + f': shape {got.shape} != {ref.shape}', desc)
        return False
    scale = float(np.max(np.abs(ref))) if ref.size else 0.0
    tol = ((rtol32 if single else rtol64) + extra_rtol) * scale
    err = float(np.max(np.abs(got - ref))) if got.size and np.isfinite(got).all() else (0.0 if not got.size else float('inf'))
    if not err <= tol:
        CTX.violation(key, what, desc, err=err, tol=tol, scale=scale)
        return False
    stat(f'{monitor}/{"f32" if single else "f64"}', err, tol)
    return True


def energy_close(monitor, e_out, e_in, key, what, desc, single):
    CTX.observe(monitor)
    tol = (ETOL32 if single else ETOL64) * e_in
    err = abs(e_out - e_in)
    if not err <= tol:
        CTX.violation(key, what, desc, energy_in=e_in, energy_out=e_out, ratio=(e_out / e_in if e_in else None))
        return False
    stat(f'{monitor}/{"f32" if single else "f64"}', err, tol)
    return True


# ------------------------------------------------------------------------------------------ contracts
def _snap(names):
    """pre-hook: the values of all arguments before the call (a routine that writes into a caller's array -- the field, a
    transfer function passed with tf= -- must not be able to change what the laws are evaluated on)."""
    def pre(args, kwargs):
        a = dict(zip(names, args))
        a.update(kwargs)
        return {k: _copyarg(v) for k, v in a.items()}
    return pre


def _note_mutation(fn, args, kwargs, names, snap):
    now = dict(zip(names, args))
    now.update(kwargs)
    for k, v in snap.items():
        if isinstance(v, np.ndarray) and k in now and not _same_value(now[k], v):
            CTX.event(f'argument-mutated-in-place:{fn}:{k}')      # evidence only; the repeat laws judge the later call


def fft_post(fn):
    @_safe
    def post(token, args, kwargs, result):
        a = dict(token)
        _note_mutation(fn, args, kwargs, ['wavefunction', 'Q'], token)
        ary, Q = a.get('wavefunction'), a['Q']
        if not isinstance(ary, np.ndarray) or ary.ndim != 2 or ary.dtype.kind not in 'fciub':
            return
        if ary.dtype.kind in 'iub':
            ary = ary.astype(np.float64)          # an integer / boolean image is a real field
        try:
            Qf = float(Q)
        except Exception:
            return
        if not (Qf >= 1 and math.isfinite(Qf)):
            return
        e_in = energy(ary)
        if e_in == 0 or not np.isfinite(ary).all():
            CTX.skip('fft: all-zero or non-finite field (trivial)')
            return
        m, n = ary.shape
        out = (m, n) if Q == 1 else (math.ceil(m * Q), math.ceil(n * Q))
        desc = cur({'fn': fn, 'in': [m, n], 'Q': Qf, 'dtype': str(ary.dtype)})
        result = np.asarray(result)
        if result.shape != out:
            CTX.observe('fft.energy')
            CTX.violation(f'C02/{fn}/shape', f'{fn} returned shape {result.shape}, expected ceil(shape*Q) = {out}', desc)
            return
        energy_close('fft.energy', energy(result), e_in, f'C02/{fn}/energy/{qclass(Qf)}/{shape_kind((m, n))}',
                     f'propagation.{fn} does not conserve energy (padded FFT, norm=ortho)', desc, is_single(ary.dtype))
    return post


def _unit_modulus(tf, single):
    tf = np.asarray(tf)
    if not tf.size:
        return True, 0.0
    dev = float(np.max(np.abs(np.abs(tf.astype(np.complex128)) - 1.0))) if np.isfinite(tf).all() else float('inf')
    return dev <= (1e-4 if single else 1e-12), dev


@_safe
def as_post(token, args, kwargs, result):
    a = dict(token)                                # every argument as it was before the call
    _note_mutation('angular_spectrum', args, kwargs, ['field', 'wvl', 'dx', 'z', 'Q', 'tf'], token)
    field = a.get('field')
    if not isinstance(field, np.ndarray) or field.ndim != 2 or field.dtype.kind not in 'fciub':
        return
    if field.dtype.kind in 'iub':
        field = field.astype(np.float64)          # an integer / boolean image is a real field
    tf = a.get('tf', None)
    Q = a.get('Q', 2)
    e_in = energy(field)
    if e_in == 0 or not np.isfinite(field).all():
        CTX.skip('free space: all-zero or non-finite field (trivial)')
        return
    single = is_single(field.dtype) or conf_bits() == 32
    desc = cur({'fn': 'angular_spectrum', 'in': list(field.shape), 'Q': Q, 'tf_given': tf is not None,
                'wvl': a.get('wvl'), 'dx': a.get('dx'), 'z': a.get('z'), 'dtype': str(field.dtype)})
    if tf is not None:
        ok, _ = _unit_modulus(tf, is_single(np.asarray(tf).dtype) or single)
        if not ok:
            CTX.skip('free space: caller-supplied tf is not unit-modulus (energy not defined by the property)')
            return
        out = field.shape
    else:
        out = field.shape if Q == 1 else tuple(math.ceil(s * Q) for s in field.shape)
    result = np.asarray(result)
    if result.shape != tuple(out):
        CTX.observe('as.energy')
        CTX.violation('C02/angular_spectrum/shape', f'angular_spectrum returned shape {result.shape}, expected {tuple(out)}', desc)
        return
    qc = 'tf-given' if tf is not None else ('Q=1' if Q == 1 else 'Q>1')
    energy_close('as.energy', energy(result), e_in, f'C02/angular_spectrum/energy/{qc}/{shape_kind(field.shape)}',
                 'angular_spectrum does not conserve energy', desc, single)


@_safe
def tf_post(token, args, kwargs, result):
    a = dict(zip(['samples', 'wvl', 'dx', 'z'], args))
    a.update(kwargs)
    try:
        shp = tuple(int(s) for s in pair(a['samples']))
    except Exception:
        return
    CTX.observe('tf.unit-modulus')
    desc = cur({'fn': 'angular_spectrum_transfer_function', 'samples': list(shp), 'wvl': a.get('wvl'), 'dx': a.get('dx'), 'z': a.get('z'),
                'precision': conf_bits()})
    result = np.asarray(result)
    if result.shape != shp:
        CTX.violation(f'C02/transfer_function/shape/{shape_kind(shp)}',
                      f'angular_spectrum_transfer_function returned shape {result.shape} for samples {shp}', desc)
        return
    single = is_single(result.dtype) or conf_bits() == 32
    ok, dev = _unit_modulus(result, single)
    if not ok:
        CTX.violation('C02/transfer_function/not-unit-modulus', 'free-space transfer function is not unit-modulus', desc, max_dev=dev)
    else:
        stat(f'tf.unit-modulus/{"f32" if single else "f64"}', dev, 1e-4 if single else 1e-12)


def install():
    from prysm import propagation
    attach(propagation, 'focus', pre=_snap(['wavefunction', 'Q']), post=fft_post('focus'))
    attach(propagation, 'unfocus', pre=_snap(['wavefunction', 'Q']), post=fft_post('unfocus'))
    attach(propagation, 'angular_spectrum', pre=_snap(['field', 'wvl', 'dx', 'z', 'Q', 'tf']), post=as_post)
    attach(propagation, 'angular_spectrum_transfer_function', post=tf_post)


def install_monitors(ctx):
    """Attach the contracts for the repository's own test traffic (vp/pytest_monitors.py)."""
    global CTX
    CTX = ctx
    install()


# ------------------------------------------------------------------------------------------ workloads
def nontrivial(a):
    return int(np.count_nonzero(a)) >= 2


# dtype kinds of a field (class E): the same law for a complex field, a real-dtype field, an integer image and a boolean mask
DATA_KINDS = ('complex', 'complex', 'real', 'complex', 'int', 'complex', 'bool', 'real')


def field_of_kind(kind, shape, seed, bits=64):
    if kind == 'complex':
        return make_input(shape, True, seed, bits=bits)
    if kind == 'real':
        return make_input(shape, False, seed, bits=bits)
    r = np.random.default_rng(seed)
    if kind == 'int':
        dt = [np.int64, np.int32, np.int16, np.uint8][seed % 4]
        return r.integers(0 if dt is np.uint8 else -3, 4, shape).astype(dt)
    return r.random(shape) < 0.6


def shapes_upto(n):
    s = [(i, j) for i in range(1, n + 1) for j in range(1, n + 1)]
    s.sort(key=lambda p: (p[0] * p[1], p))
    return s


def wl_fft_pair(ctx, rng):
    from prysm import propagation
    from ..util import precision
    Qs = [1, 2, 3, 4, 1.5, 2.5] + ctx.pick([], [1.25, 5, 8])
    shapes = shapes_upto(ctx.pick(9, 24)) + [(1, 12), (13, 1), (2, 16), (16, 3), (1, 64), (96, 2), (3, 128)]
    if not ctx.quick:
        shapes += [(int(a), int(b)) for a, b in np.random.default_rng([ctx.seed, 77]).integers(10, 161, (4000, 2))]
    k = -1
    for (m, n) in shapes:
        for Q in Qs:
            k += 1
            if not ctx.mine(k):
                continue
            if max(m, n) * Q > 640:
                continue                      # keep the padded array below 640 samples per axis
            bits = 32 if (k // ctx.nshards) % 5 == 4 else 64
            seed = ctx.subseed(rng)
            a = make_input((m, n), True, seed, bits=bits)
            out = (math.ceil(m * Q), math.ceil(n * Q))
            via = 'Wavefront' if (k // ctx.nshards) % 3 == 0 else 'function'
            desc = {'wl': 'fft-pair', 'in': (m, n), 'Q': Q, 'bits': bits, 'via': via, 'seed': seed,
                    'class': f'fft:{shape_kind((m, n))}:{axes_class((m, n), out)}:{qclass(Q)}:f{bits}'}
            ctx.case(desc, nontrivial=nontrivial(a))
            CUR['desc'] = desc
            single = bits == 32
            try:
                with precision(bits), ctx.guard('C02/fft-pair', desc):
                    ref = origin_pad(a, out)
                    if via == 'function':
                        back = propagation.unfocus(propagation.focus(a, Q), 1)
                        back2 = propagation.focus(propagation.unfocus(a, Q), 1)
                    else:
                        w = propagation.Wavefront(a, 0.55, 0.1)
                        back = w.focus(100., Q=Q).unfocus(100., Q=1).data
                        w2 = propagation.Wavefront(a, 0.55, 3.0, space='psf')
                        back2 = w2.unfocus(100., Q=Q).focus(100., Q=1).data
                    cls = f'{qclass(Q)}/pad:{axes_class((m, n), out)}'
                    field_close('fft.roundtrip', back, ref, f'C02/fft-roundtrip/unfocus(focus)/{cls}',
                                'unfocus(focus(a,Q),1) is not the origin-aligned zero padding of a', desc, single)
                    field_close('fft.roundtrip', back2, ref, f'C02/fft-roundtrip/focus(unfocus)/{cls}',
                                'focus(unfocus(a,Q),1) is not the origin-aligned zero padding of a', desc, single)
            finally:
                CUR['desc'] = None


C01_CAUSE_KEY = {'swap': C01_SWAP, 'start': C01_START, 'ambiguous': C01_AMBIG}


def band_complete(ctx, engine, a, n, out, order, desc, single, Qarg=None, outarg=None, a_ref=None):
    """order 'fwd-inv': F = fwd(a,Q,out); back = inv(F,1,n).  order 'inv-fwd': the other way round.
    Qarg / outarg: caller-owned container objects for Q and the output sample counts (re-used by the caller)."""
    from prysm import fttools
    ex = fttools.mdft if engine == 'mdft' else fttools.czt
    f_fwd, f_inv = (ex.dft2, ex.idft2) if engine == 'mdft' else (ex.czt2, ex.iczt2)
    first, second = (f_fwd, f_inv) if order == 'fwd-inv' else (f_inv, f_fwd)
    Q = (out[0] / n[0], out[1] / n[1])
    if Qarg is None:
        Qarg = Q[0] if (Q[0] == Q[1] and desc.get('k', 0) % 2) else Q
    F = first(a, Qarg, out if outarg is None else outarg)
    back = second(F, 1, n)
    judge_band(engine, a, n, out, order, desc, single, F, back, a_ref)


def judge_band(engine, a, n, out, order, desc, single, F, back, a_ref=None, via='', cls=None):
    """Isometry + left-inverse laws of one band-complete trip a -> F (out samples, Q = out/n) -> back (n samples).  `via`: suffix
    of the key for trips made through other routines than the executors (the fixed-sampling wrappers)."""
    Q = (out[0] / n[0], out[1] / n[1])
    if a_ref is not None:
        a = a_ref                     # judge against the values the caller put in, not against what the array holds now
    mon = f'{engine}.band-complete'
    CTX.observe(mon)
    e_in, e_F = energy(a), energy(F)
    F = np.asarray(F)
    back = np.asarray(back)
    scale = float(np.sqrt(np.sum(np.abs(a.astype(np.complex128)) ** 2)))      # ||a||_2 bounds the error of the two-leg trip
    # conditioning of the two legs in the working precision (same rule as C01: floor, raised to 1000 eps * kernel phase)
    r1 = rtol_for(engine, single, n, Q, out, (0.0, 0.0))
    r2 = rtol_for(engine, single, out, (1.0, 1.0), n, (0.0, 0.0))
    if r1 is None or r2 is None:
        CTX.observe(mon, -1)
        CTX.skip('band-complete: kernel phase beyond the resolution of the working precision (ill-conditioned)')
        return None
    rel = max(r1, r2)
    etol = max(ETOL32 if single else ETOL64, 2 * rel if single else 0.0) * e_in
    rtol = rel * scale
    bad_energy = not abs(e_F - e_in) <= etol
    bad_rt = back.shape != a.shape or not (np.isfinite(back).all() and float(np.max(np.abs(back - a))) <= rtol)
    if not bad_energy and not bad_rt:
        stat(f'{mon}.energy/{"f32" if single else "f64"}', abs(e_F - e_in), etol)
        stat(f'{mon}.roundtrip/{"f32" if single else "f64"}', float(np.max(np.abs(back - a))), rtol)
        return True
    detail = {'energy_ratio': e_F / e_in, 'roundtrip_err': (float(np.max(np.abs(back - a))) if back.shape == a.shape else None), 'tol': rtol}
    if engine == 'czt' and F.shape == tuple(out):
        # attribute to the C01 chirp-Z defects (models from c01.diagnose_czt), leg by leg
        causes = set()
        unexplained = False
        fwd1 = order == 'fwd-inv'
        l1 = float(np.abs(a).sum()) / math.sqrt(out[0] * out[1])
        ref1 = ref_dft(a, Q, out, (0, 0), fwd1)
        tol1 = r1 * l1
        if float(np.max(np.abs(F - ref1))) > tol1:
            c = diagnose_czt(a, Q, out, (0.0, 0.0), fwd1, F, tol1)
            if c:
                causes.update(c)
            else:
                unexplained = True
        if back.shape == tuple(n):
            l2 = float(np.abs(F).sum()) / math.sqrt(out[0] * out[1])
            ref2 = ref_dft(F, (1.0, 1.0), n, (0, 0), not fwd1)
            tol2 = r2 * l2
            if float(np.max(np.abs(back - ref2))) > tol2:
                c = diagnose_czt(F, (1.0, 1.0), n, (0.0, 0.0), not fwd1, back, tol2)
                if c:
                    causes.update(c)
                else:
                    unexplained = True
        if causes and not unexplained:
            for c in sorted(causes):
                CTX.violation(f'C02/czt/band-complete/caused-by:{C01_CAUSE_KEY[c]}',
                              'czt2 -> iczt2 on the band-complete grid (integer out >= n, Q = out/n) does not conserve energy / return the '
                              'field; consequence of the chirp-Z defect ' + C01_CAUSE_KEY[c], desc, explained_by=sorted(causes), **detail)
            return False
    cls = (f'{shape_kind(n)}->{shape_kind(out)}' + via) if cls is None else cls
    if bad_energy:
        CTX.violation(f'C02/{engine}/band-complete/energy/{cls}',
                      f'{engine} transform onto the full band (out = n*Q) is not an isometry', desc, **detail)
    if bad_rt:
        CTX.violation(f'C02/{engine}/band-complete/roundtrip/{cls}',
                      f'{engine} transform onto the full band followed by its inverse does not return the field', desc, **detail)
    return False


def wl_band_complete(ctx, rng):
    from prysm import fttools
    from ..util import precision
    nmax = ctx.pick(7, 14)
    grow = ctx.pick(6, 14)
    cases = []
    for (n0, n1) in shapes_upto(nmax):
        for d0 in range(0, grow + 1):
            for d1 in range(0, grow + 1):
                cases.append(((n0, n1), (n0 + d0, n1 + d1)))
    cases.sort(key=lambda c: (c[1][0] * c[1][1], c))
    ctx.note('band_complete_grid', f'all n in [1..{nmax}]^2 x out = n + d, d in [0..{grow}]^2, both engines, both orders')
    if not ctx.quick:
        extra = np.random.default_rng([ctx.seed, 99]).integers(10, 97, (18000, 2))
        g2 = np.random.default_rng([ctx.seed, 98])          # the same list on every shard
        for (n0, n1) in extra:
            d0, d1 = (int(v) for v in g2.integers(0, 65, 2))
            cases.append(((int(n0), int(n1)), (int(n0) + d0, int(n1) + d1)))
    k = -1
    for (n, out) in cases:
        for engine in ('mdft', 'czt'):
            for order in ('fwd-inv', 'inv-fwd'):
                k += 1
                if not ctx.mine(k):
                    continue
                if (k // ctx.nshards) % 256 == 255:       # bound the memory held by the shared caches
                    fttools.mdft.clear()
                    fttools.czt.clear()
                bits = 32 if (k // ctx.nshards) % 7 == 6 else 64
                seed = ctx.subseed(rng)
                dk = DATA_KINDS[(k // ctx.nshards) % len(DATA_KINDS)]
                a = field_of_kind(dk, n, seed, bits)
                desc = {'wl': 'band-complete', 'engine': engine, 'order': order, 'n': n, 'out': out, 'bits': bits, 'seed': seed, 'k': k, 'field_dtype': str(a.dtype),
                        'class': f'band:{engine}:{order}:{shape_kind(n)}:{axes_class(n, out)}:f{bits}' + (f':{dk}' if dk != 'complex' else '')}
                ctx.case(desc, nontrivial=nontrivial(a))
                CUR['desc'] = desc
                try:
                    with precision(bits), ctx.guard(f'C02/{engine}/band-complete', desc):
                        band_complete(ctx, engine, a, n, out, order, desc, bits == 32)
                finally:
                    CUR['desc'] = None
    fttools.mdft.clear()
    fttools.czt.clear()


def tf_phase(shape, wvl, dx, z):
    """Largest |phase| (rad) of the free-space transfer function on this grid."""
    kmax2 = 0.0
    for s in shape:
        k = max(abs((np.arange(s) - s // 2)).max(), 0) / (s * dx)
        kmax2 += k * k
    return math.pi * (wvl / 1e3) * abs(z) * kmax2


def wl_free_space(ctx, rng):
    from prysm import propagation
    from ..util import precision
    shapes = shapes_upto(ctx.pick(7, 16)) + [(1, 10), (11, 1), (16, 16), (12, 20), (21, 8), (2, 64), (96, 3)]
    if not ctx.quick:
        shapes += [(int(a), int(b)) for a, b in np.random.default_rng([ctx.seed, 5]).integers(10, 129, (1200, 2))]
    wvls = [0.3, 0.55, 0.6328, 1.55, 12.0]
    dxs = [1e-3, 0.01, 0.1, 1.0]
    zs = [0.0, 1e-9, -1e-9, 1.0, -1.0, 1e3, -1e3, 0.37, -25.0]
    k = -1
    reps = ctx.pick(10, 20)
    for (m, n) in shapes:
        for rep in range(reps):
            k += 1
            if not ctx.mine(k):
                continue
            bits = 32 if (k // ctx.nshards) % 4 == 3 else 64
            wvl = wvls[int(rng.integers(len(wvls)))]
            dx = dxs[int(rng.integers(len(dxs)))]
            z1 = zs[int(rng.integers(len(zs)))] if rng.random() < 0.7 else float(np.round(rng.uniform(-50, 50), 3))
            z2 = zs[int(rng.integers(len(zs)))] if rng.random() < 0.5 else float(np.round(rng.uniform(-50, 50), 3))
            Qpad = [2, 3, 1.5][int(rng.integers(3))]
            seed = ctx.subseed(rng)
            dbits = bits if (k // ctx.nshards) % 6 else (96 - bits)          # mixed: data of the other precision
            warm = bits == 64 and dbits == 64 and (k // ctx.nshards) % 5 == 2      # float32 warm-up first, then judge float64 at full tolerance
            dk = DATA_KINDS[(k // ctx.nshards) % len(DATA_KINDS)]
            a = field_of_kind(dk, (m, n), seed, dbits)
            via = 'Wavefront' if (k // ctx.nshards) % 2 else 'function'
            desc = {'wl': 'free-space', 'in': (m, n), 'wvl': wvl, 'dx': dx, 'z1': z1, 'z2': z2, 'Qpad': Qpad, 'bits': bits, 'data_bits': dbits,
                    'via': via, 'f32_warmup': warm, 'seed': seed, 'field_dtype': str(a.dtype),
                    'class': f'as:{shape_kind((m, n))}:{parity(m)}{parity(n)}:p{bits}/d{dbits}:{via}{":after-f32-warmup" if warm else ""}'
                             + (f':{dk}' if dk != 'complex' else '')}
            ctx.case(desc, nontrivial=nontrivial(a))
            CUR['desc'] = desc
            single = bits == 32 or dbits == 32
            if warm:
                with precision(32), ctx.guard('C02/free-space', desc):
                    a32 = a.astype(np.complex64)
                    propagation.angular_spectrum_transfer_function((m, n), wvl, dx, z1)
                    propagation.angular_spectrum(a32, wvl, dx, z1, Q=1)
                    propagation.Wavefront(a32, wvl, dx).free_space(dz=z2, Q=Qpad)
            eps = float(np.finfo(np.float32 if single else np.float64).eps)
            try:
                with precision(bits), ctx.guard('C02/free-space', desc):
                    if via == 'function':
                        def P(f, z, Q=1, tf=None):
                            return propagation.angular_spectrum(f, wvl, dx, z, Q=Q, tf=tf)
                    else:
                        def P(f, z, Q=1, tf=None):
                            w = propagation.Wavefront(f, wvl, dx)
                            return w.free_space(dz=z, Q=Q, tf=tf).data
                    sk = shape_kind((m, n))
                    # identity at zero distance
                    field_close('as.identity', P(a, 0.0), a, f'C02/free-space/z=0-not-identity/{sk}',
                                'free-space propagation by z = 0 is not the identity', desc, single, rtol64=1e-10, rtol32=1e-3)
                    # undo
                    for z in (z1, z2):
                        field_close('as.undo', P(P(a, z), -z), a, f'C02/free-space/z-then-minus-z/{sk}',
                                    'propagating by z and then by -z does not return the field', desc, single, rtol64=1e-10, rtol32=1e-3)
                    # additivity
                    phi = tf_phase((m, n), wvl, dx, z1) + tf_phase((m, n), wvl, dx, z2) + tf_phase((m, n), wvl, dx, z1 + z2)
                    cond = COND_MULT * eps * phi
                    if cond > 1e-3:
                        ctx.skip(f'free space additivity: transfer-function phase {"f32" if single else "f64"} ill-conditioned ({COND_MULT} eps phi > 1e-3)')
                    else:
                        ref = P(a, z1 + z2)
                        field_close('as.compose', P(P(a, z1), z2), ref, f'C02/free-space/z1-then-z2!=z1+z2/{sk}',
                                    'propagating by z1 then z2 differs from propagating by z1+z2', desc, single, rtol64=1e-10, rtol32=1e-3,
                                    extra_rtol=cond)
                        t1 = propagation.angular_spectrum_transfer_function((m, n), wvl, dx, z1)
                        t2 = propagation.angular_spectrum_transfer_function((m, n), wvl, dx, z2)
                        t12 = propagation.angular_spectrum_transfer_function((m, n), wvl, dx, z1 + z2)
                        field_close('tf.group-law', t1 * t2, t12, f'C02/transfer_function/tf(z1)tf(z2)!=tf(z1+z2)/{sk}',
                                    'transfer functions do not multiply to the transfer function of the summed distance', desc, single,
                                    rtol64=1e-10, rtol32=1e-3, extra_rtol=cond)
                    # tf argument equals the direct call
                    tf = propagation.angular_spectrum_transfer_function((m, n) if k % 3 else ((m, n) if m != n else int(m)), wvl, dx, z1)
                    field_close('as.tf-argument', P(a, float('nan'), tf=tf), P(a, z1), f'C02/free-space/tf-argument!=direct/{sk}',
                                'angular_spectrum(tf=transfer_function(z)) differs from angular_spectrum(z)', desc, single,
                                rtol64=1e-12, rtol32=1e-5)
                    # energy under padding (contract as.energy decides)
                    P(a, z1, Q=Qpad)
                    P(a, z2, Q=2)
            finally:
                CUR['desc'] = None


# ---- class A: repeat / aliasing ----------------------------------------------------------------------
def _mutated(objs, snaps):
    return [k for k in objs if isinstance(snaps[k], (np.ndarray, list)) and not _same_value(objs[k], snaps[k])]


def same_objects(monitor, later, first, key, what, desc, objs, snaps, single):
    """A later call with the same argument objects must reproduce the first (deterministic routines: 10 eps)."""
    CTX.observe(monitor)
    later, first = np.asarray(later), np.asarray(first)
    ok = _same(later, first, 10) if later.dtype == first.dtype else field_ok(later, first, 1e-3 if single else 1e-12)
    if not ok:
        mut = _mutated(objs, snaps)
        lab = '+'.join(mut) if mut else 'no-argument(state-elsewhere)'
        CTX.violation(f'{key}/mutated:{lab}', what + f' (argument objects whose value changed: {mut or "none"})', desc,
                      max_abs_diff=(float(np.max(np.abs(later - first))) if later.shape == first.shape else None))
    return ok


def field_ok(got, ref, rtol):
    got, ref = np.asarray(got), np.asarray(ref)
    if got.shape != ref.shape or not np.isfinite(got).all():
        return False
    return (float(np.max(np.abs(got - ref))) if got.size else 0.0) <= rtol * (float(np.max(np.abs(ref))) if ref.size else 0.0)


def moderate_z(rng, shape, wvl, dx, eps):
    """A distance whose transfer-function phase keeps the additivity law well conditioned on this grid."""
    for _ in range(20):
        z = float(np.round(rng.uniform(-50, 50), 3)) or 1.0
        if COND_MULT * eps * 3 * tf_phase(shape, wvl, dx, z) <= 1e-4:
            return z
        z = z / 50
        if COND_MULT * eps * 3 * tf_phase(shape, wvl, dx, z) <= 1e-4:
            return z
    return 1e-6


def wl_tf_reuse(ctx, rng):
    """Class A on free space: a precomputed transfer function passed with tf= is *re-used* (that is what the keyword is for):
    the same tf array for a second and third propagation, through the function and the Wavefront.free_space form, two
    steps of z/2 with one tf object, tf(z) then tf(-z) and then both once more.  Every law is judged on the later use."""
    from prysm import propagation
    from ..util import precision
    shapes = shapes_upto(ctx.pick(5, 16)) + [(1, 10), (11, 1), (16, 16), (12, 20), (21, 8), (2, 64), (48, 3)]
    if not ctx.quick:
        shapes += [(int(a), int(b)) for a, b in np.random.default_rng([ctx.seed, 6]).integers(9, 129, (1800, 2))]
    wvls = [0.3, 0.55, 0.6328, 1.55, 12.0]
    dxs = [1e-3, 0.01, 0.1, 1.0]
    reps = ctx.pick(4, 12)
    k = -1
    for (m, n) in shapes:
        for rep in range(reps):
            k += 1
            if not ctx.mine(k):
                continue
            bits = 32 if (k // ctx.nshards) % 5 == 4 else 64
            dbits = bits if (k // ctx.nshards) % 7 else (96 - bits)
            single = bits == 32 or dbits == 32
            eps = float(np.finfo(np.float32 if single else np.float64).eps)
            wvl = wvls[int(rng.integers(len(wvls)))]
            dx = dxs[int(rng.integers(len(dxs)))]
            z = moderate_z(rng, (m, n), wvl, dx, eps)
            seed = ctx.subseed(rng)
            lay_a = LAYOUTS[int(rng.integers(len(LAYOUTS)))]
            lay_tf = ('C', 'C', 'F', 'strided', 'T-view')[int(rng.integers(5))]
            first_form = ('function', 'Wavefront')[int(rng.integers(2))]
            desc = {'wl': 'tf-reuse', 'in': (m, n), 'wvl': wvl, 'dx': dx, 'z': z, 'bits': bits, 'data_bits': dbits, 'field_layout': lay_a,
                    'tf_layout': lay_tf, 'first_form': first_form, 'seed': seed,
                    'class': f'tf-reuse:{shape_kind((m, n))}:{parity(m)}{parity(n)}:p{bits}/d{dbits}:{lay_a}/{lay_tf}:{first_form}-first'}
            a0 = make_input((m, n), True, seed, bits=dbits)
            ctx.case(desc, nontrivial=nontrivial(a0))
            CUR['desc'] = desc
            sk = shape_kind((m, n))
            try:
                with precision(bits), ctx.guard('C02/free-space/tf-reused', desc):
                    a = relayout(a0, lay_a)
                    tf = relayout(propagation.angular_spectrum_transfer_function((m, n), wvl, dx, z), lay_tf)
                    tfm = relayout(propagation.angular_spectrum_transfer_function((m, n), wvl, dx, -z), lay_tf)
                    th = relayout(propagation.angular_spectrum_transfer_function((m, n), wvl, dx, z / 2), lay_tf)
                    objs = {'field': a, 'tf': tf, 'tf(-z)': tfm, 'tf(z/2)': th}
                    snaps = {k_: _copyarg(v) for k_, v in objs.items()}

                    # results are copied at once: a routine may hand back memory it shares with an argument (and rewrite it later)
                    def F(f, t):
                        return np.array(propagation.angular_spectrum(f, wvl, dx, float('nan'), Q=1, tf=t), copy=True)

                    def W(f, t):
                        return np.array(propagation.Wavefront(f, wvl, dx).free_space(tf=t).data, copy=True)
                    A, B = (F, W) if first_form == 'function' else (W, F)
                    direct = propagation.angular_spectrum(np.array(a0, copy=True), wvl, dx, z, Q=1)
                    r1 = A(a, tf)
                    key = 'C02/free-space/tf-reused'
                    held = True
                    for name, r in (('second use, same form', A(a, tf)), ('third use, other form', B(a, tf)), ('fourth use', A(a, tf))):
                        if not same_objects('as.tf-reuse', r, r1, key + '/later-use-of-the-same-tf-array-differs',
                                            f'angular_spectrum / Wavefront.free_space with tf=: the {name} of the same transfer-function array '
                                            'returns something else than the first', desc, objs, snaps, single):
                            held = False
                            break
                    if not held:
                        continue                     # the laws below would only restate the same defect under other keys
                    # the later use must still be the propagation by z
                    rl = B(a, tf)
                    field_close('as.tf-argument', rl, direct, f'C02/free-space/tf-argument!=direct/{sk}',
                                'angular_spectrum(tf=transfer_function(z)) differs from angular_spectrum(z) [tf array used before]', desc, single,
                                rtol64=1e-12, rtol32=1e-5)
                    # undo with two re-used objects, twice
                    for rnd in (1, 2):
                        back = A(B(a, tf), tfm)
                        field_close('as.undo', back, snaps['field'], f'C02/free-space/z-then-minus-z/{sk}',
                                    f'tf(z) then tf(-z) does not return the field [round {rnd} with the same two tf arrays]', desc, single,
                                    rtol64=1e-10, rtol32=1e-3)
                    # two steps of z/2 with one tf object = one step of z
                    cond = COND_MULT * eps * 3 * tf_phase((m, n), wvl, dx, z)
                    two = B(A(a, th), th)
                    field_close('as.compose', two, direct, f'C02/free-space/z1-then-z2!=z1+z2/{sk}',
                                'two steps of z/2 with one transfer-function array differ from one step of z', desc, single,
                                rtol64=1e-10, rtol32=1e-3, extra_rtol=cond)
            finally:
                CUR['desc'] = None


def wl_repeat_fields(ctx, rng):
    """Class A on the data arrays and Q containers: the same field object (six memory layouts, also integer / boolean images)
    through focus / unfocus / angular_spectrum twice, the round-trip laws judged on the *later* use; the band-complete pair run
    twice with the same Q / sample-count objects (tuple, list, float64 ndarray, numpy scalars)."""
    from prysm import propagation, fttools
    from ..util import precision
    n_cases = ctx.share(ctx.pick(400, 90000))
    Qs = [1, 2, 3, 1.5, 2.5, 1.25, 8]
    for i in range(n_cases):
        if i % 512 == 511:
            fttools.mdft.clear()
            fttools.czt.clear()
        route = ('fft', 'fft', 'as', 'band')[int(rng.integers(4))]
        bits = 32 if rng.random() < 0.2 else 64
        dbits = bits if rng.random() < 0.8 else (96 - bits)
        single = bits == 32 or dbits == 32
        lay = LAYOUTS[int(rng.integers(len(LAYOUTS)))]
        m, n = (int(v) for v in rng.integers(1, ctx.pick(10, 33), 2))
        if rng.random() < 0.15:
            m, n = [(1, 64), (96, 2), (3, 128), (128, 1), (2, 2)][int(rng.integers(5))]
        seed = ctx.subseed(rng)
        if route == 'fft':
            Q = Qs[int(rng.integers(len(Qs)))]
            if m * n * Q * Q > 40000:
                Q = 2
            dk = ('complex', 'complex', 'real', 'int', 'bool')[int(rng.integers(5))]
            a0 = make_input((m, n), dk == 'complex', seed, bits=dbits)
            if dk == 'int':
                a0 = np.random.default_rng(seed).integers(-3, 4, (m, n))
            elif dk == 'bool':
                a0 = np.random.default_rng(seed).random((m, n)) < 0.6
            out = (math.ceil(m * Q), math.ceil(n * Q))
            fwd = bool(rng.integers(2))
            desc = {'wl': 'repeat', 'route': 'fft', 'in': (m, n), 'Q': Q, 'layout': lay, 'field_dtype': str(a0.dtype), 'fwd': fwd, 'bits': bits, 'seed': seed,
                    'class': f'repeat:fft:{"focus" if fwd else "unfocus"}:{shape_kind((m, n))}:{qclass(Q)}:{lay}:{dk}:p{bits}/d{dbits}'}
            ctx.case(desc, nontrivial=int(np.count_nonzero(a0)) >= 2)
            if not np.any(a0):
                continue
            CUR['desc'] = desc
            try:
                with precision(bits), ctx.guard('C02/fft-pair', desc):
                    a = relayout(a0, lay)
                    objs = {'field': a}
                    snaps = {'field': np.array(a0, copy=True)}
                    f1, f2 = (propagation.focus, propagation.unfocus) if fwd else (propagation.unfocus, propagation.focus)
                    o1 = np.array(f1(a, Q), copy=True)      # copied at once: the result may share memory with an argument
                    o2 = f1(a, Q)
                    name = 'focus' if fwd else 'unfocus'
                    same_objects('repeat.same-objects', o2, o1, f'C02/repeat/{name}/second-call-with-the-same-array-differs',
                                 f'propagation.{name} called twice with the same array object returns two different results', desc, objs, snaps,
                                 single)
                    ref = origin_pad(a0.astype(np.complex128 if a0.dtype.kind != 'c' else a0.dtype), out)
                    back = f2(f1(a, Q), 1)
                    cls = f'{qclass(Q)}/pad:{axes_class((m, n), out)}'
                    field_close('fft.roundtrip', back, ref, f'C02/fft-roundtrip/{"unfocus(focus)" if fwd else "focus(unfocus)"}/{cls}',
                                'the round trip through the padded FFT pair is not the origin-aligned zero padding of the field [third use of the same array object]',
                                desc, single and a0.dtype.kind in 'fc')
            finally:
                CUR['desc'] = None
        elif route == 'as':
            eps = float(np.finfo(np.float32 if single else np.float64).eps)
            wvl = [0.3, 0.55, 1.55, 12.0][int(rng.integers(4))]
            dx = [1e-3, 0.01, 0.1, 1.0][int(rng.integers(4))]
            z = moderate_z(rng, (m, n), wvl, dx, eps)
            a0 = make_input((m, n), True, seed, bits=dbits)
            via = ('function', 'Wavefront')[int(rng.integers(2))]
            desc = {'wl': 'repeat', 'route': 'as', 'in': (m, n), 'wvl': wvl, 'dx': dx, 'z': z, 'layout': lay, 'via': via, 'bits': bits, 'data_bits': dbits,
                    'seed': seed, 'class': f'repeat:as:{shape_kind((m, n))}:{lay}:{via}:p{bits}/d{dbits}'}
            ctx.case(desc, nontrivial=nontrivial(a0))
            CUR['desc'] = desc
            try:
                with precision(bits), ctx.guard('C02/free-space', desc):
                    a = relayout(a0, lay)
                    objs = {'field': a}
                    snaps = {'field': np.array(a0, copy=True)}
                    if via == 'function':
                        def P(f, zz, Q=1):
                            return np.array(propagation.angular_spectrum(f, wvl, dx, zz, Q=Q), copy=True)
                    else:
                        def P(f, zz, Q=1):
                            return np.array(propagation.Wavefront(f, wvl, dx).free_space(dz=zz, Q=Q).data, copy=True)
                    o1 = P(a, z)
                    P(a, z, Q=2)                      # padded use of the same object in between (energy contract)
                    o2 = P(a, z)
                    same_objects('repeat.same-objects', o2, o1, 'C02/repeat/angular_spectrum/second-call-with-the-same-array-differs',
                                 'angular_spectrum called twice with the same field object returns two different results', desc, objs, snaps, single)
                    sk = shape_kind((m, n))
                    field_close('as.undo', P(P(a, z), -z), snaps['field'], f'C02/free-space/z-then-minus-z/{sk}',
                                'propagating by z and then by -z does not return the field [fourth use of the same array object]', desc, single,
                                rtol64=1e-10, rtol32=1e-3)
                    field_close('as.identity', P(a, 0.0), snaps['field'], f'C02/free-space/z=0-not-identity/{sk}',
                                'free-space propagation by z = 0 is not the identity [fifth use of the same array object]', desc, single,
                                rtol64=1e-10, rtol32=1e-3)
            finally:
                CUR['desc'] = None
        else:
            m, n = min(m, ctx.pick(12, 24)), min(n, ctx.pick(12, 24))
            d0, d1 = (int(v) for v in rng.integers(0, ctx.pick(8, 20), 2))
            out = (m + d0, n + d1)
            engine = ('mdft', 'czt')[int(rng.integers(2))]
            order = ('fwd-inv', 'inv-fwd')[int(rng.integers(2))]
            qkind = ('tuple', 'list', 'nd-f64', 'np-scalars')[int(rng.integers(4))]
            okind = ('tuple', 'np-ints')[int(rng.integers(2))]
            a0 = make_input((m, n), True, seed, bits=dbits)
            desc = {'wl': 'repeat', 'route': 'band', 'engine': engine, 'order': order, 'n': (m, n), 'out': out, 'layout': lay, 'Q_container': qkind,
                    'out_container': okind, 'bits': bits, 'data_bits': dbits, 'seed': seed, 'k': 0,
                    'class': f'repeat:band:{engine}:{order}:{shape_kind((m, n))}:Q={qkind}:out={okind}:{lay}:p{bits}/d{dbits}'}
            ctx.case(desc, nontrivial=nontrivial(a0))
            CUR['desc'] = desc
            try:
                with precision(bits), ctx.guard(f'C02/{engine}/band-complete', desc):
                    a = relayout(a0, lay)
                    Qc = make_container(qkind, (out[0] / m, out[1] / n))
                    oc = (np.int64(out[0]), np.int32(out[1])) if okind == 'np-ints' else out
                    for rnd in (1, 2):                 # the second round re-uses every object; both rounds are judged
                        band_complete(ctx, engine, a, (m, n), out, order, desc, single, Qarg=Qc, outarg=oc, a_ref=a0)
            finally:
                CUR['desc'] = None
    fttools.mdft.clear()
    fttools.czt.clear()


# ---- class E: the band-complete pair through the fixed-sampling wrappers; argument forms ----------------------
def wl_band_wrappers(ctx, rng):
    """The band-complete pair made through focus_fixed_sampling / unfocus_fixed_sampling (function and Wavefront form, both
    methods, both orders): a field of shape n at spacing d1 goes onto exactly one period P x P of the other plane (spacing
    d2 = lambda f / (P d1), P >= max n, so Q = P / n per axis) and back.  Fields are complex, real-dtype, integer and boolean
    arrays; sample counts as int / tuple / numpy integers; shift and method omitted or spelled out."""
    from prysm import propagation as P, fttools
    from ..util import precision
    n_cases = ctx.share(ctx.pick(800, 320000))
    for i in range(n_cases):
        if i % 512 == 511:
            fttools.mdft.clear()
            fttools.czt.clear()
        hi = ctx.pick(10, 25)
        m, n = (int(v) for v in rng.integers(1, hi, 2))
        if rng.random() < 0.4:
            n = m
        Pb = max(m, n) + int(rng.integers(0, ctx.pick(8, 20)))
        if Pb == 1:
            Pb = 2
        method = ('mdft', 'czt')[int(rng.integers(2))]
        order = ('focus-first', 'unfocus-first')[int(rng.integers(2))]
        via = ('function', 'Wavefront')[int(rng.integers(2))]
        bits = 32 if rng.random() < 0.15 else 64
        dk = ('complex', 'real', 'int', 'bool')[int(rng.integers(4))]
        wvl = [0.5, 0.6328, 1.55][int(rng.integers(3))]
        efl = [50., 100., 250.][int(rng.integers(3))]
        d1 = [0.1, 0.05, 1.0, 7.5][int(rng.integers(4))]
        d2 = wvl * efl / (Pb * d1)
        seed = ctx.subseed(rng)
        a = field_of_kind(dk, (m, n), seed, bits)
        spell = int(rng.integers(4))      # how the optional arguments and the square sample count are spelled
        desc = {'wl': 'band-wrappers', 'engine': method, 'order': order, 'n': (m, n), 'out': (Pb, Pb), 'via': via, 'bits': bits, 'field_dtype': str(a.dtype),
                'wvl': wvl, 'efl': efl, 'd1': d1, 'd2': d2, 'spelling': spell, 'seed': seed, 'k': 0,
                'class': f'band-wrappers:{method}:{order}:{via}:{shape_kind((m, n))}:{parity(m)}{parity(n)}->{parity(Pb)}:{dk}:p{bits}:spell{spell}'}
        ctx.case(desc, nontrivial=int(np.count_nonzero(a)) >= 2)
        if not np.any(a):
            continue
        CUR['desc'] = desc
        samples = [Pb, (Pb, Pb), np.int64(Pb), [Pb, Pb]][spell]
        kw1 = [{'method': method}, {'shift': (0, 0), 'method': method}, {'method': method, 'shift': (0.0, 0.0)}, {'method': method}][spell]
        if method == 'mdft' and spell == 3:
            kw1 = {}                                        # method omitted: the documented default is 'mdft'
        kw2 = dict(kw1) if spell % 2 else ({'method': method} if method != 'mdft' else {})
        try:
            with precision(bits), ctx.guard(f'C02/{method}/band-complete', desc):
                f1, f2 = ('focus_fixed_sampling', 'unfocus_fixed_sampling') if order == 'focus-first' else ('unfocus_fixed_sampling', 'focus_fixed_sampling')
                if via == 'function':
                    F = np.array(getattr(P, f1)(a, d1, efl, wvl, d2, samples, **kw1), copy=True)
                    back = getattr(P, f2)(F, d2, efl, wvl, d1, (m, n), **kw2)
                else:
                    w = P.Wavefront(a, wvl, d1, space='pupil' if order == 'focus-first' else 'psf')
                    smp = samples if not isinstance(samples, list) else tuple(samples)
                    Fw = getattr(w, f1)(efl, d2, smp, **kw1)
                    F = np.array(Fw.data, copy=True)
                    back = getattr(Fw, f2)(efl, d1, (m, n), **kw2).data
                judge_band(method, a, (m, n), (Pb, Pb), 'fwd-inv' if order == 'focus-first' else 'inv-fwd', desc, bits == 32, F, back,
                           via='/fixed-sampling-pair')
        finally:
            CUR['desc'] = None
    fttools.mdft.clear()
    fttools.czt.clear()


FORM_ROUTINES = ('focus', 'unfocus', 'angular_spectrum', 'angular_spectrum(tf)', 'angular_spectrum_transfer_function',
                 'dft2->idft2', 'idft2->dft2', 'czt2->iczt2', 'iczt2->czt2', 'focus_fixed_sampling->unfocus_fixed_sampling',
                 'unfocus_fixed_sampling->focus_fixed_sampling')


def wl_forms(ctx, rng):
    """Class E (vp/propforms.py): focus / unfocus / angular_spectrum (with and without tf=) / the transfer function, and the
    band-complete pairs as composed routines (executor level and through the fixed-sampling wrappers), each in its canonical
    form and then in every other accepted form of the same numbers.  The canonical result is judged by the property's laws
    (round trip; the contracts judge energy on every call); every form must reproduce it."""
    from .. import propforms as PF
    from prysm import propagation as P, fttools
    from ..util import precision
    reps = ctx.pick(4, 900)
    k = -1
    for rep in range(reps):
        for routine in FORM_ROUTINES:
            for kind in PF.FIELD_KINDS:
                k += 1
                if not ctx.mine(k):
                    continue
                if routine == 'angular_spectrum_transfer_function' and kind != 'complex':
                    continue
                bits = 32 if (k // ctx.nshards) % 5 == 4 else 64
                single = bits == 32
                base = routine.split('->')[0].split('(')[0]
                vals = PF.draw_values(base, rng, kind)
                desc = {'wl': 'forms', 'routine': routine, 'field_kind': kind, 'precision': bits, 'k': k,
                        'class': f'forms:{routine}:{kind}:p{bits}'}
                fn = None
                farg = {'dft2': 'ary', 'idft2': 'ary', 'czt2': 'ary', 'iczt2': 'ary', 'angular_spectrum': 'field'}.get(base, 'wavefunction')
                a = vals.get(farg)
                if '->' in routine:
                    shp = a.shape
                    if base in PF.ENGINES:
                        out = (shp[0] + int(rng.integers(0, 6)), shp[1] + int(rng.integers(0, 6)))
                        vals.update(Q=(out[0] / shp[0], out[1] / shp[1]), samples_out=out, shift=(0.0, 0.0))
                        ex = fttools.mdft if base in ('dft2', 'idft2') else fttools.czt
                        second = routine.split('->')[1]

                        def fn(ary, Q, samples_out, shift=(0, 0), ex=ex, first=base, second=second):
                            return getattr(ex, second)(getattr(ex, first)(ary, Q, samples_out, shift), 1, ary.shape)
                    else:
                        Pb = max(shp) + int(rng.integers(0, 6))
                        d1 = vals['input_dx']
                        vals.update(output_dx=vals['wavelength'] * vals['prop_dist'] / (Pb * d1), output_samples=(Pb, Pb), shift=(0.0, 0.0))
                        second = routine.split('->')[1]

                        def fn(wavefunction, input_dx, prop_dist, wavelength, output_dx, output_samples, shift=(0, 0), method='mdft', first=base, second=second):
                            F = getattr(P, first)(wavefunction, input_dx, prop_dist, wavelength, output_dx, output_samples, shift, method)
                            return getattr(P, second)(F, output_dx, prop_dist, wavelength, input_dx, wavefunction.shape, method=method)
                elif routine == 'angular_spectrum(tf)':
                    with precision(bits):
                        vals['tf'] = np.array(P.angular_spectrum_transfer_function(a.shape, vals['wvl'], vals['dx'], vals['z']), copy=True)
                    vals['Q'] = 1
                desc['values'] = {a_: v for a_, v in vals.items() if not isinstance(v, np.ndarray)}
                ctx.case(desc, nontrivial=(a is None or nontrivial(a)))
                CUR['desc'] = desc
                try:
                    with precision(bits):
                        ref = PF.judge_forms(ctx, 'C02', base, vals, desc, single=single, field_kinds={farg: kind}, fn=fn, label=routine,
                                             wavefront=(fn is None),
                                             scale_floor=(float(np.sqrt(np.sum(np.abs(a) ** 2))) if fn is not None else None))
                        if ref is not None and '->' in routine:
                            eng = 'mdft' if ('dft2' in base or vals.get('method') == 'mdft') else 'czt'
                            field_close(f'{eng}.band-complete', ref, a, f'C02/{eng}/band-complete/roundtrip/{shape_kind(a.shape)}->forms',
                                        f'{routine} on the band-complete grid does not return the field (canonical argument form)', desc, single,
                                        rtol64=1e-9, rtol32=3e-2)
                        elif ref is not None and routine == 'angular_spectrum(tf)':
                            direct = P.angular_spectrum(a.astype(complex), vals['wvl'], vals['dx'], vals['z'], Q=1)
                            field_close('as.tf-argument', ref, direct, f'C02/free-space/tf-argument!=direct/{shape_kind(a.shape)}',
                                        'angular_spectrum(tf=transfer_function(z)) differs from angular_spectrum(z)', desc, single, rtol64=1e-12, rtol32=1e-5)
                finally:
                    CUR['desc'] = None
        if rep % 8 == 7:
            fttools.mdft.clear()
            fttools.czt.clear()
    fttools.mdft.clear()
    fttools.czt.clear()


# ---- class F: cross-module histories ----------------------------------------------------------------------
def wl_foreign(ctx, rng):
    """Class F: the other public consumers of fftrange / forward_ft_unit / fftfreq / make_xy_grid / pad2d / crop_center, the
    transfer-function routine and the shared executors run first at the case's axis lengths, spacings, wavelength and
    distances (non-zero shifts, ndarray containers, precision 32, every returned array edited in place); then the laws of the
    property are judged at those lengths with nothing cleared in between."""
    from .. import propforms as PF
    from prysm import propagation as P, fttools
    for rep in range(ctx.share(ctx.pick(16, 9600))):
        hi = ctx.pick(10, 24)
        lengths = sorted(set(int(v) for v in rng.integers(2, hi + 1, 3)))
        dx = [0.1, 0.05, 1.0][int(rng.integers(3))]
        desc0 = {'wl': 'foreign', 'lengths': lengths, 'dx': dx, 'rep': rep, 'class': 'foreign-traffic-then-laws', 'k': 0}
        ctx.case(desc0)
        CUR['desc'] = dict(desc0, phase='foreign-traffic')
        try:
            PF.foreign_traffic(ctx, rng, lengths, dxs=(dx, 1.0), heavy=(rep % 3 == 0), prefix='C02', desc=CUR['desc'])
            for j in range(ctx.pick(4, 6)):
                m, n = (lengths[int(v)] for v in rng.integers(len(lengths), size=2))
                M, N = (lengths[int(v)] for v in rng.integers(len(lengths), size=2))
                out = (max(m, M), max(n, N))
                seed = ctx.subseed(rng)
                dk = DATA_KINDS[j % len(DATA_KINDS)]
                a = field_of_kind(dk, (m, n), seed)
                desc = dict(desc0, phase='judged', n=(m, n), out=out, seed=seed, field_dtype=str(a.dtype))
                CUR['desc'] = desc
                if not nontrivial(a):
                    continue
                # the adjoint routines (another property's consumers of the same cached bases) at exactly the keys of the pair below
                try:
                    Qb = (out[0] / m, out[1] / n)
                    gb = make_input(out, True, seed + 5)
                    fttools.mdft.dft2_backprop(gb, Qb, (m, n))
                    fttools.mdft.idft2_backprop(gb, Qb, (m, n))
                    fttools.mdft.dft2_backprop(make_input((m, n), True, seed + 6), 1, out)
                    fttools.mdft.idft2_backprop(make_input((m, n), True, seed + 6), 1, out)
                except Exception as e:  # noqa -- foreign routine
                    ctx.event(f'foreign-traffic-raised:{type(e).__name__}')
                for engine in ('mdft', 'czt'):
                    with ctx.guard(f'C02/{engine}/band-complete', desc):
                        band_complete(ctx, engine, a, (m, n), out, ('fwd-inv', 'inv-fwd')[j % 2], desc, False)
                with ctx.guard('C02/fft-pair', desc):
                    Q = [1, 2, 1.5, 3][j % 4]
                    po = (math.ceil(m * Q), math.ceil(n * Q))
                    ref = origin_pad(a.astype(np.complex128), po)
                    cls = f'{qclass(Q)}/pad:{axes_class((m, n), po)}'
                    field_close('fft.roundtrip', P.unfocus(P.focus(a, Q), 1), ref, f'C02/fft-roundtrip/unfocus(focus)/{cls}',
                                'unfocus(focus(a,Q),1) is not the origin-aligned zero padding of a [after foreign traffic]', desc, False)
                    field_close('fft.roundtrip', P.Wavefront(a, 0.5, 2.0, space='psf').unfocus(100., Q=Q).focus(100., Q=1).data, ref,
                                f'C02/fft-roundtrip/focus(unfocus)/{cls}',
                                'focus(unfocus(a,Q),1) is not the origin-aligned zero padding of a [after foreign traffic]', desc, False)
                with ctx.guard('C02/free-space', desc):
                    sk = shape_kind((m, n))
                    wvl, z = 0.5, 3.0            # the arguments the foreign traffic used
                    d = (dx, 1.0)[j % 2]
                    fwd = P.angular_spectrum(a, wvl, d, z, Q=1)
                    field_close('as.undo', P.Wavefront(fwd, wvl, d).free_space(dz=-z).data, a, f'C02/free-space/z-then-minus-z/{sk}',
                                'propagating by z and then by -z does not return the field [after foreign traffic]', desc, False, rtol64=1e-10)
                    field_close('as.identity', P.angular_spectrum(a, wvl, d, 0.0, Q=1), a, f'C02/free-space/z=0-not-identity/{sk}',
                                'free-space propagation by z = 0 is not the identity [after foreign traffic]', desc, False, rtol64=1e-10)
                    tf = P.angular_spectrum_transfer_function((m, n), wvl, d, z)
                    tfm = P.angular_spectrum_transfer_function((m, n), wvl, d, -z)
                    field_close('tf.group-law', tf * tfm, np.ones((m, n)), f'C02/transfer_function/tf(z1)tf(z2)!=tf(z1+z2)/{sk}',
                                'tf(z) tf(-z) != 1 [after foreign traffic]', desc, False, rtol64=1e-10)
                    field_close('as.tf-argument', P.angular_spectrum(a, wvl, d, float('nan'), tf=tf), fwd, f'C02/free-space/tf-argument!=direct/{sk}',
                                'angular_spectrum(tf=transfer_function(z)) differs from angular_spectrum(z) [after foreign traffic]', desc, False,
                                rtol64=1e-12)
                    P.angular_spectrum(a, wvl, d, z)            # default Q = 2: energy contract
        finally:
            CUR['desc'] = None
    fttools.mdft.clear()
    fttools.czt.clear()


# ---- class B / C: histories on the shared executors, 32 -> 64 switch --------------------------------------
def wl_band_history(ctx, rng):
    """The band-complete pair after other traffic at the *same array sizes* on the shared executors: shifted transforms with
    another Q (engine calls and focus_/unfocus_fixed_sampling), a float32 warm-up of the very same pair, cache clears.
    The later pair is judged by the isometry / left-inverse laws at the full float64 tolerance."""
    from prysm import fttools, propagation
    from prysm.conf import config
    n_cases = ctx.share(ctx.pick(300, 75000))
    for _ in range(n_cases):
        m, n = (int(v) for v in rng.integers(2, ctx.pick(9, 24), 2))
        if rng.random() < 0.4:
            n = m
        d0, d1 = (int(v) for v in rng.integers(0, ctx.pick(8, 20), 2))
        if m == n and rng.random() < 0.5:
            d1 = d0
        out = (m + d0, n + d1)
        engine = ('mdft', 'czt')[int(rng.integers(2))]
        order = ('fwd-inv', 'inv-fwd')[int(rng.integers(2))]
        L = int(rng.integers(1, ctx.pick(4, 9)))
        ops = []
        for _j in range(L):
            ops.append((('shifted-engine', 'shifted-wrapper', 'p32-warmup', 'inverse-shifted', 'clear-other')[int(rng.integers(5))],
                        ('mdft', 'czt')[int(rng.integers(2))], round(float(rng.uniform(0.7, 3.5)), 3),
                        (float(int(rng.integers(-3, 4)) or 1), round(float(rng.uniform(-2, 2)), 2))))
        seed = ctx.subseed(rng)
        desc = {'wl': 'band-history', 'engine': engine, 'order': order, 'n': (m, n), 'out': out, 'ops': [list(o) for o in ops], 'seed': seed, 'k': 0,
                'class': f'band-history:{engine}:{order}:{shape_kind((m, n))}:{"+".join(sorted(set(o[0] for o in ops)))}'}
        a = make_input((m, n), True, seed)
        ctx.case(desc, nontrivial=nontrivial(a))
        fttools.mdft.clear()
        fttools.czt.clear()
        config.precision = 64
        CUR['desc'] = desc
        try:
            with ctx.guard(f'C02/{engine}/band-complete', desc):
                for j, (op, eng, Qo, sh) in enumerate(ops):
                    ctx.observe('history.ops')
                    ex = fttools.mdft if eng == 'mdft' else fttools.czt
                    b = make_input((m, n), True, seed + 1 + j)
                    B = make_input(out, True, seed + 20 + j)
                    if op == 'shifted-engine':
                        (ex.dft2 if eng == 'mdft' else ex.czt2)(b, Qo, out, sh)
                    elif op == 'inverse-shifted':
                        (ex.idft2 if eng == 'mdft' else ex.iczt2)(B, Qo, (m, n), sh)
                    elif op == 'shifted-wrapper':
                        wvl, efl, dxi = 0.55, 100., 0.1
                        dxo = wvl * efl / (m * dxi) / Qo
                        propagation.focus_fixed_sampling(b, dxi, efl, wvl, dxo, out, shift=(sh[0] * dxo, sh[1] * dxo), method=eng)
                        propagation.unfocus_fixed_sampling(B, dxo, efl, wvl, dxi, (m, n), shift=(sh[0] * dxi, 0.0), method=eng)
                    elif op == 'p32-warmup':
                        config.precision = 32
                        try:
                            band_complete(ctx, engine, make_input((m, n), True, seed, bits=32), (m, n), out, order, desc, True)
                        finally:
                            config.precision = 64
                    else:
                        (fttools.czt if engine == 'mdft' else fttools.mdft).clear()
                band_complete(ctx, engine, a, (m, n), out, order, desc, False)
        finally:
            CUR['desc'] = None
            config.precision = 64
    fttools.mdft.clear()
    fttools.czt.clear()


# ---- hardening pass 3: classes G (magnitudes, units), H (special values, one-axis shifts), I (sizes) ------------------------
RULE = RULE + ('.  Hardening pass 3 -- class H: the band-complete pair WITH a shift (x only, y only, both; int and fractional samples; the zero '
               'component as int 0 and float 0.0) at executor level (mdft: isometry and round trip with the same sample shift on the way back, both '
               'orders; czt: isometry) and through the fixed-sampling pair / to_fpm_and_back with an all-pass mask (function and Wavefront form, both '
               'orders, spacings != 1 in both planes, shift in output units on each leg); free space at z = 0 (float, -0.0, int, numpy scalar), '
               '+-5e-324, +-1e-300, +-1e-30; Q exactly 1 through every route.  Class G: every linear routine at field magnitudes 1e-12 ... 1e12 '
               '(homogeneity f(s a) = s f(a) and the ordinary laws on the scaled field); free space and the fixed-sampling pair under consistent '
               'changes of units (dx, wavelength, z; dx, efl, wavelength, output dx and shift).  Class I: band-complete pairs on thin arrays whose '
               'long axis has 340 ... 1024 samples and Q = M / n within 1e-3 of an integer without being one (also through the wrappers), FFT pair '
               'and free space at prime / awkward lengths 65 ... 1024 (thin and 2-D)')
ASSUMPTIONS = ASSUMPTIONS + [
    'shifted band-complete pair: mdft subtracts the shift from the coordinate vectors of both planes, so idft2(dft2(a, Q, out, s), 1, n, s) = a and '
    'both legs are isometries for any real s (measured 1e-15); czt shifts the output coordinates only: isometry is required, the round trip is not '
    '(C05 ledger entry to_fpm_and_back/czt/shift!=0) -- excluded and counted',
    'homogeneity is compared at 1e-11 (float32: 1e-3) of max|s f(a)| (observed <= 4 eps); unit invariance at 1e-10 + 500 eps * transfer-function phase '
    '(free space) / the band-pair tolerance (wrappers); powers of two must not be bit-exact -- only close',
    'free space by |z| <= 1e-30 mm is the identity to 1e-10 (the true phase is < 1e-25 rad)',
]
REQUIRED = REQUIRED + ['special.shifted-band-pair', 'special.free-space-z', 'scale.homogeneity', 'scale.unit-invariance', 'size.near-integer-Q',
                       'size.awkward']
HOMOG64, HOMOG32 = 1e-11, 1e-3


def shift_label(s):
    return 'none' if (s[0] == 0 and s[1] == 0) else ('x-only' if s[1] == 0 else ('y-only' if s[0] == 0 else 'both'))


def shift_mech(s):
    """Mechanism class of a shift for violation keys: exactly one zero component / both non-zero."""
    lab = shift_label(s)
    return 'one-axis' if lab in ('x-only', 'y-only') else lab


def judge_shifted(engine, a, n, out, s, desc, single, F, back, level='executors', cls=None):
    """One band-complete trip WITH a shift of s = (sx, sy) output samples on both legs: isometry (both engines), left inverse (mdft).
    Keys name the shift class and the level (executors / wrappers) only; `cls` replaces both (size workloads).  Returns True when held."""
    mon = 'special.shifted-band-pair'
    CTX.observe(mon)
    Q = (out[0] / n[0], out[1] / n[1])
    sf = (float(s[0]), float(s[1]))
    r1 = rtol_for(engine, single, n, Q, out, sf)
    r2 = rtol_for(engine, single, out, (1.0, 1.0), n, sf)
    if r1 is None or r2 is None:
        CTX.observe(mon, -1)
        CTX.skip('band-complete: kernel phase beyond the resolution of the working precision (ill-conditioned)')
        return None
    rel = max(r1, r2)
    e_in, e_F = energy(a), energy(F)
    F = np.asarray(F)
    etol = max(ETOL32 if single else ETOL64, 2 * rel if single else 0.0) * e_in
    cls = f'special:shift-{shift_mech(s)}/{level}' if cls is None else cls
    detail = {'energy_ratio': e_F / e_in if e_in else None}
    ok = True
    if F.shape != tuple(out) or not abs(e_F - e_in) <= etol:
        ok = False
        CTX.violation(f'C02/{engine}/band-complete/energy/{cls}',
                      f'{engine} transform onto the full band (out = n*Q) with a shift of the output grid is not an isometry', desc, **detail)
    else:
        stat(f'{mon}.energy/{"f32" if single else "f64"}', abs(e_F - e_in), etol)
    if engine != 'mdft':
        CTX.skip('shifted band-complete pair through czt: isometry only (czt shifts the output coordinates alone; the round trip is the C05 ledger entry)')
        return ok
    back = np.asarray(back)
    scale = float(np.sqrt(np.sum(np.abs(np.asarray(a).astype(np.complex128)) ** 2)))
    rtol = rel * scale
    err = float(np.max(np.abs(back - a))) if (back.shape == np.shape(a) and np.isfinite(back).all()) else float('inf')
    if not err <= rtol:
        CTX.violation(f'C02/{engine}/band-complete/roundtrip/{cls}',
                      f'{engine} transform onto the full band with a shift, followed by its inverse with the same shift in samples, does not return the field',
                      desc, roundtrip_err=err, tol=rtol, **detail)
        return False
    stat(f'{mon}.roundtrip/{"f32" if single else "f64"}', err, rtol)
    return ok


def _engine_fns(engine):
    from prysm import fttools
    ex = fttools.mdft if engine == 'mdft' else fttools.czt
    return (ex.dft2, ex.idft2) if engine == 'mdft' else (ex.czt2, ex.iczt2)


def _typed_shift(s, unit):
    """(sx, sy) samples -> output units, keeping an int 0 an int 0 (the library tests the components for truth / != 0)."""
    return tuple((v * unit if v != 0 else v) for v in s)


def wl_shifted_band(ctx, rng):
    """Class H at executor level: the band-complete pair with every shift pattern (one zero component, both, int / fractional)."""
    from prysm import fttools
    from .. import propforms as PF
    from ..util import precision
    shapes = shapes_upto(ctx.pick(5, 12)) + [(1, 12), (13, 1), (7, 16), (16, 5)] + ctx.pick([], [(1, 64), (96, 2), (33, 47), (64, 64)])
    grows = [(0, 0), (1, 0), (0, 3), (2, 2), (5, 4)] + ctx.pick([], [(7, 1), (3, 9), (12, 12), (1, 1), (0, 21), (30, 2)])
    pats = [p for p in PF.SHIFT_PATTERNS if p[0] != 'none']
    k = -1
    for (n0, n1) in shapes:
        for (d0, d1) in grows:
            for engine in ('mdft', 'czt'):
                for order in ('fwd-inv', 'inv-fwd'):
                    for pname, s in pats:
                        k += 1
                        if not ctx.mine(k):
                            continue
                        if (k // ctx.nshards) % 256 == 255:
                            fttools.mdft.clear()
                            fttools.czt.clear()
                        if not ctx.quick and (k // ctx.nshards) % 3 == 2:      # thorough: random shifts of the same pattern
                            s = tuple((round(float(rng.uniform(-6, 6)), 3) or 1.0) if v != 0 else v for v in s)
                        n, out = (n0, n1), (n0 + d0, n1 + d1)
                        bits = 32 if (k // ctx.nshards) % 7 == 6 else 64
                        seed = ctx.subseed(rng)
                        dk = DATA_KINDS[(k // ctx.nshards) % len(DATA_KINDS)]
                        a = field_of_kind(dk, n, seed, bits)
                        desc = {'wl': 'shifted-band', 'engine': engine, 'order': order, 'n': n, 'out': out, 'shift_samples': s, 'bits': bits, 'seed': seed,
                                'field_dtype': str(a.dtype), 'class': f'shifted-band:{engine}:{order}:{shape_kind(n)}:{axes_class(n, out)}:{pname}:f{bits}'
                                + (f':{dk}' if dk != 'complex' else '')}
                        ctx.case(desc, nontrivial=nontrivial(a))
                        if not nontrivial(a):
                            continue
                        CUR['desc'] = desc
                        try:
                            with precision(bits), ctx.guard(f'C02/{engine}/band-complete/special:shift-{pname}', desc):
                                f_fwd, f_inv = _engine_fns(engine)
                                first, second = (f_fwd, f_inv) if order == 'fwd-inv' else (f_inv, f_fwd)
                                Q = (out[0] / n[0], out[1] / n[1])
                                F = first(a, Q, out, s)
                                back = second(F, 1, n, s)
                                judge_shifted(engine, a, n, out, s, desc, bits == 32, F, back)
                        finally:
                            CUR['desc'] = None
    fttools.mdft.clear()
    fttools.czt.clear()


def _band_geometry(rng, m, n, Pb):
    wvl = [0.5, 0.6328, 1.55][int(rng.integers(3))]
    efl = [50., 100., 250.][int(rng.integers(3))]
    d1 = [0.1, 0.05, 7.5, 0.37][int(rng.integers(4))]
    d2 = wvl * efl / (Pb * d1)
    if abs(d2 - 1.0) < 1e-3:
        efl *= 1.37
        d2 = wvl * efl / (Pb * d1)
    return wvl, efl, d1, d2


def wrapper_trip(P, via, order, a, shp, Pb, wvl, efl, d1, d2, s, method):
    """The field a (shape shp, spacing d1) onto one period Pb x Pb of the other plane (spacing d2) with a shift of s samples of the
    output grid, and back with the same shift in samples (in the units of the return leg's output).  Returns (F, back)."""
    s1, s2 = _typed_shift(s, d2), _typed_shift(s, d1)
    f1, f2 = ('focus_fixed_sampling', 'unfocus_fixed_sampling') if order == 'focus-first' else ('unfocus_fixed_sampling', 'focus_fixed_sampling')
    kw1 = {'method': method} if shift_label(s) == 'none' and method != 'mdft' else {'shift': s1, 'method': method}
    if via == 'function':
        F = np.array(getattr(P, f1)(a, d1, efl, wvl, d2, (Pb, Pb), **kw1), copy=True)
        back = getattr(P, f2)(F, d2, efl, wvl, d1, shp, shift=s2, method=method)
    elif via == 'Wavefront':
        w = P.Wavefront(a, wvl, d1, space='pupil' if order == 'focus-first' else 'psf')
        Fw = getattr(w, f1)(efl, d2, (Pb, Pb), **kw1)
        F = np.array(Fw.data, copy=True)
        back = getattr(Fw, f2)(efl, d1, shp, shift=s2, method=method).data
    elif via == 'to_fpm_and_back':
        back, F, _ = P.to_fpm_and_back(a, d1, efl, wvl, np.ones((Pb, Pb)), d2, shift=s1, method=method, return_more=True)
    else:
        r = P.Wavefront(a, wvl, d1).to_fpm_and_back(efl, np.ones((Pb, Pb)), d2, method=method, shift=s1, return_more=True)
        back, F = r[0].data, r[1].data
    return np.asarray(F), np.asarray(back)


WRAPPER_VIAS = ('function', 'Wavefront', 'to_fpm_and_back', 'Wavefront.to_fpm_and_back')


def wl_shifted_wrappers(ctx, rng):
    """Class H through the wrappers: the band-complete pair with a shift in OUTPUT UNITS on each leg (spacings != 1 in both
    planes): hand-made focus -> unfocus pair (both orders, function and Wavefront form) and to_fpm_and_back with an all-pass mask."""
    from prysm import propagation as P, fttools
    from .. import propforms as PF
    from ..util import precision
    k = -1
    for rep in range(ctx.pick(6, 1500)):
        for via in WRAPPER_VIAS:
            for method in ('mdft', 'czt'):
                for pname, s in PF.SHIFT_PATTERNS:
                    k += 1
                    if not ctx.mine(k):
                        continue
                    if (k // ctx.nshards) % 128 == 127:
                        fttools.mdft.clear()
                        fttools.czt.clear()
                    hi = ctx.pick(10, 25)
                    m, n = (int(v) for v in rng.integers(2, hi, 2))
                    if rng.random() < 0.4:
                        n = m
                    Pb = max(m, n) + int(rng.integers(0, ctx.pick(8, 20)))
                    order = 'focus-first' if via.endswith('to_fpm_and_back') else ('focus-first', 'unfocus-first')[int(rng.integers(2))]
                    bits = 32 if rng.random() < 0.15 else 64
                    wvl, efl, d1, d2 = _band_geometry(rng, m, n, Pb)
                    seed = ctx.subseed(rng)
                    a = make_input((m, n), True, seed, bits=bits)
                    desc = {'wl': 'shifted-wrappers', 'engine': method, 'order': order, 'n': (m, n), 'out': (Pb, Pb), 'via': via, 'bits': bits, 'wvl': wvl, 'efl': efl,
                            'd1': d1, 'd2': d2, 'shift_samples': s, 'seed': seed, 'k': 0,
                            'class': f'shifted-wrappers:{method}:{via}:{order}:{shape_kind((m, n))}:{pname}:p{bits}'}
                    ctx.case(desc, nontrivial=nontrivial(a))
                    CUR['desc'] = desc
                    try:
                        with precision(bits), ctx.guard(f'C02/{method}/band-complete/special:shift-{pname}', desc):
                            F, back = wrapper_trip(P, via, order, a, (m, n), Pb, wvl, efl, d1, d2, s, method)
                            if pname == 'none':
                                judge_band(method, a, (m, n), (Pb, Pb), 'fwd-inv' if order == 'focus-first' else 'inv-fwd', desc, bits == 32, F, back,
                                           via='/fixed-sampling-pair')
                            else:
                                judge_shifted(method, a, (m, n), (Pb, Pb), s, desc, bits == 32, F, back, level='wrappers')
                    finally:
                        CUR['desc'] = None
    fttools.mdft.clear()
    fttools.czt.clear()


def wl_near_integer(ctx, rng):
    """Class I: band-complete pairs whose Q = M / n is within 1e-3 of an integer without being one (needs axes of 340 ... 1024
    samples): thin arrays at executor level (both engines, both orders, with and without a shift along the long axis) and a few
    through the fixed-sampling wrappers / to_fpm_and_back (one P x P period)."""
    from prysm import propagation as P, fttools
    from .. import propforms as PF
    from ..util import precision
    pairs = list(PF.NEAR_INTEGER_PAIRS)
    if not ctx.quick:
        g = np.random.default_rng([ctx.seed, 4242])
        for _ in range(40):
            kq = int(g.integers(1, 4))
            nn = int(g.integers(max(334, -(-1000 // kq)), 1100))
            pairs.append((nn, kq * nn + (1 if (kq == 1 or g.random() < 0.5) else -1)))
    k = -1
    for (nn, MM) in pairs:
        for tk in range(ctx.pick(2, 4)):
            for engine in ('mdft', 'czt'):
                for order in ('fwd-inv', 'inv-fwd'):
                    for shifted in (False, True):
                        k += 1
                        if not ctx.mine(k):
                            continue
                        n = PF.thin(nn, tk + (k // 8))
                        out = tuple(MM if v == nn else v for v in n)
                        along_x = n[1] == nn
                        s = (0, 0) if not shifted else ((2.5, 0) if along_x else (0.0, -3))
                        bits = 64
                        seed = ctx.subseed(rng)
                        a = make_input(n, True, seed)
                        desc = {'wl': 'near-integer-Q', 'engine': engine, 'order': order, 'n': n, 'out': out, 'Q_long_axis': MM / nn, 'shift_samples': s, 'seed': seed, 'k': 0,
                                'class': f'near-integer-Q:{engine}:{order}:{shape_kind(n)}:Q~{round(MM / nn)}:{"shifted" if shifted else "unshifted"}'}
                        ctx.case(desc)
                        ctx.observe('size.near-integer-Q')
                        CUR['desc'] = desc
                        try:
                            with precision(bits), ctx.guard(f'C02/{engine}/band-complete/size:near-integer-Q', desc):
                                f_fwd, f_inv = _engine_fns(engine)
                                first, second = (f_fwd, f_inv) if order == 'fwd-inv' else (f_inv, f_fwd)
                                Q = (out[0] / n[0], out[1] / n[1])
                                if shifted:
                                    F = first(a, Q, out, s)
                                    judge_shifted(engine, a, n, out, s, desc, False, F, second(F, 1, n, s), cls='size:near-integer-Q')
                                else:
                                    F = first(a, Q, out)
                                    judge_band(engine, a, n, out, order, desc, False, F, second(F, 1, n), cls='size:near-integer-Q')
                        finally:
                            CUR['desc'] = None
                            fttools.mdft.clear()
                            fttools.czt.clear()
    # through the wrappers (one P x P period: the return leg multiplies a P x P array, so only a few)
    k = -1
    for (nn, MM) in pairs[:ctx.pick(3, 10)]:
        for via in WRAPPER_VIAS:
            k += 1
            if not ctx.mine(k):
                continue
            if ctx.quick and k >= 8:
                continue
            method = 'mdft' if (k // ctx.nshards) % 3 != 2 else 'czt'
            shp = (1, nn) if (k // ctx.nshards) % 2 == 0 else (nn, 1)
            order = 'focus-first' if via.endswith('to_fpm_and_back') else ('focus-first', 'unfocus-first')[k % 2]
            wvl, efl, d1, d2 = _band_geometry(rng, shp[0], shp[1], MM)
            s = (0, 0)                       # unshifted: a shift defect of the wrappers is not a size matter (wl_shifted_wrappers judges it)
            seed = ctx.subseed(rng)
            a = make_input(shp, True, seed)
            desc = {'wl': 'near-integer-Q', 'engine': method, 'order': order, 'n': shp, 'out': (MM, MM), 'via': via, 'wvl': wvl, 'efl': efl, 'd1': d1, 'd2': d2,
                    'shift_samples': s, 'seed': seed, 'k': 0, 'class': f'near-integer-Q:wrappers:{method}:{via}:{order}:{shape_kind(shp)}:Q~{round(MM / nn)}'}
            ctx.case(desc)
            ctx.observe('size.near-integer-Q')
            CUR['desc'] = desc
            try:
                with ctx.guard(f'C02/{method}/band-complete/size:near-integer-Q', desc):
                    F, back = wrapper_trip(P, via, order, a, shp, MM, wvl, efl, d1, d2, s, method)
                    if shift_label(s) == 'none':
                        judge_band(method, a, shp, (MM, MM), 'fwd-inv' if order == 'focus-first' else 'inv-fwd', desc, False, F, back, cls='size:near-integer-Q')
                    else:
                        judge_shifted(method, a, shp, (MM, MM), s, desc, False, F, back, cls='size:near-integer-Q')
            finally:
                CUR['desc'] = None
                fttools.mdft.clear()
                fttools.czt.clear()


def homogeneous(routine, got, ref_scaled, s, desc, single):
    """f(s a) against s f(a): 1e-11 (float32: 1e-3) of max|s f(a)|."""
    from .. import propforms as PF
    CTX.observe('scale.homogeneity')
    got, ref = np.asarray(got), np.asarray(ref_scaled)
    sc = float(np.max(np.abs(ref))) if ref.size else 0.0
    tol = (HOMOG32 if single else HOMOG64) * sc
    err = float(np.max(np.abs(got - ref))) if (got.shape == ref.shape and np.isfinite(got).all()) else float('inf')
    if not err <= tol:
        CTX.violation(f'C02/{routine}/scale:{PF.scale_class(s)}/not-homogeneous',
                      f'{routine} is linear, but f(s a) != s f(a) for a field of magnitude s (tiny: s <= 1e-3, huge: s >= 1e3)', dict(desc, s=s), err=err, tol=tol,
                      scale=sc)
        return False
    stat(f'scale.homogeneity/{"f32" if single else "f64"}', err, tol)
    return True


def wl_scales(ctx, rng):
    """Class G: field magnitudes 1e-12 ... 1e12 through every linear routine of the property -- homogeneity against the unit-magnitude
    result, and the ordinary laws (energy contracts, round trips, band pair, free-space group laws) on the scaled field."""
    from prysm import propagation as P, fttools
    from .. import propforms as PF
    from ..util import precision
    routines = ('focus', 'unfocus', 'angular_spectrum', 'angular_spectrum(tf)', 'dft2', 'idft2', 'czt2', 'iczt2', 'focus_fixed_sampling', 'unfocus_fixed_sampling')
    k = -1
    for rep in range(ctx.pick(3, 1200)):
        for routine in routines:
            for s in PF.SCALES:
                k += 1
                if not ctx.mine(k):
                    continue
                bits = 32 if (k // ctx.nshards) % 5 == 4 else 64
                single = bits == 32
                m, n = (int(v) for v in rng.integers(1, ctx.pick(10, 33), 2))
                if m * n == 1:
                    n = 3
                seed = ctx.subseed(rng)
                dk = ('complex', 'complex', 'real')[int(rng.integers(3))]
                a = field_of_kind(dk, (m, n), seed, bits)
                sa = (a * s).astype(a.dtype)
                Qf = [1, 2, 1.5, 3][int(rng.integers(4))]
                d = int(rng.integers(0, 6))
                out = (m + d, n + int(rng.integers(0, 6)))
                wvl, dx = [0.5, 1.55, 12.0][int(rng.integers(3))], [0.01, 0.1, 1.0][int(rng.integers(3))]
                z = moderate_z(rng, (m, n), wvl, dx, float(np.finfo(np.float32 if single else np.float64).eps))
                desc = {'wl': 'scales', 'routine': routine, 's': s, 'in': (m, n), 'bits': bits, 'seed': seed, 'field_dtype': str(a.dtype), 'k': 0,
                        'class': f'scales:{routine}:{PF.scale_class(s)}:{shape_kind((m, n))}:p{bits}' + (f':{dk}' if dk != 'complex' else '')}
                ctx.case(desc, nontrivial=nontrivial(a))
                if not nontrivial(a):
                    continue
                CUR['desc'] = desc
                try:
                    with precision(bits), ctx.guard(f'C02/{routine}/scale:{PF.scale_class(s)}', desc):
                        if routine in ('focus', 'unfocus'):
                            f, g = (P.focus, P.unfocus) if routine == 'focus' else (P.unfocus, P.focus)
                            r1, rs = f(a, Qf), f(sa, Qf)
                            homogeneous(routine, rs, s * np.asarray(r1), s, desc, single)
                            po = (math.ceil(m * Qf), math.ceil(n * Qf))
                            field_close('fft.roundtrip', g(rs, 1), origin_pad(sa.astype(np.complex128), po),
                                        f'C02/fft-roundtrip/{"unfocus(focus)" if routine == "focus" else "focus(unfocus)"}/{qclass(Qf)}/pad:{axes_class((m, n), po)}',
                                        'the round trip through the padded FFT pair is not the origin-aligned zero padding of the field [scaled field]', desc, single)
                        elif routine.startswith('angular_spectrum'):
                            if routine.endswith('(tf)'):
                                tf = np.array(P.angular_spectrum_transfer_function((m, n), wvl, dx, z), copy=True)
                                r1 = P.angular_spectrum(a, wvl, dx, float('nan'), tf=tf)
                                rs = P.Wavefront(sa, wvl, dx).free_space(tf=tf).data
                            else:
                                r1, rs = P.angular_spectrum(a, wvl, dx, z, Q=1), P.angular_spectrum(sa, wvl, dx, z, Q=1)
                                P.angular_spectrum(sa, wvl, dx, z, Q=2)              # energy contract under padding
                            homogeneous(routine, rs, s * np.asarray(r1), s, desc, single)
                            sk = shape_kind((m, n))
                            field_close('as.undo', P.angular_spectrum(rs, wvl, dx, -z, Q=1), sa, f'C02/free-space/z-then-minus-z/{sk}',
                                        'propagating by z and then by -z does not return the field [scaled field]', desc, single, rtol64=1e-10, rtol32=1e-3)
                            field_close('as.identity', P.angular_spectrum(sa, wvl, dx, 0.0, Q=1), sa, f'C02/free-space/z=0-not-identity/{sk}',
                                        'free-space propagation by z = 0 is not the identity [scaled field]', desc, single, rtol64=1e-10, rtol32=1e-3)
                        elif routine in ('dft2', 'idft2', 'czt2', 'iczt2'):
                            engine = 'mdft' if 'dft' in routine else 'czt'
                            f_fwd, f_inv = _engine_fns(engine)
                            first, second = (f_fwd, f_inv) if routine in ('dft2', 'czt2') else (f_inv, f_fwd)
                            Q = (out[0] / m, out[1] / n)
                            r1, rs = first(a, Q, out), first(sa, Q, out)
                            homogeneous(routine, rs, s * np.asarray(r1), s, desc, single)
                            judge_band(engine, sa, (m, n), out, 'fwd-inv' if routine in ('dft2', 'czt2') else 'inv-fwd', desc, single, rs, second(rs, 1, (m, n)))
                        else:
                            Pb = max(m, n) + d
                            method = ('mdft', 'czt')[int(rng.integers(2))]
                            w_, efl, d1, d2 = _band_geometry(rng, m, n, Pb)
                            order = 'focus-first' if routine.startswith('focus') else 'unfocus-first'
                            F1, _b = wrapper_trip(P, 'function', order, a, (m, n), Pb, w_, efl, d1, d2, (0, 0), method)
                            Fs, backs = wrapper_trip(P, ('function', 'Wavefront')[k % 2], order, sa, (m, n), Pb, w_, efl, d1, d2, (0, 0), method)
                            homogeneous(routine, Fs, s * F1, s, dict(desc, method=method), single)
                            judge_band(method, sa, (m, n), (Pb, Pb), 'fwd-inv' if order == 'focus-first' else 'inv-fwd', dict(desc, method=method), single, Fs, backs,
                                       via='/fixed-sampling-pair')
                finally:
                    CUR['desc'] = None
        fttools.mdft.clear()
        fttools.czt.clear()


def wl_units(ctx, rng):
    """Class G: consistent changes of units.  Free space depends on wvl z / dx^2 only; the fixed-sampling pair on
    lambda f / (dx_in dx_out) and shift / dx_out only."""
    from prysm import propagation as P, fttools
    from .. import propforms as PF
    from ..util import precision
    k = -1
    for rep in range(ctx.pick(6, 2400)):
        for (uname, al, ga, ze) in PF.FREE_SPACE_UNITS:
            k += 1
            if not ctx.mine(k):
                continue
            bits = 32 if (k // ctx.nshards) % 5 == 4 else 64
            single = bits == 32
            eps = float(np.finfo(np.float32 if single else np.float64).eps)
            m, n = (int(v) for v in rng.integers(1, ctx.pick(12, 40), 2))
            if m * n == 1:
                m = 4
            wvl, dx = [0.3, 0.55, 1.55, 12.0][int(rng.integers(4))], [1e-3, 0.01, 0.1, 1.0][int(rng.integers(4))]
            z = moderate_z(rng, (m, n), wvl, dx, eps)
            seed = ctx.subseed(rng)
            a = make_input((m, n), True, seed, bits=bits)
            via = ('function', 'Wavefront')[int(rng.integers(2))]
            desc = {'wl': 'units', 'routine': 'angular_spectrum', 'units': uname, 'in': (m, n), 'wvl': wvl, 'dx': dx, 'z': z, 'via': via, 'bits': bits, 'seed': seed,
                    'class': f'units:free-space:{uname}:{shape_kind((m, n))}:{via}:p{bits}'}
            ctx.case(desc, nontrivial=nontrivial(a))
            CUR['desc'] = desc
            try:
                with precision(bits), ctx.guard(f'C02/free-space/scale:units', desc):
                    if via == 'function':
                        r1 = P.angular_spectrum(a, wvl, dx, z, Q=1)
                        r2 = P.angular_spectrum(a, wvl * ga, dx * al, z * ze, Q=1)
                    else:
                        r1 = P.Wavefront(a, wvl, dx).free_space(dz=z, Q=1).data
                        r2 = P.Wavefront(a, wvl * ga, dx * al).free_space(dz=z * ze, Q=1).data
                    cond = COND_MULT * eps * 4 * tf_phase((m, n), wvl, dx, z)
                    field_close('scale.unit-invariance', r2, r1, f'C02/free-space/scale:units/result-changes-under-a-consistent-change-of-units/{shape_kind((m, n))}',
                                'free-space propagation depends on wvl z / dx^2 only: the same propagation in other units of length gives another field', desc, single,
                                rtol64=1e-10, rtol32=1e-3, extra_rtol=cond)
                    t1 = P.angular_spectrum_transfer_function((m, n), wvl, dx, z)
                    t2 = P.angular_spectrum_transfer_function((m, n), wvl * ga, dx * al, z * ze)
                    field_close('scale.unit-invariance', t2, t1, 'C02/transfer_function/scale:units/result-changes-under-a-consistent-change-of-units',
                                'the free-space transfer function depends on wvl z / dx^2 only', desc, single, rtol64=1e-10, rtol32=1e-3, extra_rtol=cond)
                    # the group laws in the other units (the contracts judge energy / unit modulus on every call)
                    back = P.angular_spectrum(np.asarray(r2), wvl * ga, dx * al, -z * ze, Q=1)
                    field_close('as.undo', back, a, f'C02/free-space/z-then-minus-z/{shape_kind((m, n))}',
                                'propagating by z and then by -z does not return the field [other units of length]', desc, single, rtol64=1e-10, rtol32=1e-3)
            finally:
                CUR['desc'] = None
        for (uname, al, be, ga, de) in PF.UNIT_SYSTEMS:
            k += 1
            if not ctx.mine(k):
                continue
            bits = 32 if (k // ctx.nshards) % 5 == 4 else 64
            single = bits == 32
            m, n = (int(v) for v in rng.integers(2, ctx.pick(10, 25), 2))
            Pb = max(m, n) + int(rng.integers(0, 8))
            method = ('mdft', 'czt')[int(rng.integers(2))]
            order = ('focus-first', 'unfocus-first')[int(rng.integers(2))]
            via = ('function', 'Wavefront', 'to_fpm_and_back')[int(rng.integers(3))] if order == 'focus-first' else ('function', 'Wavefront')[int(rng.integers(2))]
            pname, s = PF.SHIFT_PATTERNS[int(rng.integers(len(PF.SHIFT_PATTERNS)))]
            wvl, efl, d1, d2 = _band_geometry(rng, m, n, Pb)
            seed = ctx.subseed(rng)
            a = make_input((m, n), True, seed, bits=bits)
            desc = {'wl': 'units', 'routine': 'fixed-sampling-pair', 'units': uname, 'engine': method, 'order': order, 'via': via, 'n': (m, n), 'out': (Pb, Pb), 'wvl': wvl,
                    'efl': efl, 'd1': d1, 'd2': d2, 'shift_samples': s, 'bits': bits, 'seed': seed, 'k': 0,
                    'class': f'units:fixed-sampling-pair:{uname}:{method}:{via}:{order}:{pname}:p{bits}'}
            ctx.case(desc, nontrivial=nontrivial(a))
            CUR['desc'] = desc
            try:
                with precision(bits), ctx.guard(f'C02/{method}/band-complete/scale:units', desc):
                    F1, b1 = wrapper_trip(P, via, order, a, (m, n), Pb, wvl, efl, d1, d2, s, method)
                    # the first leg's input spacing scales with alpha, its output spacing with delta (and the other way round on the way back)
                    F2, b2 = wrapper_trip(P, via, order, a, (m, n), Pb, wvl * ga, efl * be, d1 * al, d2 * de, s, method)
                    if pname == 'none':
                        held = judge_band(method, a, (m, n), (Pb, Pb), 'fwd-inv' if order == 'focus-first' else 'inv-fwd', desc, single, F2, b2,
                                          via='/fixed-sampling-pair')
                    else:
                        held = judge_shifted(method, a, (m, n), (Pb, Pb), s, desc, single, F2, b2, level='wrappers')
                    if not held:
                        continue            # the comparison below would restate the same defect (or the case is ill-conditioned)
                    r = rtol_for(method, single, (m, n), (Pb / m, Pb / n), (Pb, Pb), (float(s[0]), float(s[1])))
                    if r is None:
                        ctx.skip('band-complete: kernel phase beyond the resolution of the working precision (ill-conditioned)')
                        continue
                    CTX.observe('scale.unit-invariance')
                    sc = float(np.sqrt(np.sum(np.abs(a.astype(np.complex128)) ** 2)))
                    err = float(np.max(np.abs(F2 - F1))) if F2.shape == F1.shape and np.isfinite(F2).all() else float('inf')
                    if not err <= r * sc:
                        CTX.violation(f'C02/{method}/band-complete/scale:units/result-changes-under-a-consistent-change-of-units',
                                      'fixed-sampling propagation depends on lambda f / (dx_in dx_out) and shift / dx_out only: the same propagation in other units gives '
                                      'another field', desc, err=err, tol=r * sc)
            finally:
                CUR['desc'] = None
        if rep % 8 == 7:
            fttools.mdft.clear()
            fttools.czt.clear()
    fttools.mdft.clear()
    fttools.czt.clear()


SPECIAL_Z = (0.0, -0.0, 0, 5e-324, -5e-324, 1e-300, -1e-300, 1e-30, -1e-30)


def wl_special_z(ctx, rng):
    """Class H for free space: z = 0 exactly (float, negative zero, python int, numpy scalars) and z = +-tiny: the identity; the
    transfer function is all ones to rounding; also under padding (energy contract) and as the second leg of z then -z."""
    from prysm import propagation as P
    from ..util import precision
    k = -1
    for rep in range(ctx.pick(5, 2400)):
        for zi, z in enumerate(SPECIAL_Z):
            for via in ('function', 'Wavefront', 'tf'):
                k += 1
                if not ctx.mine(k):
                    continue
                bits = 32 if (k // ctx.nshards) % 5 == 4 else 64
                single = bits == 32
                m, n = (int(v) for v in rng.integers(1, ctx.pick(12, 48), 2))
                if m * n == 1:
                    n = 5
                wvl, dx = [0.3, 0.55, 1.55, 12.0][int(rng.integers(4))], [1e-3, 0.01, 0.1, 1.0][int(rng.integers(4))]
                zz = z
                if rep % 3 == 1 and isinstance(z, float):
                    zz = np.float64(z)
                elif rep % 3 == 2 and isinstance(z, float) and bits == 32 and float(np.float32(z)) == z:
                    zz = np.float32(z)
                seed = ctx.subseed(rng)
                dk = DATA_KINDS[(k // ctx.nshards) % len(DATA_KINDS)]
                a = field_of_kind(dk, (m, n), seed, bits)
                zc = 'zero' if float(z) == 0 else 'tiny'
                desc = {'wl': 'special-z', 'z': repr(zz), 'in': (m, n), 'wvl': wvl, 'dx': dx, 'via': via, 'bits': bits, 'seed': seed, 'field_dtype': str(a.dtype),
                        'class': f'special-z:{zc}:{type(zz).__name__}:{via}:{shape_kind((m, n))}:p{bits}' + (f':{dk}' if dk != 'complex' else '')}
                ctx.case(desc, nontrivial=nontrivial(a))
                if not nontrivial(a):
                    continue
                CUR['desc'] = desc
                try:
                    with precision(bits), ctx.guard(f'C02/free-space/special:z={zc}', desc):
                        if via == 'function':
                            o = P.angular_spectrum(a, wvl, dx, zz, Q=1)
                            P.angular_spectrum(a, wvl, dx, zz)                      # default Q = 2: energy contract
                        elif via == 'Wavefront':
                            o = P.Wavefront(a, wvl, dx).free_space(dz=zz, Q=1).data
                        else:
                            tf = P.angular_spectrum_transfer_function((m, n), wvl, dx, zz)
                            field_close('special.free-space-z', tf, np.ones((m, n)), f'C02/transfer_function/special:z={zc}/not-all-ones',
                                        'the free-space transfer function at z = 0 / |z| <= 1e-30 is not 1 everywhere', desc, single, rtol64=1e-12, rtol32=1e-5)
                            o = P.angular_spectrum(a, wvl, dx, float('nan'), tf=tf)
                        ref = a.astype(np.complex128) if a.dtype.kind != 'c' else a
                        field_close('special.free-space-z', o, ref, f'C02/free-space/z=0-not-identity/{shape_kind((m, n))}/special:z={zc}',
                                    'free-space propagation by z = 0 (or |z| <= 1e-30) is not the identity', desc, single, rtol64=1e-10, rtol32=1e-3)
                        # a real step, then the special step, then back
                        z1 = moderate_z(rng, (m, n), wvl, dx, float(np.finfo(np.float32 if single else np.float64).eps))
                        o2 = P.angular_spectrum(P.angular_spectrum(P.angular_spectrum(a, wvl, dx, z1, Q=1), wvl, dx, zz, Q=1), wvl, dx, -z1, Q=1)
                        field_close('as.undo', o2, ref, f'C02/free-space/z-then-minus-z/{shape_kind((m, n))}',
                                    'propagating by z, by 0 (or a denormal distance) and by -z does not return the field', desc, single, rtol64=1e-10, rtol32=1e-3)
                finally:
                    CUR['desc'] = None


def wl_sizes(ctx, rng):
    """Class I: the FFT pair and free space at prime / awkward lengths (65 ... 257) and at axes of 509 ... 1024 samples (thin arrays
    and a few 2-D ones); the random fields fill the arrays up to the border."""
    from prysm import propagation as P
    from .. import propforms as PF
    from ..util import precision
    shapes = [PF.thin(n, i) for i, n in enumerate(PF.AWKWARD_SIZES + PF.LARGE_SIZES)] + [(67, 74), (101, 65), (127, 129), (257, 3), (65, 65), (127, 127)]
    if not ctx.quick:
        shapes += [PF.thin(n, i + 1) for i, n in enumerate(PF.AWKWARD_SIZES + PF.LARGE_SIZES)] + [(257, 257), (509, 67), (129, 521), (131, 137), (211, 2), (1, 997)]
    k = -1
    for (m, n) in shapes:
        for Q in (1, 2, 1.5):
            for what in ('fft', 'as'):
                k += 1
                if not ctx.mine(k):
                    continue
                if max(m, n) * Q > 2100:
                    continue
                bits = 32 if (k // ctx.nshards) % 5 == 4 else 64
                single = bits == 32
                seed = ctx.subseed(rng)
                a = make_input((m, n), True, seed, bits=bits)
                desc = {'wl': 'sizes', 'what': what, 'in': (m, n), 'Q': Q, 'bits': bits, 'seed': seed,
                        'class': f'sizes:{what}:{shape_kind((m, n))}:{max(m, n)}:{qclass(Q)}:p{bits}'}
                ctx.case(desc)
                ctx.observe('size.awkward')
                CUR['desc'] = desc
                try:
                    if what == 'fft':
                        with precision(bits), ctx.guard('C02/fft-pair', desc):
                            out = (math.ceil(m * Q), math.ceil(n * Q))
                            ref = origin_pad(a, out)
                            cls = f'{qclass(Q)}/pad:{axes_class((m, n), out)}'
                            field_close('fft.roundtrip', P.unfocus(P.focus(a, Q), 1), ref, f'C02/fft-roundtrip/unfocus(focus)/{cls}',
                                        'unfocus(focus(a,Q),1) is not the origin-aligned zero padding of a [prime / large size]', desc, single)
                            w2 = P.Wavefront(a, 0.55, 3.0, space='psf')
                            field_close('fft.roundtrip', w2.unfocus(100., Q=Q).focus(100., Q=1).data, ref, f'C02/fft-roundtrip/focus(unfocus)/{cls}',
                                        'focus(unfocus(a,Q),1) is not the origin-aligned zero padding of a [prime / large size]', desc, single)
                    else:
                        with precision(bits), ctx.guard('C02/free-space', desc):
                            eps = float(np.finfo(np.float32 if single else np.float64).eps)
                            wvl, dx = 0.55, [0.01, 0.1, 1.0][k % 3]
                            z = moderate_z(rng, (m, n), wvl, dx, eps)
                            sk = shape_kind((m, n))
                            fwd = P.angular_spectrum(a, wvl, dx, z, Q=1)
                            field_close('as.undo', P.Wavefront(fwd, wvl, dx).free_space(dz=-z).data, a, f'C02/free-space/z-then-minus-z/{sk}',
                                        'propagating by z and then by -z does not return the field [prime / large size]', desc, single, rtol64=1e-10, rtol32=1e-3)
                            field_close('as.identity', P.angular_spectrum(a, wvl, dx, 0.0, Q=1), a, f'C02/free-space/z=0-not-identity/{sk}',
                                        'free-space propagation by z = 0 is not the identity [prime / large size]', desc, single, rtol64=1e-10, rtol32=1e-3)
                            cond = COND_MULT * eps * 3 * tf_phase((m, n), wvl, dx, z)
                            two = P.angular_spectrum(P.angular_spectrum(a, wvl, dx, z / 2, Q=1), wvl, dx, z / 2, Q=1)
                            field_close('as.compose', two, fwd, f'C02/free-space/z1-then-z2!=z1+z2/{sk}', 'two steps of z/2 differ from one step of z [prime / large size]',
                                        desc, single, rtol64=1e-10, rtol32=1e-3, extra_rtol=cond)
                            if Q != 1:
                                P.angular_spectrum(a, wvl, dx, z, Q=Q)          # energy contract under padding
                finally:
                    CUR['desc'] = None


# ---- hardening pass 5: class N' (FFT backends lacking optional helpers) ---------------------------------------------------------
RULE = RULE + ('.  Hardening pass 5 -- class N\': the band-complete mdft / czt pair (both orders, output sizes that are not powers of two, m + M - 1 on '
               'both sides of a power of two), the padded FFT pair and the free-space laws under prysm.mathops.fft._srcmodule = numpy.fft and = a minimal '
               'shim object (fft, ifft, fft2, ifft2, fftn, ifftn, fftshift, ifftshift only), judged by the same oracles')
ASSUMPTIONS = ASSUMPTIONS + [
    'backends (vp.util.fft_backend): every law holds on the reference tree under numpy.fft and under the minimal shim (established on /repo); under '
    'the shim the transfer function cannot be built (propagation calls fft.fftfreq directly -> AttributeError: out of domain, excluded and counted), '
    'so free space is judged there in the tf= form with a transfer function built under the default backend; executors are cleared at every switch',
]
REQUIRED = REQUIRED + ['backend.laws']


class _ShimFFT:
    """A minimal FFT backend: only the transforms and the shifts (delegating to scipy.fft); no fftfreq, no next_fast_len, no set_workers."""
    NAMES = ('fft', 'ifft', 'fft2', 'ifft2', 'fftn', 'ifftn', 'fftshift', 'ifftshift')

    def __init__(self):
        import scipy.fft as sfft
        for nm in self.NAMES:
            setattr(self, nm, getattr(sfft, nm))


# (n, out) pairs: out never a power of two on at least one axis; n + out - 1 below, at and above powers of two; Q = 1 and Q != 1 (also non-integer)
BACKEND_PAIRS = [((12, 12), (12, 12)), ((8, 12), (12, 18)), ((9, 6), (18, 12)), ((5, 7), (15, 21)), ((3, 5), (3, 5)), ((6, 6), (6, 6)),
                 ((7, 9), (10, 9)), ((1, 12), (1, 12)), ((11, 1), (13, 1)), ((10, 10), (23, 23)), ((9, 9), (24, 24)), ((16, 16), (17, 17)),
                 ((17, 17), (17, 17)), ((5, 5), (12, 12)), ((4, 6), (5, 11)), ((24, 3), (41, 6)), ((20, 20), (45, 45)), ((33, 2), (33, 3))]
BACKEND_PAIRS_MORE = [((31, 33), (34, 33)), ((40, 25), (89, 26)), ((64, 64), (65, 65)), ((50, 3), (79, 7)), ((100, 1), (157, 1)), ((7, 63), (9, 66))]


def _backends():
    import numpy.fft as npfft
    return (('numpy.fft', npfft), ('shim', _ShimFFT()))


def wl_backends(ctx, rng):
    """Class N': the laws of the property under FFT backends that lack the optional helpers (next_fast_len, fftfreq, set_workers), where
    the fall-backs inside fttools are live."""
    from prysm import fttools, propagation as P
    from ..util import fft_backend, precision
    pairs = BACKEND_PAIRS + ctx.pick([], BACKEND_PAIRS_MORE)
    if not ctx.quick:
        g = np.random.default_rng([ctx.seed, 77])
        for _ in range(150):
            n0, n1 = (int(v) for v in g.integers(1, 40, 2))
            d0, d1 = (int(v) for v in g.integers(0, 40, 2))
            pairs.append(((n0, n1), (n0 + d0, n1 + d1)))
    k = -1
    for bname, mod in _backends():
        tag = f'backend:{bname}'
        fttools.mdft.clear()
        fttools.czt.clear()
        try:
            # (1) band-complete pairs
            for (n, out) in pairs:
                for engine in ('mdft', 'czt'):
                    for order in ('fwd-inv', 'inv-fwd'):
                        k += 1
                        if not ctx.mine(k):
                            continue
                        r = k // ctx.nshards
                        bits = 32 if r % 7 == 6 else 64
                        seed = ctx.subseed(rng)
                        dk = DATA_KINDS[r % len(DATA_KINDS)]
                        a = field_of_kind(dk, n, seed, bits)
                        desc = {'wl': 'backends', 'backend': bname, 'engine': engine, 'order': order, 'n': n, 'out': out, 'bits': bits, 'seed': seed,
                                'field_dtype': str(a.dtype), 'class': f'{tag}:band:{engine}:{order}:{shape_kind(n)}:{axes_class(n, out)}:f{bits}'}
                        ctx.case(desc, nontrivial=nontrivial(a))
                        if not nontrivial(a):
                            continue
                        ctx.observe('backend.laws')
                        CUR['desc'] = desc
                        try:
                            with fft_backend(mod), precision(bits), ctx.guard(f'C02/{engine}/band-complete/{tag}', desc):
                                f_fwd, f_inv = _engine_fns(engine)
                                first, second = (f_fwd, f_inv) if order == 'fwd-inv' else (f_inv, f_fwd)
                                Q = (out[0] / n[0], out[1] / n[1])
                                F = first(a, Q, out)
                                back = second(F, 1, n)
                                judge_band(engine, a, n, out, order, desc, bits == 32, F, back, via=f'/{tag}')
                        finally:
                            CUR['desc'] = None
            # (2) the padded FFT pair and (3) free space
            shapes = [(12, 12), (7, 10), (9, 5), (1, 12), (13, 1), (6, 6), (24, 10), (17, 3)] + ctx.pick([], [(33, 47), (100, 1), (65, 66), (3, 129)])
            for (m, nn) in shapes:
                for Q in (1, 2, 3, 1.5):
                    k += 1
                    if not ctx.mine(k):
                        continue
                    r = k // ctx.nshards
                    bits = 32 if r % 5 == 4 else 64
                    single = bits == 32
                    seed = ctx.subseed(rng)
                    a = make_input((m, nn), True, seed, bits=bits)
                    wvl, dx = [0.55, 0.6328, 1.55][r % 3], [0.01, 0.1, 1.0][r % 3]
                    desc = {'wl': 'backends', 'backend': bname, 'in': (m, nn), 'Q': Q, 'wvl': wvl, 'dx': dx, 'bits': bits, 'seed': seed,
                            'class': f'{tag}:fft+as:{shape_kind((m, nn))}:{qclass(Q)}:p{bits}'}
                    ctx.case(desc)
                    ctx.observe('backend.laws')
                    CUR['desc'] = desc
                    try:
                        with fft_backend(mod), precision(bits), ctx.guard(f'C02/fft-pair/{tag}', desc):
                            out = (math.ceil(m * Q), math.ceil(nn * Q))
                            ref = origin_pad(a, out)
                            cls = f'{qclass(Q)}/pad:{axes_class((m, nn), out)}/{tag}'
                            F = P.focus(a, Q)
                            energy_close('fft.energy', energy(F), energy(a), f'C02/fft-energy/focus/{cls}', 'focus(a, Q) does not conserve energy', desc, single)
                            field_close('fft.roundtrip', P.unfocus(F, 1), ref, f'C02/fft-roundtrip/unfocus(focus)/{cls}',
                                        'unfocus(focus(a,Q),1) is not the origin-aligned zero padding of a', desc, single)
                            w2 = P.Wavefront(a, wvl, 3.0, space='psf')
                            field_close('fft.roundtrip', w2.unfocus(100., Q=Q).focus(100., Q=1).data, ref, f'C02/fft-roundtrip/focus(unfocus)/{cls}',
                                        'focus(unfocus(a,Q),1) is not the origin-aligned zero padding of a', desc, single)
                        eps = float(np.finfo(np.float32 if single else np.float64).eps)
                        with precision(bits):
                            z = moderate_z(rng, (m, nn), wvl, dx, eps)
                        sk = f'{shape_kind((m, nn))}/{tag}'
                        cond = COND_MULT * eps * 3 * tf_phase((m, nn), wvl, dx, z)
                        if bname == 'shim':
                            # the transfer function needs fft.fftfreq: out of domain under the shim; built under the default backend, used under the shim
                            ctx.skip('backends: angular_spectrum_transfer_function under a backend without fftfreq (AttributeError on the reference tree)')
                            with precision(bits), ctx.guard(f'C02/free-space/{tag}', desc):
                                tfs = {zz: P.angular_spectrum_transfer_function((m, nn), wvl, dx, zz) for zz in (z, -z, 0.0, z / 2)}
                                with fft_backend(mod):
                                    fwd = P.angular_spectrum(a, wvl, dx, z, Q=1, tf=tfs[z])
                                    energy_close('as.energy', energy(fwd), energy(a), f'C02/free-space/energy/{sk}', 'free space (tf=) does not conserve energy', desc, single)
                                    field_close('as.undo', P.Wavefront(fwd, wvl, dx).free_space(tf=tfs[-z]).data, a, f'C02/free-space/z-then-minus-z/{sk}',
                                                'propagating by z and then by -z (tf= form) does not return the field', desc, single, rtol64=1e-10, rtol32=1e-3)
                                    field_close('as.identity', P.angular_spectrum(a, wvl, dx, 0.0, Q=1, tf=tfs[0.0]), a, f'C02/free-space/z=0-not-identity/{sk}',
                                                'free-space propagation by z = 0 (tf= form) is not the identity', desc, single, rtol64=1e-10, rtol32=1e-3)
                                    two = P.angular_spectrum(P.angular_spectrum(a, wvl, dx, z / 2, tf=tfs[z / 2]), wvl, dx, z / 2, tf=tfs[z / 2])
                                    field_close('as.compose', two, fwd, f'C02/free-space/z1-then-z2!=z1+z2/{sk}', 'two steps of z/2 differ from one step of z (tf= form)',
                                                desc, single, rtol64=1e-10, rtol32=1e-3, extra_rtol=cond)
                        else:
                            with fft_backend(mod), precision(bits), ctx.guard(f'C02/free-space/{tag}', desc):
                                fwd = P.angular_spectrum(a, wvl, dx, z, Q=1)
                                energy_close('as.energy', energy(fwd), energy(a), f'C02/free-space/energy/{sk}', 'free space does not conserve energy', desc, single)
                                field_close('as.undo', P.Wavefront(fwd, wvl, dx).free_space(dz=-z).data, a, f'C02/free-space/z-then-minus-z/{sk}',
                                            'propagating by z and then by -z does not return the field', desc, single, rtol64=1e-10, rtol32=1e-3)
                                field_close('as.identity', P.angular_spectrum(a, wvl, dx, 0.0, Q=1), a, f'C02/free-space/z=0-not-identity/{sk}',
                                            'free-space propagation by z = 0 is not the identity', desc, single, rtol64=1e-10, rtol32=1e-3)
                                two = P.angular_spectrum(P.angular_spectrum(a, wvl, dx, z / 2, Q=1), wvl, dx, z / 2, Q=1)
                                field_close('as.compose', two, fwd, f'C02/free-space/z1-then-z2!=z1+z2/{sk}', 'two steps of z/2 differ from one step of z',
                                            desc, single, rtol64=1e-10, rtol32=1e-3, extra_rtol=cond)
                                if Q != 1:
                                    P.angular_spectrum(a, wvl, dx, z, Q=Q)          # energy contract under padding
                    finally:
                        CUR['desc'] = None
        finally:
            fttools.mdft.clear()
            fttools.czt.clear()


def run(ctx):
    global CTX
    CTX = ctx
    from prysm import fttools
    from prysm.conf import config
    old = conf_bits()
    install()
    try:
        import time
        secs = {}

        def timed(name, f, *a):
            t = time.time()
            f(*a)
            secs[name] = round(time.time() - t, 1)
        timed('fft-pair', wl_fft_pair, ctx, ctx.rng('c02-fft'))
        timed('band-complete', wl_band_complete, ctx, ctx.rng('c02-band'))
        timed('band-history', wl_band_history, ctx, ctx.rng('c02-band-hist'))
        timed('free-space', wl_free_space, ctx, ctx.rng('c02-as'))
        timed('tf-reuse', wl_tf_reuse, ctx, ctx.rng('c02-tf-reuse'))
        timed('repeat-fields', wl_repeat_fields, ctx, ctx.rng('c02-repeat'))
        timed('band-wrappers', wl_band_wrappers, ctx, ctx.rng('c02-band-wrappers'))
        timed('forms', wl_forms, ctx, ctx.rng('c02-forms'))
        timed('foreign', wl_foreign, ctx, ctx.rng('c02-foreign'))
        timed('shifted-band', wl_shifted_band, ctx, ctx.rng('c02-shifted-band'))
        timed('shifted-wrappers', wl_shifted_wrappers, ctx, ctx.rng('c02-shifted-wrappers'))
        timed('near-integer-Q', wl_near_integer, ctx, ctx.rng('c02-near-integer'))
        timed('scales', wl_scales, ctx, ctx.rng('c02-scales'))
        timed('units', wl_units, ctx, ctx.rng('c02-units'))
        timed('special-z', wl_special_z, ctx, ctx.rng('c02-special-z'))
        timed('sizes', wl_sizes, ctx, ctx.rng('c02-sizes'))
        timed('backends', wl_backends, ctx, ctx.rng('c02-backends'))
        ctx.note('workload_seconds(first shard)', secs)
        ctx.note('largest_error_over_tolerance_among_held_comparisons(first shard)', {k: float(f'{v:.2e}') for k, v in sorted(STATS.items())})
    finally:
        detach_all()
        config.precision = old
        fttools.mdft.clear()
        fttools.czt.clear()


def replay(ctx, rec):
    run(ctx)
