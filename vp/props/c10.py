"""C10 — fast modal sums equal explicit sums; least-squares fitting inverts synthesis.

Oracle for the sums: the explicit sum  sum_k c_k * mode_k  accumulated term by term over the library's own single-mode
routines (jacobi, Qbfs, Qcon, Q2d; their correctness is C07's), never a Clenshaw recurrence.  Oracle for lstsq: an
independent least-squares solve (Householder QR from numpy) on *exactly* the finite samples, with the masking and
flattening done here; a fit is only judged when the masked design matrix has full numerical rank and a moderate
condition number (otherwise excluded and counted).

Contracts are attached to the real `sum_of_2d_modes` and `lstsq`, so the calls made by `Interferogram.pvr`,
`fit_plane` etc. are checked too.  Exceptions escaping on in-domain input are keyed by the function that raised them
(traceback), so that one defect reached through several entry points has one key.
"""
import hashlib
import traceback

import numpy as np

from ..contracts import attach, detach_all, quiet
from ..core import REPO, max_err
from ..polyhard import (cfg32, clear_caches, warm32, layouts, stack_layouts, is_c_contig, contig, coef_containers, foreign_traffic,
                        term_containers, PARAM_FORMS, INT_PARAM_FORMS,
                        scales, ulps, special_class, near_special_jacobi, EXACT_SPECIAL_JACOBI, GENERIC_NEIGHBOURS_JACOBI, term_orderings, layout_patterns)
from ..util import precision

RULE = ('one case = one coefficient set (class: dense / sparse single term at each position / length 1 / cosine-only / '
        'sine-only / sine without cosine partner / unequal radial lengths / m=1 with N>2 / no m=0 terms) x one '
        'coordinate-shape class x one parameter class, evaluated by the fast path and by the explicit sum; lstsq: one '
        'basis x one NaN/inf mask class x noiseless/noisy data; a case is non-trivial when at least one coefficient is '
        'non-zero; distinct = distinct descriptor. Hardening classes: fifteen fast paths (jacobi_sum_clenshaw for three (alpha, beta), clenshaw_qbfs, '
        'the sag of compute_z_zprime_Qbfs / _Qcon, compute_z_zprime_Q2d with only m=0 / cosine m=1,2 / sine m=1,3 content, clenshaw_q2d m=1,2) x history '
        'units (memo tables emptied where possible, {float32 short | float32 long | no} session under config.precision = 32, then sums of 3,6,19,42,18,4,41,1,2 '
        'coefficients or the reverse) x aliasing (ONE coefficient object - float64 ndarray, strided ndarray, list, tuple, numpy floats - through every '
        'fast path in turn and then as the weight vector of sum_of_2d_modes, each result against the explicit sum with the PRISTINE coefficients; '
        'arguments must be left intact) x containers (+ float32 ndarray at single-precision tolerance, integer ndarray) x memory layouts (lstsq and '
        'sum_of_2d_modes with Fortran / transposed / strided / windowed data and mode stacks, lists of such arrays, weights as list / tuple / strided / '
        'float32 / int; evaluators with non-C-contiguous coordinates) x config.precision = 32 x caller-provided alphas= work arrays x sums of 19, 41, 60 '
        '(thorough: to 150) coefficients, dense and sparse; lstsq / sum_of_2d_modes repeated on the same objects incl. 16x1, 2x40, 1x24 shapes. Hardening pass 2: class A for every array '
        'argument of lstsq / sum_of_2d_modes / sum_of_2d_modes_backprop - ONE mode-stack object (C / Fortran ndarray, flattened (k, N), view of a larger array, list) fitted with none / one / '
        'few / just below size//16 / size//16 / many non-finite samples and then re-used for synthesis, a second fit and the backprop, each judged against the PRISTINE stack, argument '
        'snapshots intact; class D - sums of 172, 173, 257, 401 coefficients in the quick tier (2D-Q paths to 201: implementation limit); class E - forms the current tree accepts as '
        'the same input (tables in vp/polyhard.py and the contracts): weights bool / uint8 / int32 / int64 / float32 / range / tuple / numpy scalars, mode stacks list / tuple / float32 / '
        'complex128 / integer (lstsq), data int64 / int32 / float32 / masked array, non-integer data with integer mode stacks; alpha, beta as numpy float64 / float32 / python int / numpy '
        'int64 and the STANDING parameter lines alpha + beta = -1 and = 0 with alpha != beta; the coordinate as python float / python int / numpy float64 / 0-d; m of clenshaw_q2d as numpy '
        'integers; alphas=None explicit vs omitted vs an explicit work array; Q2d_nm_c_to_a_b with every container form of both arguments; class F - every fast path and the fit judged '
        'after unmonitored traffic through the shared tables from the other routines of the library. Hardening pass 3: class G - coefficients scaled by 1e-12 ... 1e12 through all sixteen fast paths '
        '(against the explicit sum of the same scaled coefficients and the law f(s c) = s f(c)), sum_of_2d_modes with weights / modes scaled, lstsq with data / modes / both / individual columns '
        'scaled; class H - shape parameters special only UP TO ROUNDING (alpha = 0.1 + 0.2, beta = -0.3; alpha + beta = -1 +- 1 ulp; one ulp from 0, +-1/2, an integer; alpha -> -1), exactly special '
        'ones and generic neighbours through jacobi_sum_clenshaw; radial points exactly on the axis, on the rim, at u = 1/2 (x = 0), one ulp inside the rim as arrays / 2-D / 0-d / length-1 for every '
        'fast path; class I - EVERY pattern of empty / length-1 / length-5 coefficient lists over m = 0 .. 4 (243 layouts) through compute_z_zprime_Q2d, every ordering of the (n, m) list of '
        'Q2d_nm_c_to_a_b; class J - modes / design columns NON-FINITE AT EXACTLY THE MASKED SAMPLES (NaN, +inf, -inf, mixed; all columns / one column / a strict subset of the masked samples; '
        'outside an aperture, isolated samples, rows, columns, a single sample, the first samples, all but k + 2 samples), aperture-limited zernike / 2D-Q bases with data synthesised from them '
        'through sum_of_2d_modes, a column with a pole at the one dropped sample, 1-D samples, masks all-valid / single-valid-sample / all-masked: the fit must be the fit on the valid samples only. '
        'Hardening pass 4: class M - the documented work / output array alphas= of jacobi_sum_clenshaw (three parameter pairs), jacobi_sum_clenshaw_der, clenshaw_qbfs, clenshaw_qbfs_der, '
        'clenshaw_q2d (m = 1, 2, 3), clenshaw_q2d_der in the states all-zero / NaN-filled / +inf-filled / garbage / huge garbage / RE-USED for three further sums with new coefficients / the '
        'leading slice of a longer array the same routine filled, x lengths 1, 2, 3, 4, 6, 9 x coordinates 1-D / 2-D / 0-d: the returned sum and the sum the documentation locates in the array '
        'against the explicit sum (domain table WORK_DOMAIN), the derivative planes against the alphas=None call where they are in domain; ragged coefficient sets of compute_z_zprime_Q2d '
        '(a shorter vector after a longer one across m and between the cosine and sine lists of one m, the reverse, mixed; lengths 0 .. 11), each evaluated twice')
ASSUMPTIONS = ['the single-mode routines (jacobi, Qbfs, Qcon, Q2d, zernike_nm) define the modes (their values are C07)',
               'float64 accumulation of <= 40 terms is exact to 1e-13 relative to sum |c_k| sup|mode_k|',
               'numpy.linalg (qr, solve, matrix_rank, cond) is the trusted base for the least-squares oracle',
               'tolerance 1e-10 * sum|c_k| sup|mode_k| for sums, times (terms/20)^2 beyond 20 terms (measured round-off of the 2-D Q '
               'recurrences: 1e-13 at 41 terms, 5e-12 at 150); float32 data / coefficients or config.precision = 32: 1e-3 (sums of <= 12 '
               'terms, observed 1e-6), 2e-4 for sum_of_2d_modes and lstsq; 1e-8 * cond * |c| for fits',
               'caller-provided work arrays (alphas=) have the documented shape; their CONTENT on entry is arbitrary for the routines that assign every row they read (jacobi_sum_clenshaw, '
               'clenshaw_qbfs, clenshaw_q2d, and plane 0 - the sum - of the derivative routines): "array to store the alpha sums in, alphas[0] contains the sum"; the derivative planes of '
               'clenshaw_qbfs_der / clenshaw_q2d_der read rows they never assign and are judged only for an all-zero buffer or one the same routine filled before with the same shapes; '
               'jacobi_sum_clenshaw_der ignores the array it is given (DATA established on /repo @ 66c5405, table WORK_DOMAIN)',
               'a coefficient vector may be any sequence of real numbers (list, tuple, ndarray of a floating or integer dtype, numpy scalars)',
               'argument forms (class E): the accepted forms are DATA established on /repo @ faa8443: integer mode stacks in sum_of_2d_modes (weights are cast to the mode dtype), complex weights '
               'with real modes, generators as weights / mode stacks, list data in lstsq, integer ndarray coordinates of the Clenshaw routines and evaluators, python int coordinates of the Q '
               'evaluators, 2D-Q sums of more than 201 radial coefficients (RecursionError of the memoised f/g tables when cold) are out of domain: excluded and counted',
               'class J domain (established on /repo @ c2c1d7f: lstsq masks data AND modes by isfinite(data) before anything else is computed; the seeded change C10-H\'s demonstration passes on the clean '
               'tree): a fit whose modes are non-finite ONLY at samples where the data are non-finite is in domain ("ignoring exactly the non-finite samples": nothing about an ignored sample may '
               'enter the fit); a mode that is non-finite at a VALID sample is out of domain (excluded and counted); a mask that leaves no valid sample is out of domain (basis not independent)',
               'fast sums and the fit are homogeneous in coefficients / data: scale factors 1e-12 ... 1e12 are judged at the ordinary RELATIVE tolerance (s c is rounded once per coefficient)',
               'jacobi_sum_clenshaw and the explicit sum over jacobi() evaluate the same function, smooth in (alpha, beta): parameters special only up to rounding are judged at the ordinary tolerance']
REQUIRED = ['alias.arguments-intact', 'alias.result-stable', 'sum_of_2d_modes', 'jacobi_sum_clenshaw', 'clenshaw_qbfs', 'compute_z_zprime_Qbfs.sag',
            'compute_z_zprime_Qcon.sag', 'compute_z_zprime_Q2d.sag', 'Q2d_nm_c_to_a_b.structure',
            'Q2d_nm_c_to_a_b->compute_z_zprime_Q2d', 'lstsq.solution', 'lstsq.recovers-synthesis',
            'lstsq.ignores-exactly-nonfinite', 'pvr.consumer',
            'classA.array-arguments-reused', 'classD.very-high-orders', 'classE.argument-forms', 'classF.foreign-traffic',
            'classG.scale-laws', 'classH.special-parameters', 'classH.special-points', 'classI.orderings', 'classI.layouts', 'classJ.validity-patterns',
            'classM.work-arrays', 'classM.ragged-coefficient-sets']

CTX = None
RTOL = 1e-10
RTOL32 = 1e-3        # single-precision class (float32 data / coefficients or config.precision = 32), sums of <= 12 terms: observed <= 1e-6
HISTORY = [None]     # class label of the history the workload is in (set by the history units), for mechanism keys
FORM = [None]        # 'form:<argument>=<form>' label of the argument-form class the workload is driving (class E), appended to contract keys
ORIG = {}


def formkey(key):
    return key + ('/' + FORM[0] if FORM[0] else '')


def lowp(*objs):
    """Single-precision class: a float32 array among the arguments or prysm configured with precision = 32."""
    return cfg32() or any(getattr(o, 'dtype', None) == np.float32 for o in objs)


def mechanism(recheck, arrays):
    """Mechanism class of a failure, found by re-running the ORIGINAL routine quietly: memory-layout (right for C-contiguous private
    copies of the array arguments), not-repeatable (right when the same call is made again), history-dependent[:<class>] (right once
    the memoised recurrence coefficients have been emptied), '' otherwise."""
    if recheck is None:
        return ''
    try:
        with quiet(), np.errstate(all='ignore'):
            flat = []
            for a in arrays:
                flat += list(a) if isinstance(a, (list, tuple)) else [a]
            if recheck(None):
                return 'not-repeatable'
            if any(not is_c_contig(a) for a in flat) and recheck(contig):
                return 'memory-layout'
            if clear_caches() and recheck(None):
                return 'history-dependent' + (':' + HISTORY[0] if HISTORY[0] else '')
    except Exception:  # noqa
        pass
    return ''


def case_rng(*labels):
    ent = [CTX.seed] + [int(hashlib.blake2b(str(l).encode(), digest_size=4).hexdigest(), 16) for l in labels]
    return np.random.default_rng(ent)


def sup(a):
    a = np.asarray(a)
    if a.size == 0:
        return 0.0
    a = np.abs(a[np.isfinite(a)])
    return float(a.max()) if a.size else 0.0


HELPERS = {'recurrence_abc', 'abc_q2d', 'abc_q2d_clenshaw', '_initialize_alphas', 'g_q2d', 'f_q2d', 'G_q2d', 'F_q2d',
           'g_qbfs', 'h_qbfs', 'f_qbfs', 'product_rule', 'expand_and_copy', 'factory'}


def raise_site(e):
    tb = traceback.extract_tb(e.__traceback__)
    frames = [f for f in tb if f.filename.startswith(REPO)]
    where = [f'{f.filename[len(REPO) + 1:]}:{f.lineno}:{f.name}' for f in frames][-4:]
    for f in reversed(frames):
        if f.name not in HELPERS:
            return f.name, where
    return (frames[-1].name if frames else '?'), where


SITE_FEATURE = {'jacobi_sum_clenshaw': 'len1', 'jacobi_sum_clenshaw_der': 'len1', 'clenshaw_qbfs': 'len1',
                'clenshaw_qbfs_der': 'len1', 'compute_z_zprime_Qbfs': 'len1', 'compute_z_zprime_Qcon': 'len1',
                'clenshaw_q2d': 'list-len1', 'clenshaw_q2d_der': 'list-len1',
                'change_of_basis_Q2d_to_Pnm': 'cosine-without-sine', 'Q2d_nm_c_to_a_b': 'one-azimuthal-family-absent'}


class guard:
    """An exception escaping prysm on in-domain input is a violation keyed by the function that raised it and the
    structural feature of the input that this function is sensitive to (when the case has that feature; otherwise
    the case's own class label)."""

    def __init__(self, fn, desc, label, features=()):
        self.fn, self.desc, self.label, self.features = fn, desc, label, set(features)
        self.raised = False

    def __enter__(self):
        return self

    def __exit__(self, et, e, tb):
        if e is None or not isinstance(e, Exception):
            return False
        site, where = raise_site(e)
        label = SITE_FEATURE.get(site)
        if label not in self.features:
            label = self.label
        CTX.violation(f'C10/@{site}/{label}/raises:{type(e).__name__}',
                      f'{site} raises {type(e).__name__} ({str(e)[:80]}) on in-domain input class {label!r} '
                      f'(entered through {self.fn})', self.desc, exception=repr(e)[:200], where=where)
        self.raised = True
        return True


def explicit_sum(coefs, mode):
    """sum_k c_k * mode(k), term by term; returns (sum, sum_k |c_k| sup|mode_k|)."""
    tot = None
    scale = 0.0
    for k, c in enumerate(coefs):
        m = np.asarray(mode(k), dtype=float)
        term = float(c) * m
        tot = term if tot is None else tot + term
        scale += abs(float(c)) * sup(m)
    return tot, scale


def margin(monitor, got, ref, tol):
    """histogram (as events) of how far passing comparisons stay below their threshold."""
    got, ref = np.asarray(got), np.asarray(ref)
    if got.shape != ref.shape or tol <= 0:
        return
    err = max_err(got, ref)
    if err <= 1e-3 * tol or not err <= tol:
        return
    r = err / tol
    CTX.event(f'margin:{monitor}:err/tol in ' + ('(1e-3,1e-2]' if r <= 1e-2 else '(1e-2,1e-1]' if r <= 1e-1 else '(1e-1,1]'))


def compare(monitor, got, ref, scale, key, what, desc, rtol=RTOL, recheck=None, arrays=(), **detail):
    """recheck(transform) -> True when the ORIGINAL routine, called again (on transformed array arguments), is right."""
    margin(monitor, got, ref, rtol * scale)
    g, r = np.asarray(got), np.asarray(ref)
    if recheck is not None and g.shape == r.shape and not max_err(g, r) <= 1e-300 + rtol * scale:
        mech = mechanism(recheck, arrays)
        if mech:
            key = key + '/' + mech
    return CTX.close(monitor, got, ref, key, what, desc, rtol=rtol, atol=1e-300, scale=scale, **detail)


def compare_form(monitor, got, ref, scale, base_key, form, canonical, what, desc, rtol=RTOL):
    """Class E comparison: the result for an accepted argument form against the oracle.  On a failure the canonical form of the same input is
    evaluated quietly: right -> the defect is specific to the form (key <base>/form:<argument>=<form>), wrong too -> the form-independent key."""
    key = base_key
    if form and not ok_close(got, ref, scale, rtol):
        try:
            with quiet(), np.errstate(all='ignore'):
                if ok_close(canonical(), ref, scale, rtol):
                    key = base_key + '/form:' + form
        except Exception:  # noqa
            pass
    return compare(monitor, got, ref, scale, key, what, desc, rtol=rtol)


def special_key(key, params, rerun, ref, scale, rtol=RTOL):
    """Class H attribution for the Jacobi fast sum: the shape parameters are special only up to rounding (vp.polyhard.special_class) and the routine equals the explicit sum again at
    the exactly special neighbour -> C10/jacobi_sum_clenshaw/special:<line> (the explicit sum moves by a rounding error of the parameters, far below the tolerance)."""
    sp = special_class(tuple(float(v) for v in params))
    if sp is None or sp[1] is None:
        return key
    try:
        with quiet(), np.errstate(all='ignore'):
            if ok_close(rerun(sp[1]), ref, scale, 10 * rtol):
                return f'C10/jacobi_sum_clenshaw/special:{sp[0]}'
    except Exception:  # noqa
        pass
    return key


def ok_close(got, ref, scale, rtol=RTOL):
    g, r = np.asarray(got), np.asarray(ref)
    return g.shape == r.shape and max_err(g, r) <= 1e-300 + rtol * scale


def lenclass(n):
    return 'len1' if n == 1 else 'len>=2'


# ------------------------------------------------------------------------------------------ contracts
def post_sum_of_2d_modes(token, args, kwargs, result):
    modes = kwargs.get('modes', args[0] if args else None)
    weights = kwargs.get('weights', args[1] if len(args) > 1 else None)
    try:
        M = np.asarray(modes)
        w = np.asarray(weights)
    except Exception:
        return
    # argument forms accepted today (polyhard class E table): floating / complex mode stacks; weights of any real kind (bool, signed and
    # unsigned integers, floats), complex weights only with complex modes (weights are cast to the mode dtype: integer mode stacks truncate
    # real weights and real mode stacks drop the imaginary part of complex weights - out of domain)
    if M.dtype.kind not in 'fc' or w.dtype.kind not in 'fciub' or M.ndim < 2 or w.ndim != 1 or w.shape[0] != M.shape[0] \
            or (w.dtype.kind == 'c' and M.dtype.kind != 'c'):
        CTX.skip('sum_of_2d_modes:outside-stated-domain(dtype/shape)')
        return
    if not (np.all(np.isfinite(w))):
        return
    f32 = M.dtype in (np.float32, np.complex64) or cfg32()
    acc = np.zeros(M.shape[1:], dtype=complex if M.dtype.kind == 'c' or w.dtype.kind == 'c' else float)
    scale = 0.0
    for k in range(M.shape[0]):
        acc = acc + (float(w[k]) if w.dtype.kind in 'iub' else w[k]) * M[k].astype(acc.dtype)
        scale += abs(float(w[k]) if w.dtype.kind in 'iub' else w[k]) * sup(M[k])
    desc = {'fn': 'sum_of_2d_modes', 'k': int(M.shape[0]), 'shape': list(M.shape[1:]), 'dtype': str(M.dtype),
            'class': f'sum_of_2d_modes:{"k=1" if M.shape[0] == 1 else "k>=2"}:{M.dtype}'}
    def recheck(tr):
        m2 = modes if tr is None else ([tr(np.asarray(v)) for v in modes] if isinstance(modes, (list, tuple)) else tr(np.asarray(modes)))
        w2 = weights if tr is None else (tr(weights) if isinstance(weights, np.ndarray) else weights)
        return ok_close(ORIG['sum_of_2d_modes'](m2, w2), acc, scale, 2e-4 if f32 else RTOL)
    compare('sum_of_2d_modes', result, acc, scale, formkey('C10/sum_of_2d_modes' + ('/f32' if f32 else '')),
            'sum_of_2d_modes != explicit sum of weight*mode', desc, rtol=2e-4 if f32 else RTOL, recheck=recheck, arrays=[modes, weights])


def ls_oracle(modes, data):
    """Independent least squares on exactly the finite samples.  Returns (c, rank_ok, cond, A, d)."""
    M = np.asarray(modes)
    k = M.shape[0]
    d = np.asarray(data)
    mask = np.isfinite(d)
    A = np.stack([np.asarray(M[i])[mask] for i in range(k)], axis=1).astype(float)
    b = d[mask].astype(float)
    if A.shape[0] < k:
        return None, False, np.inf, A, b
    if np.linalg.matrix_rank(A) < k:
        return None, False, np.inf, A, b
    cond = float(np.linalg.cond(A))
    Q, R = np.linalg.qr(A)
    c = np.linalg.solve(R, Q.T @ b)
    return c, True, cond, A, b


def post_lstsq(token, args, kwargs, result):
    modes = kwargs.get('modes', args[0] if args else None)
    data = kwargs.get('data', args[1] if len(args) > 1 else None)
    try:
        M = np.asarray(modes)
        d = np.asarray(data)
    except Exception:
        return
    # argument forms accepted today (class E table): floating or integer mode stacks (ndarray, list, tuple), floating or integer data ndarray
    if M.dtype.kind not in 'fiu' or d.dtype.kind not in 'fiu' or not isinstance(data, np.ndarray) or M.ndim < 2 or M.shape[1:] != d.shape:
        CTX.skip('lstsq:outside-stated-domain(dtype/shape)')
        return
    nonfinite_modes = not np.all(np.isfinite(M))
    if nonfinite_modes:
        # class J (HARDENING3): "ignoring exactly the non-finite samples" - a sample whose datum is non-finite is ignored, so the value a mode takes THERE (NaN outside an aperture,
        # a pole at r = 0) must not enter the fit.  Established on /repo @ c2c1d7f: lstsq masks data and modes by isfinite(data) before anything else is computed (the seeded
        # change C10-H's demonstration passes on the clean tree).  In domain: every mode finite at every VALID sample; otherwise excluded and counted.
        valid = np.isfinite(d)
        if not np.all(np.isfinite(M[:, valid])):
            CTX.skip('lstsq:non-finite-modes-at-valid-samples')
            return
        CTX.event('lstsq:modes-non-finite-at-exactly-masked-samples')
    c, ok, cond, A, b = ls_oracle(M, d)
    if not ok:
        CTX.skip('lstsq:rank-deficient-on-valid-samples')
        return
    if cond > 1e6:
        CTX.skip('lstsq:ill-conditioned(cond>1e6)')
        return
    f32 = M.dtype == np.float32 or d.dtype == np.float32 or cfg32()
    desc = {'fn': 'lstsq', 'k': int(M.shape[0]), 'shape': list(d.shape), 'valid': int(A.shape[0]), 'cond': cond,
            'class': f'lstsq:contract:{"all-finite" if A.shape[0] == d.size else "masked"}' + (':modes-nonfinite-at-masked-samples' if nonfinite_modes else '')}
    rt = (2e-4 if f32 else 1e-8) * max(cond, 1.0)
    # residual-aware scale: perturbation theory for LS adds cond^2 * |r|/|A||c|; keep noisy fits modest in cond
    r = A @ c - b
    extra = (cond ** 2) * 1e-13 * (np.linalg.norm(r) / max(np.linalg.norm(A, 2), 1e-300))
    key = formkey('C10/lstsq/solution' + ('/f32' if f32 else ''))
    tol = extra + 1e-300 + rt * max(sup(c), 1e-300)
    got = np.asarray(result)
    if got.shape == c.shape and not max_err(got, c) <= tol:
        def recheck(tr):
            m2 = modes if tr is None else ([tr(np.asarray(v)) for v in modes] if isinstance(modes, (list, tuple)) else tr(np.asarray(modes)))
            d2 = data if tr is None else tr(np.asarray(data))
            g2 = np.asarray(ORIG['lstsq'](m2, d2))
            return g2.shape == c.shape and max_err(g2, c) <= tol
        mech = mechanism(recheck, [modes, data])
        if mech:
            key = key + '/' + mech
        elif nonfinite_modes:
            # right once the non-finite mode values at the ignored samples are replaced by finite ones -> the defect is that those values enter the fit
            try:
                with quiet(), np.errstate(all='ignore'):
                    g2 = np.asarray(ORIG['lstsq'](np.where(np.isfinite(M), M, 0.0), d))
                if g2.shape == c.shape and max_err(g2, c) <= tol:
                    key = key + '/modes-nonfinite-at-masked-samples'
            except Exception:  # noqa
                pass
    CTX.close('lstsq.solution', got, c, key, 'lstsq != least-squares solution on exactly the finite samples', desc, rtol=rt, atol=extra + 1e-300,
              scale=max(sup(c), 1e-300))


def install():
    import importlib
    P = importlib.import_module('prysm.polynomials')
    ORIG.update(sum_of_2d_modes=P.sum_of_2d_modes, lstsq=P.lstsq)
    attach(P, 'sum_of_2d_modes', post=post_sum_of_2d_modes)
    attach(P, 'lstsq', post=post_lstsq)


def install_monitors(ctx):
    """Attach the call-level contracts for vp/pytest_monitors.py (the repository's own tests as traffic)."""
    global CTX
    CTX = ctx
    install()


# ------------------------------------------------------------------------------------------ workload: 1-index sums
def xsets(rng, lo, hi):
    w = hi - lo

    def draw(shape):
        return lo + w * (0.02 + 0.96 * rng.random(shape))
    return [('0d', np.array(float(draw(())))), ('1d', np.sort(draw(9))), ('2d', draw((4, 5))), ('2d-1xN', draw((1, 6))),
            ('3d', draw((2, 3, 2))), ('ends', np.array([lo, hi, 0.5 * (lo + hi)]))]


def coef_sets(rng, nmax, quick):
    out = [('len1', [1.0]), ('len1', [float(rng.normal())]), ('len1-zero', [0.0])]
    for L in (2, 3, 4, 6, nmax):
        for pos in sorted({0, 1, L // 2, L - 1}):
            v = [0.0] * L
            v[pos] = float(rng.normal()) or 1.0
            out.append(('sparse-single', v))
    lens = [2, 3, 4, 5, 8, nmax] if quick else [2, 3, 4, 5, 6, 8, 12, 17, 18, 20, 25, 40, 41, nmax]
    for L in lens:
        out.append(('dense', [float(v) for v in rng.normal(size=L)]))
    for L in (5, 9, nmax):
        v = rng.normal(size=L)
        v[rng.random(L) < 0.5] = 0.0
        out.append(('sparse', [float(q) for q in v]))
    return out


def run_jacobi(ctx, counter):
    from prysm.polynomials import jacobi, jacobi_sum_clenshaw
    nmax = ctx.pick(12, 60)
    params = [(-0.5, -0.5), (0.5, 0.5), (-0.5, 0.5), (0.5, -0.5), (0, 0), (0, 4), (0.3, -0.3), (-0.3, -0.7), (-0.25, -0.75), (-0.875, -0.125), (0.75, -0.75),
              'rand', 'rand'] + ['rand'] * ctx.pick(0, 30)      # incl. the standing lines alpha + beta = -1 and = 0 with alpha != beta
    for pi, par in enumerate(params):
        rng0 = case_rng('jac-sets', pi)
        for si, (sl, s) in enumerate(coef_sets(rng0, nmax, ctx.quick)):
            counter[0] += 1
            if not ctx.mine(counter[0]):
                continue
            rng = case_rng('jac', pi, si)
            if par == 'rand':
                al, be, pl = round(float(rng.uniform(-0.95, 5)), 3), round(float(rng.uniform(-0.95, 5)), 3), 'rand'
            else:
                (al, be), pl = par, str(par)
            for xl, x in xsets(rng, -1.0, 1.0):
                desc = {'fn': 'jacobi_sum_clenshaw', 's': s if len(s) <= 6 else len(s), 'coefs': sl, 'sub': si, 'alpha': al, 'beta': be, 'x': xl,
                        'class': f'jacobi_sum_clenshaw:{sl}:{pl}:{xl}'}
                ctx.case(desc, nontrivial=any(v != 0 for v in s))
                arg = s if (si % 2) else np.array(s)
                with guard('jacobi_sum_clenshaw', desc, lenclass(len(s)), [lenclass(len(s))]):
                    got = jacobi_sum_clenshaw(arg, al, be, x)
                    with quiet():
                        ref, scale = explicit_sum(s, lambda k: jacobi(k, al, be, x))
                    key = f'C10/jacobi_sum_clenshaw/{lenclass(len(s))}'
                    if not ok_close(got, ref, scale):
                        key = special_key(key, (al, be), lambda nb: jacobi_sum_clenshaw(arg, nb[0], nb[1], x), ref, scale)
                    compare('jacobi_sum_clenshaw', got, ref, scale, key, 'jacobi_sum_clenshaw != explicit sum of s_n * jacobi(n)', desc)


def run_qbfs_qcon(ctx, counter):
    from prysm.polynomials import Qbfs, Qcon
    from prysm.polynomials.qpoly import clenshaw_qbfs, compute_z_zprime_Qbfs, compute_z_zprime_Qcon
    nmax = ctx.pick(12, 60)
    for rep in range(ctx.pick(1, 12)):
      rng0 = case_rng('q-sets', rep) if rep else case_rng('q-sets')
      for si, (sl, s) in enumerate(coef_sets(rng0, nmax, ctx.quick)):
        counter[0] += 1
        if not ctx.mine(counter[0]):
            continue
        rng = case_rng('q', si, rep) if rep else case_rng('q', si)
        for xl, u in xsets(rng, 0.0, 1.0):
            arg = s if (si % 2) else np.array(s)
            with quiet():
                ref_b, scale_b = explicit_sum(s, lambda k: Qbfs(k, u))
                ref_c, scale_c = explicit_sum(s, lambda k: Qcon(k, u))
            desc = {'fn': 'clenshaw_qbfs', 'cs': s if len(s) <= 6 else len(s), 'coefs': sl, 'sub': [rep, si], 'x': xl, 'class': f'clenshaw_qbfs:{sl}:{xl}'}
            ctx.case(desc, nontrivial=any(v != 0 for v in s))
            with guard('clenshaw_qbfs', desc, lenclass(len(s)), [lenclass(len(s))]):
                got = clenshaw_qbfs(arg, u * u)
                compare('clenshaw_qbfs', got, ref_b, scale_b, f'C10/clenshaw_qbfs/{lenclass(len(s))}',
                        'clenshaw_qbfs != explicit sum of c_n * Qbfs(n)', desc)
            desc = dict(desc, fn='compute_z_zprime_Qbfs', **{'class': f'compute_z_zprime_Qbfs:{sl}:{xl}'})
            ctx.case(desc, nontrivial=any(v != 0 for v in s))
            with guard('compute_z_zprime_Qbfs', desc, lenclass(len(s)), [lenclass(len(s))]):
                got = compute_z_zprime_Qbfs(arg, u, u * u)[0]
                compare('compute_z_zprime_Qbfs.sag', got, ref_b, scale_b, f'C10/compute_z_zprime_Qbfs/{lenclass(len(s))}',
                        'compute_z_zprime_Qbfs sag != explicit sum of c_n * Qbfs(n)', desc)
            desc = dict(desc, fn='compute_z_zprime_Qcon', **{'class': f'compute_z_zprime_Qcon:{sl}:{xl}'})
            ctx.case(desc, nontrivial=any(v != 0 for v in s))
            with guard('compute_z_zprime_Qcon', desc, lenclass(len(s)), [lenclass(len(s))]):
                got = compute_z_zprime_Qcon(arg, u, u * u)[0]
                compare('compute_z_zprime_Qcon.sag', got, ref_c, scale_c, f'C10/compute_z_zprime_Qcon/{lenclass(len(s))}',
                        'compute_z_zprime_Qcon sag != explicit sum of c_n * Qcon(n)', desc)


# ------------------------------------------------------------------------------------------ workload: 2D-Q
def q2d_term_sets(rng, nmax, quick):
    """(label, nms, coefs): azimuthal-content classes of the property's quantifier, smallest first."""
    def c(k):
        return [float(v) for v in rng.normal(size=k)]
    sets = [
        ('m0-only', [(0, 0), (1, 0), (3, 0)]),
        ('single:cos', [(0, 1)]),
        ('single:sin', [(0, -1)]),
        ('single:cos:m=3', [(0, 3)]),
        ('cosine-only', [(0, 1), (2, 1), (1, 3)]),
        ('sine-only', [(0, -1), (2, -2)]),
        ('cosine-only+m0', [(1, 0), (0, 2), (1, 2)]),
        ('sine-only+m0', [(1, 0), (0, -2), (1, -2)]),
        ('sine-without-cosine', [(0, 0), (1, 0), (0, 1), (1, 1), (0, -1), (1, -1), (0, -2), (1, -2)]),
        ('cosine-without-sine', [(0, 0), (1, 0), (0, 1), (1, 1), (0, -1), (1, -1), (0, 2), (1, 2)]),
        ('dense', [(0, 0), (1, 0), (0, 1), (1, 1), (0, -1), (1, -1), (0, 2), (1, 2), (2, 2), (0, -2), (1, -2)]),
        ('m1-long', [(0, 1), (1, 1), (2, 1), (3, 1), (4, 1), (0, -1), (1, -1), (2, -1), (3, -1)]),
        ('no-m0', [(1, 1), (0, 1), (1, -1), (0, -1)]),
        ('unequal-lengths', [(0, 0), (3, 2), (0, -2), (1, -2), (0, 1), (0, -1), (2, -1)]),
        ('gap-in-m', [(0, 0), (0, 1), (1, -1), (2, 3), (0, -3)]),
        ('list-len1:m=1', [(1, 0), (0, 1), (0, -1), (1, -1)]),
        ('list-len1:m=2', [(0, 1), (1, 1), (0, -1), (0, 2), (0, -2), (1, -2)]),
        ('list-len1:m=3', [(0, 1), (0, -1), (1, 1), (1, -1), (0, 2), (1, 2), (0, -2), (1, -2), (0, 3), (0, -3), (1, -3)]),
        ('cm0-len1', [(0, 0), (0, 1), (1, 1), (0, -1), (1, -1)]),
        ('sparse-holes', [(2, 0), (3, 1), (1, -1), (2, 2), (3, -2)]),
    ]
    # random dense / sparse to higher order
    for rep in range(2 if quick else 10):
        N = int(rng.integers(2, nmax + 1))
        Mm = int(rng.integers(1, 5 if quick else 8))
        terms = [(n, m) for n in range(0, N + 1) for m in range(-Mm, Mm + 1)]
        keep = rng.random(len(terms)) < (0.9 if rep % 2 == 0 else 0.3)
        terms = [t for t, k in zip(terms, keep) if k]
        # make sure every |m| present has both families with at least two terms (so the label is honest)
        for m in range(1, Mm + 1):
            for sgn in (1, -1):
                for n in (0, 1):
                    if (n, sgn * m) not in terms:
                        terms.append((n, sgn * m))
        for n in (0, 1):
            if (n, 0) not in terms:
                terms.append((n, 0))
        order = rng.permutation(len(terms))
        terms = [terms[i] for i in order]
        sets.append(('random-' + ('dense' if rep % 2 == 0 else 'sparse'), terms))
    return [(label, nms, c(len(nms))) for label, nms in sets]


def structure_features(cm0, ams, bms):
    f = set()
    if len(cm0) == 1:
        f.add('len1')
    for i, (a, b) in enumerate(zip(ams, bms)):
        if len(a) == 1 or len(b) == 1:
            f.add('list-len1')
        if len(a) == 0 and len(b) > 0:
            f.add('sine-without-cosine')
        if len(a) > 0 and len(b) == 0:
            f.add('cosine-without-sine')
        if i == 0 and (len(a) > 3 or len(b) > 3):
            f.add('m=1:N>2')        # the special -2/5 alpha_3 branch
    return f


def mismatch_label(features, label):
    """mechanism class of a value mismatch: the most specific structural feature of the coefficient set."""
    for k in ('sine-without-cosine', 'cosine-without-sine', 'list-len1', 'len1', 'm=1:N>2'):
        if k in features:
            return k
    return 'regular'


def rt_sets(rng):
    def r(shape):
        return 0.02 + 0.96 * rng.random(shape)

    def t(shape):
        return rng.uniform(-1.0, 7.0, shape)
    g_r, g_t = np.meshgrid(np.sort(r(5)), np.sort(t(4)))
    return [('0d', np.array(float(r(()))), np.array(float(t(())))), ('1d', r(7), t(7)), ('2d', g_r, g_t),
            ('on-axis', np.array([0.0, 0.0, 1.0, 1.0]), np.array([0.0, 2.0, 0.0, 4.0]))]


def expected_packing(nms, coefs):
    """What the docstring of Q2d_nm_c_to_a_b promises: dense per-m lists, zeros where a term is absent."""
    cm0, a, b = {}, {}, {}
    for (n, m), c in zip(nms, coefs):
        if m == 0:
            cm0[n] = c
        elif m > 0:
            a.setdefault(m, {})[n] = c
        else:
            b.setdefault(-m, {})[n] = c
    mmax = max(list(a) + list(b) + [0])

    def dense(d):
        return [d.get(i, 0) for i in range(max(d) + 1)] if d else []
    return dense(cm0), [dense(a.get(m, {})) for m in range(1, mmax + 1)], [dense(b.get(m, {})) for m in range(1, mmax + 1)]


def run_q2d(ctx, counter):
    from prysm.polynomials import Q2d
    from prysm.polynomials.qpoly import Q2d_nm_c_to_a_b, compute_z_zprime_Q2d
    nmax = ctx.pick(12, 30)
    reps = ctx.pick(8, 800)
    for rep in range(reps):
        rng0 = case_rng('q2d-sets', rep)
        for si, (label, nms, coefs) in enumerate(q2d_term_sets(rng0, nmax, ctx.quick)):
            counter[0] += 1
            if not ctx.mine(counter[0]):
                continue
            rng = case_rng('q2d', rep, si)
            exp = expected_packing(nms, coefs)
            feat = structure_features(*exp)
            absent = (not exp[1]) or all(len(a) == 0 for a in exp[1]) or all(len(b) == 0 for b in exp[2])
            pk_feat = ['one-azimuthal-family-absent'] if absent else []
            kl = mismatch_label(feat, label)
            desc0 = {'fn': 'Q2d_nm_c_to_a_b', 'terms': label, 'sub': [rep, si], 'nms': nms if len(nms) <= 12 else len(nms), 'class': f'Q2d_nm_c_to_a_b:{label}'}
            ctx.case(desc0)
            packed = None
            with guard('Q2d_nm_c_to_a_b', desc0, kl, pk_feat):
                packed = Q2d_nm_c_to_a_b(nms, coefs)
                ok = (list(packed[0]) == exp[0] and [list(v) for v in packed[1]] == exp[1] and [list(v) for v in packed[2]] == exp[2])
                ctx.require('Q2d_nm_c_to_a_b.structure', ok, f'C10/Q2d_nm_c_to_a_b/structure/{pk_feat[0] if pk_feat else "regular"}',
                            'Q2d_nm_c_to_a_b does not return dense per-m lists with zeros for absent terms', desc0,
                            got=[list(packed[0]), [list(v) for v in packed[1]], [list(v) for v in packed[2]]], expected=exp)
            # the evaluator is driven with the structure the docstring promises, whether or not the packer delivered it
            structure = packed if packed is not None else expected_packing(nms, coefs)
            via = 'packer' if packed is not None else 'documented-structure'
            for xl, u, t in rt_sets(rng):
                desc = {'fn': 'compute_z_zprime_Q2d', 'terms': label, 'sub': [rep, si], 'via': via, 'nms': nms if len(nms) <= 12 else len(nms), 'x': xl,
                        'class': f'compute_z_zprime_Q2d:{label}:{xl}'}
                ctx.case(desc)
                with guard('compute_z_zprime_Q2d', desc, kl, feat):
                    cm0, ams, bms = structure
                    z = compute_z_zprime_Q2d(list(cm0), [list(v) for v in ams], [list(v) for v in bms], u, t)[0]
                    with quiet():
                        tot, scale = None, 0.0
                        for (n, m), c in zip(nms, coefs):
                            md = np.asarray(Q2d(n, m, u, t), dtype=float)
                            tot = c * md if tot is None else tot + c * md
                            scale += abs(c) * sup(md)
                    mon = 'Q2d_nm_c_to_a_b->compute_z_zprime_Q2d' if via == 'packer' else 'compute_z_zprime_Q2d.sag'
                    compare(mon, z, tot, scale, f'C10/compute_z_zprime_Q2d/{kl}',
                            'compute_z_zprime_Q2d sag != explicit sum of c * Q2d(n, m)', desc)
                    if via == 'packer':
                        ctx.observe('compute_z_zprime_Q2d.sag')


# ------------------------------------------------------------------------------------------ workload: sum_of_2d_modes / lstsq
def basis(rng, kind, shape):
    from prysm.polynomials import zernike_nm_seq, Q2d_seq, jacobi_seq
    ny, nx = shape
    x = np.linspace(-1, 1, nx)
    y = np.linspace(-1, 1, ny)
    X, Y = np.meshgrid(x, y)
    R = np.hypot(X, Y)
    T = np.arctan2(Y, X)
    if kind == 'zernike':
        nms = [(0, 0), (1, 1), (1, -1), (2, 0), (2, 2), (2, -2), (3, 1), (3, -1), (4, 0)]
        return zernike_nm_seq(nms, R / np.sqrt(2), T)
    if kind == 'q2d':
        nms = [(0, 0), (1, 0), (0, 1), (0, -1), (1, 1), (0, 2), (0, -2)]
        return Q2d_seq(nms, R / np.sqrt(2), T)
    if kind == 'legendre-xy':
        px = jacobi_seq([0, 1, 2], 0, 0, X)
        py = jacobi_seq([0, 1, 2], 0, 0, Y)
        return np.array([px[i] * py[j] for i in range(3) for j in range(3) if i + j <= 2])
    if kind == 'single':
        return np.array([1.0 + 0.5 * X * Y])
    raise ValueError(kind)


def masks(rng, shape):
    ny, nx = shape
    X, Y = np.meshgrid(np.linspace(-1, 1, nx), np.linspace(-1, 1, ny))
    out = [('none', np.zeros(shape, bool)), ('circular', np.hypot(X, Y) > 1.0),
           ('ragged-edge', np.hypot(X, Y) > 0.8 + 0.2 * rng.random(shape)),
           ('interior-dropouts', rng.random(shape) < 0.2),
           ('single-valid-row', np.arange(ny)[:, None] + 0 * X != ny // 2),
           ('all-masked', np.ones(shape, bool))]
    return out


def run_lstsq(ctx, counter):
    from prysm import polynomials as P
    shapes = [(8, 9), (12, 12), (5, 16), (1, 24)] if ctx.quick else [(8, 9), (12, 12), (5, 16), (1, 24), (24, 17), (33, 32), (16, 1), (64, 65), (3, 200), (128, 4)]
    kinds = ['zernike', 'q2d', 'legendre-xy', 'single']
    fills = ['nan', '+inf', '-inf', 'mixed']
    reps = ctx.pick(4, 140)
    for rep in range(reps):
        for shi, shape in enumerate(shapes):
            for kind in kinds:
                counter[0] += 1
                if not ctx.mine(counter[0]):
                    continue
                rng = case_rng('lstsq', rep, shi, kind)
                with quiet():
                    modes = np.asarray(basis(rng, kind, shape), dtype=float)
                k = modes.shape[0]
                c = rng.normal(size=k)
                # --- sum_of_2d_modes: ndarray and list inputs, list/array weights; the contract does the comparison
                for form in ('ndarray', 'list'):
                    desc = {'fn': 'sum_of_2d_modes', 'basis': kind, 'shape': shape, 'form': form, 'sub': rep,
                            'class': f'sum_of_2d_modes:{kind}:{form}:{"1xN" if 1 in shape else ("sq" if shape[0] == shape[1] else "nonsq")}'}
                    ctx.case(desc)
                    with guard('sum_of_2d_modes', desc, form):
                        synth = P.sum_of_2d_modes(modes if form == 'ndarray' else [m for m in modes], c if form == 'ndarray' else list(c))
                        sp = [0.0] * k
                        sp[k // 2] = 1.5
                        P.sum_of_2d_modes(modes, sp)                           # sparse single term
                        P.sum_of_2d_modes(modes.astype(np.float32), c)          # float32 modes
                with quiet():
                    synth = P.sum_of_2d_modes(modes, c)
                for ml, mask in masks(rng, shape):
                    for noisy in (False, True):
                        fill = fills[(rep + shi + len(ml) + int(noisy)) % len(fills)]
                        data = synth.copy()
                        if noisy:
                            data = data + 0.05 * rng.normal(size=shape)
                        bad = {'nan': np.nan, '+inf': np.inf, '-inf': -np.inf}
                        if fill == 'mixed':
                            vals = np.array([np.nan, np.inf, -np.inf])[rng.integers(0, 3, shape)]
                            data[mask] = vals[mask]
                        else:
                            data[mask] = bad[fill]
                        desc = {'fn': 'lstsq', 'basis': kind, 'shape': shape, 'mask': ml, 'fill': fill, 'noisy': noisy, 'sub': rep,
                                'class': f'lstsq:{kind}:{ml}:{fill}:{"noisy" if noisy else "exact"}'}
                        ctx.case(desc)
                        cref, ok, cond, A, b = ls_oracle(modes, data)
                        if not ok or cond > 1e6:
                            # out of the property's domain ("whenever the modes are independent on the valid samples")
                            ctx.skip('lstsq:rank-deficient-or-ill-conditioned-on-valid-samples')
                            try:
                                P.lstsq(modes, data)       # still exercised: must not be judged
                            except Exception:
                                ctx.event('lstsq:raises-on-rank-deficient-input(out-of-domain)')
                            continue
                        with guard('lstsq', desc, 'masked' if mask.any() else 'all-finite'):
                            chat = P.lstsq(modes if rep % 2 == 0 else [m for m in modes], data)
                            if not noisy:
                                ctx.close('lstsq.recovers-synthesis', chat, c, 'C10/lstsq/recovers-synthesis',
                                          'lstsq(modes, sum c_k mode_k with non-finite samples) != c', desc,
                                          rtol=1e-8 * max(cond, 1.0), atol=1e-300, scale=sup(c))
                            # "ignores exactly the non-finite samples":
                            #  (a) what sits in an ignored sample is irrelevant
                            if mask.any():
                                d2 = data.copy()
                                d2[mask] = np.where(np.isnan(data[mask]), np.inf, np.nan)
                                c2 = P.lstsq(modes, d2)
                                ctx.close('lstsq.ignores-exactly-nonfinite', c2, chat, 'C10/lstsq/nonfinite-kind-matters',
                                          'the fit depends on which non-finite value marks an ignored sample', desc,
                                          rtol=1e-12, atol=1e-300, scale=sup(chat))
                            #  (b) every finite sample is used: moving one changes the fit by the oracle's amount
                            idx = np.argwhere(~mask)
                            p = tuple(idx[int(rng.integers(len(idx)))])
                            d3 = data.copy()
                            d3[p] += 1.0
                            c3 = P.lstsq(modes, d3)
                            c3ref, ok3, _, _, _ = ls_oracle(modes, d3)
                            moved = sup(c3ref - cref)
                            if ok3 and moved > 1e-6 * max(sup(cref), 1.0):
                                ctx.close('lstsq.ignores-exactly-nonfinite', np.asarray(c3) - np.asarray(chat), c3ref - cref,
                                          'C10/lstsq/finite-sample-not-used', 'perturbing a finite sample does not move the fit as least squares requires',
                                          desc, rtol=1e-6 * max(cond, 1.0), atol=1e-300, scale=moved)
                            else:
                                ctx.skip('lstsq:perturbed-sample-has-no-leverage')


def run_pvr(ctx, counter):
    """Consumer: Interferogram.pvr calls lstsq and sum_of_2d_modes; the contracts judge those calls."""
    from prysm.interferogram import Interferogram, fit_plane
    from prysm.coordinates import make_xy_grid
    sizes = [16, 21] if ctx.quick else [16, 21, 32, 47, 64, 101, 128]
    for si, n in enumerate(sizes):
        for ml in ('none', 'dropouts'):
            counter[0] += 1
            if not ctx.mine(counter[0]):
                continue
            rng = case_rng('pvr', n, ml)
            x, y = make_xy_grid(n, diameter=2)
            data = 30 * (x * x + 0.5 * y * y - 0.3 * x * y + 0.2 * x ** 3) + rng.normal(size=(n, n))
            if ml == 'dropouts':
                data[rng.random((n, n)) < 0.1] = np.nan
            desc = {'fn': 'Interferogram.pvr', 'n': n, 'mask': ml, 'class': f'pvr:{"e" if n % 2 == 0 else "o"}:{ml}'}
            ctx.case(desc)
            before = dict(CTX.monitors)
            with guard('Interferogram.pvr', desc, 'masked'):
                i = Interferogram(data.copy(), dx=2 / n)
                v = i.pvr()
                seen = (CTX.monitors.get('lstsq.solution', 0) + CTX.skipped.get('lstsq:ill-conditioned(cond>1e6)', 0)
                        + CTX.skipped.get('lstsq:rank-deficient-on-valid-samples', 0)) > before.get('lstsq.solution', 0)
                ctx.require('pvr.consumer', np.isfinite(v) and seen, 'C10/pvr/consumer-not-monitored-or-nonfinite',
                            'Interferogram.pvr returned a non-finite value or its lstsq call was not seen', desc, value=float(v))
            with guard('fit_plane', desc, 'masked' if ml != 'none' else 'all-finite'):
                fit_plane(x, y, data)


# ------------------------------------------------------------------------------------------ hardening classes (HARDENING.md A-D)
HIST_VARIANTS = ('f32-low-orders-then-f64', 'f32-high-orders-then-f64', 'f64-short-then-long', 'f64-long-then-short')


def paths():
    """label -> (fast(coefs, u) -> surface on the radial points u in [0,1], mode(k, u), azimuthal class)."""
    from prysm.polynomials import jacobi, Qbfs, Qcon, Q2d, jacobi_sum_clenshaw
    from prysm.polynomials.qpoly import clenshaw_qbfs, compute_z_zprime_Qbfs, compute_z_zprime_Qcon, compute_z_zprime_Q2d, clenshaw_q2d
    T = 0.6

    def q2d_m(m, sine):
        def fast(c, u):
            ams = [[] for _ in range(m)]
            bms = [[] for _ in range(m)]
            (bms if sine else ams)[m - 1] = c
            return compute_z_zprime_Q2d([], ams, bms, u, np.zeros(np.shape(u)) + T)[0]
        return fast, (lambda k, u: Q2d(k, -m if sine else m, u, np.zeros(np.shape(u)) + T)), 'm!=0'

    def cq2d(m):
        def fast(c, u):
            al = clenshaw_q2d(c, m, u * u)
            S = 0.5 * al[0]
            if m == 1 and len(c) > 3:
                S = S - 2 / 5 * al[3]
            return S * u ** m
        return fast, (lambda k, u: Q2d(k, m, u, np.zeros(np.shape(u)))), 'm!=0'
    return {
        'jacobi_sum_clenshaw(0.25,-0.25)': (lambda c, u: jacobi_sum_clenshaw(c, 0.25, -0.25, 2 * u - 1), lambda k, u: jacobi(k, 0.25, -0.25, 2 * u - 1), 'jacobi'),
        'jacobi_sum_clenshaw(0.25,0.75)': (lambda c, u: jacobi_sum_clenshaw(c, 0.25, 0.75, 2 * u - 1), lambda k, u: jacobi(k, 0.25, 0.75, 2 * u - 1), 'jacobi'),
        'jacobi_sum_clenshaw(0,4)': (lambda c, u: jacobi_sum_clenshaw(c, 0, 4, x=2 * u - 1), lambda k, u: jacobi(k, 0, 4, 2 * u - 1), 'jacobi'),
        'jacobi_sum_clenshaw(-0.25,-0.75)': (lambda c, u: jacobi_sum_clenshaw(c, -0.25, -0.75, 2 * u - 1), lambda k, u: jacobi(k, -0.25, -0.75, 2 * u - 1), 'jacobi'),   # alpha + beta = -1, alpha != beta
        'clenshaw_qbfs': (lambda c, u: clenshaw_qbfs(c, u * u), lambda k, u: Qbfs(k, u), 'm=0'),
        'compute_z_zprime_Qbfs': (lambda c, u: compute_z_zprime_Qbfs(c, u, u * u)[0], lambda k, u: Qbfs(k, u), 'm=0'),
        'compute_z_zprime_Qcon': (lambda c, u: compute_z_zprime_Qcon(c, u, u * u)[0], lambda k, u: Qcon(k, u), 'jacobi'),
        'compute_z_zprime_Q2d:cm0': (lambda c, u: compute_z_zprime_Q2d(c, [], [], u, np.zeros(np.shape(u)) + T)[0], lambda k, u: Qbfs(k, u), 'm=0'),
        'compute_z_zprime_Q2d:a1': q2d_m(1, False), 'compute_z_zprime_Q2d:b1': q2d_m(1, True),
        'compute_z_zprime_Q2d:a2': q2d_m(2, False), 'compute_z_zprime_Q2d:b3': q2d_m(3, True),
        'compute_z_zprime_Q2d:a4': q2d_m(4, False), 'compute_z_zprime_Q2d:b5': q2d_m(5, True),      # m > 3: the general branch of abc_q2d_clenshaw
        'clenshaw_q2d:m=1': cq2d(1), 'clenshaw_q2d:m=2': cq2d(2),
    }


def fn_of(label):
    return label.split(':')[0].split('(')[0]


KEPT = []       # (routine, array a fast path returned, snapshot taken on return)


def keep(fn, got):
    if isinstance(got, np.ndarray) and got.ndim >= 1:
        KEPT.append((fn, got, got.copy()))
    if len(KEPT) > 3000:
        check_kept()


def check_kept():
    """Class A: an array returned earlier must not have been changed by the calls made since (a result that is a view of a shared
    work array, or of an argument that a later call overwrites, no longer equals the explicit sum)."""
    for fn, got, snap in KEPT:
        CTX.require('alias.result-stable', np.array_equal(got, snap, equal_nan=True), f'C10/{fn}/result-changed-by-later-call',
                    f'{fn}: an array returned earlier was modified by a later call (it no longer equals the explicit sum it was compared with)',
                    {'fn': fn, 'shape': list(got.shape), 'class': f'{fn}:result-stability'})
    KEPT.clear()


def path_check(ctx, label, fast, mode, cobj, c0, u, u0, desc, keytail, f32=False, coefs_as='list', az=''):
    """fast(cobj, u) against the explicit sum of the PRISTINE coefficients c0 over the single-mode routine at the pristine points u0."""
    fn = fn_of(label)
    L = len(c0)
    # round-off of the downward recurrences grows with the number of terms (2-D Q: ~quadratically; measured 1e-13 of scale at 41
    # terms, 8e-13 at 60, 5e-12 at 150): keep three decades of head-room for sums longer than 20 terms
    rt = (RTOL32 if f32 else RTOL) * max(1.0, (L / 20.0) ** 2)
    with guard(fn, desc, lenclass(L), [lenclass(L), 'list-len1'] if L == 1 else [lenclass(L)]):
        got = fast(cobj, u)
        with quiet():
            ref, scale = explicit_sum(c0, lambda k: mode(k, u0))

        def recheck(tr):
            return ok_close(fast(cobj, u if tr is None else tr(u)), ref, scale, rt)
        mon = {'jacobi_sum_clenshaw': 'jacobi_sum_clenshaw', 'clenshaw_qbfs': 'clenshaw_qbfs', 'compute_z_zprime_Qbfs': 'compute_z_zprime_Qbfs.sag',
               'compute_z_zprime_Qcon': 'compute_z_zprime_Qcon.sag', 'compute_z_zprime_Q2d': 'compute_z_zprime_Q2d.sag', 'clenshaw_q2d': 'compute_z_zprime_Q2d.sag'}[fn]
        key = f'C10/{fn}/{keytail}' + ('/f32' if f32 else '')
        if coefs_as not in ('list', None) and not ok_close(got, ref, scale, rt):
            with quiet(), np.errstate(all='ignore'):
                try:
                    if ok_close(fast([float(v) for v in c0], u0), ref, scale, rt):
                        key = f'C10/fast-sum/coefs-as-{coefs_as}/{az}'      # right for the same values as a list of python floats
                except Exception:  # noqa
                    pass
        compare(mon, got, ref, scale, key, f'{fn} != explicit sum of coefficient * mode', desc, rtol=rt, recheck=recheck, arrays=[u])
        keep(fn, got)


def alias_coefs(ctx):
    """Class A: ONE coefficient object (float64 ndarray, strided ndarray, list, tuple, numpy floats) handed to every fast path in turn
    and then to sum_of_2d_modes as the weight vector; each result is judged against the explicit sum with the PRISTINE coefficients,
    so a routine that writes into np.asarray(coefs) is seen by the next call (the first call alone is exact by construction)."""
    from prysm import polynomials as P
    rng = case_rng('alias-coefs')
    PT = paths()
    order = ['clenshaw_qbfs', 'compute_z_zprime_Qbfs', 'compute_z_zprime_Qcon', 'jacobi_sum_clenshaw(0,4)', 'compute_z_zprime_Q2d:cm0', 'compute_z_zprime_Q2d:a1',
             'clenshaw_q2d:m=2', 'compute_z_zprime_Q2d:b3', 'clenshaw_qbfs', 'jacobi_sum_clenshaw(0.25,-0.25)', 'compute_z_zprime_Qbfs', 'clenshaw_q2d:m=1', 'compute_z_zprime_Qcon']
    for L in (1, 2, 5, 9):
        c0 = [float(v) for v in rng.normal(size=L)]
        for cls, cobj, exact in coef_containers(c0, include_low_precision=False):
            u0 = np.array([0.0, 0.21875, 0.53125, 0.84375, 1.0])
            u = u0.copy()
            for step, label in enumerate(order):
                fast, mode, az = PT[label]
                desc = {'fn': fn_of(label), 'path': label, 'len': L, 'coefs_as': cls, 'step': step, 'class': f'{fn_of(label)}:shared-coefficients:{cls}'}
                ctx.case(desc)
                path_check(ctx, label, fast, mode, cobj, c0, u, u0, desc, 'after-call-sharing-coefficients')
            # the same object as the weight vector of sum_of_2d_modes and as lstsq's data companion
            with quiet():
                modes = np.array([np.asarray(PT['clenshaw_qbfs'][1](k, u0.reshape(1, -1) * np.ones((3, 1))), dtype=float) for k in range(L)])
            desc = {'fn': 'sum_of_2d_modes', 'len': L, 'coefs_as': cls, 'class': f'sum_of_2d_modes:shared-coefficients:{cls}'}
            ctx.case(desc)
            with guard('sum_of_2d_modes', desc, cls):
                for _ in range(2):
                    got = P.sum_of_2d_modes(modes, cobj)
                    ref, scale = explicit_sum(c0, lambda k: modes[k])
                    compare('sum_of_2d_modes', got, ref, scale, 'C10/sum_of_2d_modes/after-call-sharing-coefficients',
                            'sum_of_2d_modes != explicit sum with the weights the caller passed (the weight object was handed to earlier calls)', desc)
            ok = np.array_equal(np.asarray(cobj, dtype=float), np.asarray(c0)) and np.array_equal(u, u0)
            ctx.require('alias.arguments-intact', ok, 'C10/arguments-modified/coefficients-or-coordinates',
                        'a fast summation path modified the coefficient vector or the coordinate array it was given', {'len': L, 'coefs_as': cls, 'class': f'arguments-intact:{cls}'})


def container_units(ctx):
    """Class A, containers of the coefficient vector for every fast path (list, tuple, float64 ndarray, strided ndarray, numpy floats,
    float32 ndarray at single-precision tolerance, integer ndarray with integer-valued coefficients)."""
    rng = case_rng('containers')
    PT = paths()
    for L in (1, 4, 9):
        c0 = [float(v) for v in rng.normal(size=L)]
        ci = [float(v) for v in rng.integers(-3, 4, size=L)]
        if not any(ci):
            ci[-1] = 2.0
        u = np.array([0.0, 0.21875, 0.53125, 0.84375, 1.0])
        for label, (fast, mode, az) in PT.items():
            conts = coef_containers(c0) + [('int-ndarray', np.array(ci, dtype=np.int64), True), ('int-ndarray', np.array(ci, dtype=np.int32), True)]
            for cls, cobj, exact in conts:
                cc = ci if cls.startswith('int') else c0
                desc = {'fn': fn_of(label), 'path': label, 'len': L, 'coefs_as': cls, 'dtype': str(getattr(cobj, 'dtype', '')), 'class': f'{fn_of(label)}:coefs-as-{cls}'}
                ctx.case(desc, nontrivial=any(cc))
                path_check(ctx, label, fast, mode, cobj, cc, u, u, desc, lenclass(L), f32=not exact, coefs_as=cls, az=az)


def layout_units(ctx):
    """Class A, memory layout: lstsq and sum_of_2d_modes with data / mode stacks that are Fortran-ordered, transposed views, strided
    slices, windows, lists of such arrays (the contracts judge; a failure that disappears for C-contiguous copies is keyed
    .../memory-layout); the evaluators with non-C-contiguous coordinate arrays."""
    from prysm import polynomials as P
    rng = case_rng('layouts')
    for shape, kind in (((5, 7), 'legendre-xy'), ((6, 6), 'zernike'), ((4, 9), 'q2d')):
        with quiet():
            modes = np.asarray(basis(rng, kind, shape), dtype=float)
        k = modes.shape[0]
        c = rng.normal(size=k)
        synth = np.tensordot(c, modes, axes=(0, 0))
        for ml, mask in (('none', np.zeros(shape, bool)), ('interior-dropouts', rng.random(shape) < 0.15)):
            data = synth.copy()
            data[mask] = np.nan
            cref, ok, cond, A, b = ls_oracle(modes, data)
            if not ok or cond > 1e6:
                ctx.skip('lstsq:rank-deficient-or-ill-conditioned-on-valid-samples')
                continue
            SL = stack_layouts(modes)
            DL = layouts(data)
            for a, (sl, mo) in enumerate(SL):
                for b_, (dl, d) in enumerate(DL):
                    if a and b_ and (a + b_) % 2:
                        continue
                    desc = {'fn': 'lstsq', 'basis': kind, 'shape': shape, 'mask': ml, 'modes_as': sl, 'data_layout': dl, 'class': f'lstsq:layout:{sl}:{dl}'}
                    ctx.case(desc)
                    with guard('lstsq', desc, 'masked' if mask.any() else 'all-finite'):
                        chat = P.lstsq(mo, d)
                        ctx.close('lstsq.recovers-synthesis', chat, c, 'C10/lstsq/recovers-synthesis' + ('' if (sl.endswith('-C') and dl == 'C') else '/memory-layout'),
                                  'lstsq(modes, sum c_k mode_k with non-finite samples) != c', desc, rtol=1e-8 * max(cond, 1.0), atol=1e-300, scale=sup(c))
        for sl, mo in stack_layouts(modes):
            for wl, w in (('ndarray', c.copy()), ('list', list(c)), ('tuple', tuple(c)), ('strided', np.repeat(c, 2)[::2]), ('f32', c.astype(np.float32)),
                          ('int', np.arange(1, k + 1)), ('reversed-view', c[::-1].copy()[::-1])):
                desc = {'fn': 'sum_of_2d_modes', 'basis': kind, 'shape': shape, 'modes_as': sl, 'weights_as': wl, 'class': f'sum_of_2d_modes:layout:{sl}:{wl}'}
                ctx.case(desc)
                with guard('sum_of_2d_modes', desc, sl):
                    P.sum_of_2d_modes(mo, w)
    PT = paths()
    c0 = [float(v) for v in rng.normal(size=6)]
    ub = np.asarray(0.02 + 0.96 * rng.random((3, 4)))
    for lab, uv in layouts(ub) + [('1d-' + l, v) for l, v in layouts(ub.ravel()[:7])]:
        if lab == 'C':
            continue
        for label, (fast, mode, az) in PT.items():
            desc = {'fn': fn_of(label), 'path': label, 'len': 6, 'layout': lab, 'class': f'{fn_of(label)}:layout:{lab}'}
            ctx.case(desc)
            path_check(ctx, label, fast, mode, c0, c0, uv, uv, desc, 'len>=2')


def history_units(ctx, variant):
    """Class B/C/D: memo tables emptied (where possible), optional float32 session under config.precision = 32, then short sums, sums
    of >= 18 and >= 40 coefficients for the same (alpha, beta) / m, then short ones again - every result against the explicit sum."""
    rng = case_rng('history', variant)
    PT = paths()
    u = np.array([0.0, 0.21875, 0.53125, 0.84375, 1.0])
    u32 = u[1:4].astype(np.float32)
    # lengths come back with new coefficients (same work-array shapes, different content)
    lens = [3, 6, 19, 42, 18, 4, 41, 1, 2, 6, 19, 3] if variant != 'f64-long-then-short' else [42, 19, 41, 18, 6, 3, 1, 4, 2, 19, 6, 42]
    HISTORY[0] = variant
    try:
        clear_caches()
        if variant.startswith('f32'):
            L = 6 if 'low' in variant else 42
            c32 = [float(v) for v in rng.normal(size=L)]
            warm32(*[lambda fast=fast: fast(c32, u32) for fast, mode, az in PT.values()], *[lambda mode=mode: mode(L - 1, u32) for fast, mode, az in PT.values()])
        for step, L in enumerate(lens):
            c0 = [float(v) for v in rng.normal(size=L)]
            for label, (fast, mode, az) in PT.items():
                if L > 30 and label in ('compute_z_zprime_Q2d:b1', 'jacobi_sum_clenshaw(0.25,0.75)'):
                    continue
                desc = {'fn': fn_of(label), 'path': label, 'len': L, 'step': step, 'variant': variant, 'class': f'{fn_of(label)}:history:{variant}'}
                ctx.case(desc)
                path_check(ctx, label, fast, mode, c0 if step % 2 else np.array(c0), c0, u, u, desc, lenclass(L))
    finally:
        HISTORY[0] = None


def cfg32_units(ctx):
    """Class C: config.precision = 32 - every fast path with float32 and float64 coordinates, list and float32-array coefficients
    (<= 12 terms), sum_of_2d_modes / lstsq with float32 and float64 data; single-precision tolerances."""
    from prysm import polynomials as P
    rng = case_rng('cfg32')
    PT = paths()
    with precision(32):
        for L in (1, 2, 5, 9, 12):
            c0 = [float(v) for v in rng.normal(size=L)]
            for xcls, mk in (('f32', lambda a: a.astype(np.float32)), ('f64', lambda a: a)):
                u = mk(np.array([0.0, 0.21875, 0.53125, 0.84375, 1.0]))
                for ccls, cobj in (('list', c0), ('ndarray-f32', np.array(c0, dtype=np.float32)), ('ndarray-f64', np.array(c0))):
                    for label, (fast, mode, az) in PT.items():
                        desc = {'fn': fn_of(label), 'path': label, 'len': L, 'x': xcls, 'coefs_as': ccls, 'class': f'{fn_of(label)}:precision=32:{xcls}:{ccls}'}
                        ctx.case(desc)
                        path_check(ctx, label, fast, mode, cobj, c0, u, u.astype(np.float64), desc, lenclass(L), f32=True)
        for shape, kind in (((8, 9), 'zernike'), ((5, 16), 'legendre-xy')):
            with quiet():
                modes = np.asarray(basis(rng, kind, shape), dtype=float)
            k = modes.shape[0]
            c = rng.normal(size=k)
            for dcls, mk in (('f32', lambda a: a.astype(np.float32)), ('f64', lambda a: a)):
                desc = {'fn': 'sum_of_2d_modes', 'basis': kind, 'shape': shape, 'x': dcls, 'class': f'sum_of_2d_modes:precision=32:{dcls}'}
                ctx.case(desc)
                with guard('sum_of_2d_modes', desc, dcls):
                    synth = P.sum_of_2d_modes(mk(modes), mk(c))
                data = np.array(synth, dtype=mk(c).dtype)
                data[rng.random(shape) < 0.1] = np.nan
                desc = {'fn': 'lstsq', 'basis': kind, 'shape': shape, 'x': dcls, 'class': f'lstsq:precision=32:{dcls}'}
                ctx.case(desc)
                with guard('lstsq', desc, 'masked'):
                    P.lstsq(mk(modes), data)


def kwarg_units(ctx):
    """Class C, documented non-default keyword: caller-provided (zero-initialised, as _initialize_alphas makes them) work arrays
    `alphas=` for jacobi_sum_clenshaw, clenshaw_qbfs and clenshaw_q2d; a fresh array per call and one array re-zeroed between calls."""
    from prysm.polynomials import jacobi, Qbfs, Q2d, jacobi_sum_clenshaw
    from prysm.polynomials.qpoly import clenshaw_qbfs, clenshaw_q2d
    rng = case_rng('kwargs')
    for ucls, u in (('1d', np.array([0.0, 0.21875, 0.53125, 0.84375, 1.0])), ('2d', np.asarray(0.02 + 0.96 * rng.random((2, 3)))), ('0d', np.asarray(0.40625))):
        work = None
        for L in (5, 1, 3, 9, 2):
            c0 = [float(v) for v in rng.normal(size=L)]
            if work is None or True:
                work = np.zeros((L, *u.shape))
            desc = {'fn': 'jacobi_sum_clenshaw', 'len': L, 'x': ucls, 'kw': 'alphas', 'class': f'jacobi_sum_clenshaw:alphas=:{ucls}'}
            ctx.case(desc)
            with guard('jacobi_sum_clenshaw', desc, lenclass(L), [lenclass(L)]):
                got = jacobi_sum_clenshaw(c0, 0.25, -0.25, 2 * u - 1, alphas=work)
                with quiet():
                    ref, scale = explicit_sum(c0, lambda k: jacobi(k, 0.25, -0.25, 2 * u - 1))
                compare('jacobi_sum_clenshaw', got, ref, scale, f'C10/jacobi_sum_clenshaw/alphas=/{lenclass(L)}', 'jacobi_sum_clenshaw(alphas=work) != explicit sum', desc)
            work = np.zeros((L, *u.shape))
            desc = {'fn': 'clenshaw_qbfs', 'len': L, 'x': ucls, 'kw': 'alphas', 'class': f'clenshaw_qbfs:alphas=:{ucls}'}
            ctx.case(desc)
            with guard('clenshaw_qbfs', desc, lenclass(L), [lenclass(L)]):
                got = clenshaw_qbfs(c0, u * u, alphas=work)
                with quiet():
                    ref, scale = explicit_sum(c0, lambda k: Qbfs(k, u))
                compare('clenshaw_qbfs', got, ref, scale, f'C10/clenshaw_qbfs/alphas=/{lenclass(L)}', 'clenshaw_qbfs(alphas=work) != explicit sum', desc)
            for m in (1, 2):
                work = np.zeros((L, *u.shape))
                desc = {'fn': 'clenshaw_q2d', 'len': L, 'm': m, 'x': ucls, 'kw': 'alphas', 'class': f'clenshaw_q2d:alphas=:{ucls}'}
                ctx.case(desc)
                with guard('clenshaw_q2d', desc, lenclass(L), ['list-len1'] if L == 1 else []):
                    al = clenshaw_q2d(c0, m, u * u, alphas=work)
                    S = 0.5 * al[0]
                    if m == 1 and L > 3:
                        S = S - 2 / 5 * al[3]
                    with quiet():
                        ref, scale = explicit_sum(c0, lambda k: Q2d(k, m, u, np.zeros(u.shape)))
                    compare('compute_z_zprime_Q2d.sag', S * u ** m, ref, scale, f'C10/clenshaw_q2d/alphas=/{lenclass(L)}', 'clenshaw_q2d(alphas=work) != explicit sum', desc)


# Hardening pass 4, class M: the documented optional work array `alphas=` in hostile states.  DATA established on /repo @ 66c5405 (every state x lengths 1, 2, 3, 4, 7 x
# coordinates 1-D / 2-D / 0-d, result compared bit for bit with the alphas=None call):
#   'all'       the routine assigns every row it later reads (jacobi_sum_clenshaw, clenshaw_qbfs, clenshaw_q2d): ANY content on entry is in domain
#   'sum-plane' the derivative routines (clenshaw_qbfs_der, clenshaw_q2d_der) hand plane 0 to the routine above (any content in domain for the SUM, which is all this
#               property states) but read derivative rows they never assign: the derivative planes are in domain only for an all-zero buffer and for a buffer that the
#               SAME routine filled before with the same shapes (the unassigned rows are still zero) - a dirty buffer or a leading slice of a longer one is excluded and counted
#   'ignored'   jacobi_sum_clenshaw_der does not use the array it is given at all today (allocates its own): every state is in domain for the RETURNED array, the
#               work array is not required to be filled
WORK_DOMAIN = {'jacobi_sum_clenshaw': 'all', 'clenshaw_qbfs': 'all', 'clenshaw_q2d': 'all', 'clenshaw_qbfs_der': 'sum-plane', 'clenshaw_q2d_der': 'sum-plane',
               'jacobi_sum_clenshaw_der': 'ignored'}
WORK_STATE_CLASS = {'zeros': 'zeros', 'nan': 'dirty', 'inf': 'dirty', 'garbage': 'dirty', 'huge': 'dirty', 'reused': 'reused', 'reused-slice-of-longer': 'reused'}


def work_routines():
    """label -> (fn, call(c, u, work) -> raw result, j (derivative planes), surface(raw or work, L, u) -> the sum the documentation locates in the array, mode(k, u))."""
    from prysm.polynomials import jacobi, Qbfs, Q2d, jacobi_sum_clenshaw, jacobi_sum_clenshaw_der
    from prysm.polynomials.qpoly import clenshaw_qbfs, clenshaw_qbfs_der, clenshaw_q2d, clenshaw_q2d_der
    out = {}

    def qb(al, L, u):     # clenshaw_qbfs docstring: the surface is u^2 (1 - u^2) * 2 * (alphas[0] + alphas[1])
        x = u * u
        return (x * (1 - x)) * (2 * (al[0] + al[1]) if L > 1 else 2 * al[0])

    def q2(m):            # clenshaw_q2d docstring: sum(cn Qn) = .5 alphas[0] - 2/5 alphas[3] if m = 1 and N > 2, .5 alphas[0] otherwise (times u^m)
        def surf(al, L, u):
            S = 0.5 * al[0]
            if m == 1 and L > 3:
                S = S - 2 / 5 * al[3]
            return S * u ** m
        return surf
    for (a, b) in ((0.25, -0.25), (0, 4), (-0.25, -0.75)):
        out[f'jacobi_sum_clenshaw({a},{b})'] = ('jacobi_sum_clenshaw', lambda c, u, w, a=a, b=b: jacobi_sum_clenshaw(c, a, b, 2 * u - 1, alphas=w), 0,
                                                 (lambda raw, L, u: raw), (lambda al, L, u: al[0]), lambda k, u, a=a, b=b: jacobi(k, a, b, 2 * u - 1))
    for (a, b, j) in ((0, 4, 1), (0.25, -0.25, 2)):
        out[f'jacobi_sum_clenshaw_der({a},{b},j={j})'] = ('jacobi_sum_clenshaw_der', lambda c, u, w, a=a, b=b, j=j: jacobi_sum_clenshaw_der(c, a, b, 2 * u - 1, j=j, alphas=w), j,
                                                            (lambda raw, L, u: raw[0][0]), None, lambda k, u, a=a, b=b: jacobi(k, a, b, 2 * u - 1))
    out['clenshaw_qbfs'] = ('clenshaw_qbfs', lambda c, u, w: clenshaw_qbfs(c, u * u, alphas=w), 0, (lambda raw, L, u: raw), qb, lambda k, u: Qbfs(k, u))
    for j in (1, 2):
        out[f'clenshaw_qbfs_der(j={j})'] = ('clenshaw_qbfs_der', lambda c, u, w, j=j: clenshaw_qbfs_der(c, u * u, j=j, alphas=w), j,
                                            (lambda raw, L, u: qb(raw[0], L, u)), (lambda al, L, u: qb(al[0], L, u)), lambda k, u: Qbfs(k, u))
    for m in (1, 2, 3):
        out[f'clenshaw_q2d(m={m})'] = ('clenshaw_q2d', lambda c, u, w, m=m: clenshaw_q2d(c, m, u * u, alphas=w), 0, q2(m), q2(m), lambda k, u, m=m: Q2d(k, m, u, np.zeros(np.shape(u))))
    for (m, j) in ((1, 1), (2, 2), (4, 1)):
        out[f'clenshaw_q2d_der(m={m},j={j})'] = ('clenshaw_q2d_der', lambda c, u, w, m=m, j=j: clenshaw_q2d_der(c, m, u * u, j=j, alphas=w), j,
                                                  (lambda raw, L, u, m=m: q2(m)(raw[0], L, u)), (lambda al, L, u, m=m: q2(m)(al[0], L, u)), lambda k, u, m=m: Q2d(k, m, u, np.zeros(np.shape(u))))
    return out


def work_array_units(ctx, part, nparts):
    """Class M: every Clenshaw routine that documents a work / output array `alphas=` is called with that array all-zero, NaN-filled, +inf-filled, filled with garbage
    (what np.empty or a buffer last used by something else holds), with huge garbage, RE-USED for three further evaluations with new coefficients, and as the leading slice
    of a longer array the same routine has filled.  The returned sum AND the sum the documentation locates in the array (alphas[0], ...) must equal the explicit sum of
    coefficient times mode in every state that is in domain (WORK_DOMAIN); for the derivative routines the whole returned array must equal the alphas=None call in the states
    where the derivative planes are in domain."""
    R = work_routines()
    rng0 = case_rng('work-arrays')
    us = (('1d', np.array([0.0, 0.21875, 0.53125, 0.84375, 1.0])), ('2d', np.asarray(0.02 + 0.96 * rng0.random((2, 3)))), ('0d', np.asarray(0.40625)))
    for ri, (label, (fn, call, j, from_raw, from_work, mode)) in enumerate(R.items()):
        if ri % nparts != part:
            continue
        dom = WORK_DOMAIN[fn]
        for ucls, u in us:
            for L in (1, 2, 3, 4, 6, 9):
                rng = case_rng('work-arrays', label, ucls, L)
                shape = ((j + 1,) if j else ()) + (L,) + u.shape
                longer = ((j + 1,) if j else ()) + (L + 3,) + u.shape

                def buffers():
                    yield 'zeros', np.zeros(shape)
                    yield 'nan', np.full(shape, np.nan)
                    yield 'inf', np.full(shape, np.inf)
                    yield 'garbage', rng.normal(size=shape) * 1e3
                    yield 'huge', np.where(rng.random(shape) < 0.5, 1e300, -1e-300)
                    w = np.zeros(shape)
                    yield 'zeros', w
                    for _ in range(3):
                        yield 'reused', w
                    big = np.zeros(longer)
                    with quiet(), np.errstate(all='ignore'):
                        call([float(v) for v in rng.normal(size=L + 3)], u, big)
                    yield 'reused-slice-of-longer', (big[:, :L] if j else big[:L])
                for state, work in buffers():
                    sc = WORK_STATE_CLASS[state]
                    c0 = [float(v) for v in rng.normal(size=L)]
                    desc = {'fn': fn, 'path': label, 'len': L, 'x': ucls, 'arg': 'alphas', 'state': state, 'class': f'{fn}:arg:alphas={state}:{ucls}'}
                    ctx.case(desc)
                    ctx.observe('classM.work-arrays')
                    key = f'C10/{fn}/arg:alphas={sc}'
                    with guard(fn, desc, lenclass(L), [lenclass(L), 'list-len1'] if L == 1 else [lenclass(L)]):
                        with np.errstate(all='ignore'):
                            raw = call(c0 if L % 2 else np.array(c0), u, work)
                            got = from_raw(raw, L, u)
                            held = None if (from_work is None or dom == 'ignored') else from_work(work, L, u)
                        with quiet():
                            ref, scale = explicit_sum(c0, lambda k: mode(k, u))
                            clean = call(c0, u, None) if j else None
                        mon = {'jacobi_sum_clenshaw': 'jacobi_sum_clenshaw', 'clenshaw_qbfs': 'clenshaw_qbfs'}.get(fn, 'classM.work-arrays')
                        compare(mon, got, ref, scale, key + '/returned-sum', f'{fn}(alphas=<work array, {state} on entry>): the returned sum != explicit sum of coefficient * mode', desc)
                        if held is not None:
                            compare('classM.work-arrays', held, ref, scale, key + '/sum-in-work-array',
                                    f'{fn}(alphas=<work array, {state} on entry>): the sum the documentation locates in the work array != explicit sum of coefficient * mode', desc)
                        if j:
                            if dom == 'ignored' or sc == 'zeros' or state == 'reused':
                                compare('classM.work-arrays', raw, clean, max(sup(clean), 1e-300), key + '/derivative-planes',
                                        f'{fn}(alphas=<work array, {state} on entry>) != {fn}(alphas=None) (all planes)', desc)
                            else:
                                ctx.skip(f'{fn}:derivative-planes-with-dirty-work-array(out of domain: rows read but never assigned)')


def ragged_units(ctx):
    """Class M / I: ragged multi-vector coefficient sets for compute_z_zprime_Q2d - a SHORTER vector after a LONGER one (across azimuthal orders, and the sine list after the
    cosine list of the same order), the reverse, and mixed; lengths 0 .. 11 so that both sides of the m = 1, N > 2 branch occur on both sides of a length step.  A work array
    shared between the sweeps must not leak rows of the longer sweep into the shorter one.  Sag against the explicit sum of c * Q2d(n, m)."""
    from prysm.polynomials import Q2d
    from prysm.polynomials.qpoly import compute_z_zprime_Q2d
    rng = case_rng('ragged')
    u = np.array([0.0, 0.21875, 0.53125, 0.84375, 1.0])
    t = np.array([0.5, 1.75, 3.0, 5.5, 0.0])
    sets = [(0, [7, 3], [7, 3]), (3, [6, 4, 2], [2, 4, 6]), (0, [3, 7], [7, 3]), (10, [9, 1, 5, 2], [0, 8, 0, 3]), (0, [5], [2]), (0, [2], [5]), (2, [8, 4], [4, 8]), (1, [4, 3], [3, 2]),
            (0, [11, 4], [4, 1]), (4, [4, 4, 4], [4, 4, 4]), (0, [6, 0, 3], [0, 6, 2]), (0, [4, 2], [3, 4])]
    for _ in range(ctx.pick(6, 80)):
        k = int(rng.integers(1, 5))
        sets.append((int(rng.integers(0, 6)), [int(v) for v in rng.integers(0, 10, size=k)], [int(v) for v in rng.integers(0, 10, size=k)]))
    for n0, la, lb in sets:
        seq = [v for pair in zip(la, lb) for v in pair if v]        # order in which the routine sweeps the vectors
        down = any(q < p for p, q in zip(seq, seq[1:]))
        up = any(q > p for p, q in zip(seq, seq[1:]))
        rl = 'mixed' if (down and up) else 'shorter-after-longer' if down else 'longer-after-shorter' if up else 'equal'
        cm0 = [float(v) for v in rng.normal(size=n0)]
        ams = [[float(v) for v in rng.normal(size=n)] for n in la]
        bms = [[float(v) for v in rng.normal(size=n)] for n in lb]
        desc = {'fn': 'compute_z_zprime_Q2d', 'lens': [n0, la, lb], 'ragged': rl, 'class': f'compute_z_zprime_Q2d:ragged:{rl}'}
        ctx.case(desc, nontrivial=bool(seq or n0))
        ctx.observe('classM.ragged-coefficient-sets')
        with guard('compute_z_zprime_Q2d', desc, f'ragged:{rl}'):
            for rep in range(2):
                z = compute_z_zprime_Q2d(list(cm0), [np.array(a) if rep else list(a) for a in ams], [list(b) for b in bms], u, t)[0]
                with quiet():
                    tot, scale = np.zeros(u.shape), 0.0
                    terms = [(n, 0, c) for n, c in enumerate(cm0)] + [(n, m + 1, c) for m, a in enumerate(ams) for n, c in enumerate(a)] + [(n, -(m + 1), c) for m, b in enumerate(bms) for n, c in enumerate(b)]
                    for n, m, c in terms:
                        md = np.asarray(Q2d(n, m, u, t), dtype=float)
                        tot = tot + c * md
                        scale += abs(c) * sup(md)
                compare('compute_z_zprime_Q2d.sag', z, tot, max(scale, 1e-300), f'C10/compute_z_zprime_Q2d/ragged:{rl}',
                        'compute_z_zprime_Q2d sag != explicit sum of c * Q2d(n, m) for coefficient vectors of unequal lengths', desc)


def high_units(ctx, lens):
    """Class D: sums far longer than any plausible internal table."""
    rng = case_rng('high')
    PT = paths()
    u = np.array([0.0, 0.21875, 0.53125, 0.84375, 1.0])
    for L in lens:
        c0 = [float(v) for v in rng.normal(size=L)]
        sp = [0.0] * L
        sp[-1] = 1.5
        sp[L // 2] = -0.75
        for label, (fast, mode, az) in PT.items():
            if L > 60 and label.startswith('compute_z_zprime_Q2d:b'):
                continue
            for cl, cc in (('dense', c0), ('sparse', sp)):
                desc = {'fn': fn_of(label), 'path': label, 'len': L, 'coefs': cl, 'class': f'{fn_of(label)}:long-sum:{cl}'}
                ctx.case(desc)
                path_check(ctx, label, fast, mode, np.array(cc) if L % 2 else cc, cc, u, u, desc, lenclass(L))


def repeat_lstsq(ctx):
    """Class A for lstsq / sum_of_2d_modes: the same mode stack, data array and coefficient vector objects used again and again
    (fit, synthesise, fit the synthesis, ...); arguments must be left intact; every call is judged by the contracts."""
    from prysm import polynomials as P
    rng = case_rng('repeat-lstsq')
    for shape, kind in (((8, 9), 'zernike'), ((16, 1), 'single'), ((2, 40), 'legendre-xy'), ((1, 24), 'legendre-xy'), ((12, 12), 'q2d')):
        with quiet():
            modes = np.asarray(basis(rng, kind, shape), dtype=float)
        k = modes.shape[0]
        c = rng.normal(size=k)
        data = np.tensordot(c, modes, axes=(0, 0))
        data[rng.random(shape) < 0.1] = np.nan
        m0, d0 = modes.copy(), data.copy()
        cref, ok, cond, A, b = ls_oracle(modes, data)
        desc = {'fn': 'lstsq', 'basis': kind, 'shape': shape, 'class': f'lstsq:repeat:{"1xN" if 1 in shape else "2d"}'}
        ctx.case(desc)
        if not ok or cond > 1e6:
            ctx.skip('lstsq:rank-deficient-or-ill-conditioned-on-valid-samples')
            continue
        with guard('lstsq', desc, 'masked'):
            for it in range(3):
                chat = P.lstsq(modes, data)
                ctx.close('lstsq.recovers-synthesis', chat, c, 'C10/lstsq/recovers-synthesis/repeated-call', 'lstsq on the same objects again != c', desc,
                          rtol=1e-8 * max(cond, 1.0), atol=1e-300, scale=sup(c))
                back = P.sum_of_2d_modes(modes, chat)
                P.lstsq(modes, back)
            ctx.require('alias.arguments-intact', np.array_equal(modes, m0) and np.array_equal(data, d0, equal_nan=True), 'C10/arguments-modified/lstsq-or-sum_of_2d_modes',
                        'lstsq / sum_of_2d_modes modified the mode stack or the data array it was given', desc)


# ------------------------------------------------------------------------------------------ hardening pass 2 (HARDENING2.md E, F; A for the array arguments)
BAD_CLASSES = ('none', 'one', 'few', 'few:just-below-size//16', 'size//16', 'many')


def bad_mask(rng, shape, cls):
    """Mask of non-finite samples of a class: none / exactly one / few (2-3) / just below 1/16 of the samples / exactly size//16 / ~20 %."""
    n = int(np.prod(shape))
    k = {'none': 0, 'one': 1, 'few': min(3, max(2, n // 16 - 1)), 'few:just-below-size//16': max(1, n // 16 - 1), 'size//16': max(1, n // 16), 'many': max(2, n // 5)}[cls]
    m = np.zeros(n, bool)
    if k:
        m[rng.choice(n, size=k, replace=False)] = True
    return m.reshape(shape)


def alias_modes(ctx):
    """Class A for every array argument of lstsq / sum_of_2d_modes / sum_of_2d_modes_backprop: ONE mode-stack object (float64 C ndarray,
    Fortran ndarray, flattened (k, N) ndarray with 1-D data, view into a larger array, list of arrays) is fitted with none / one / few / many
    non-finite samples and then re-used: the later synthesis, fit and backprop with the same object are judged against the PRISTINE stack
    (snapshot taken before the first call), and the argument snapshots must be intact."""
    from prysm import polynomials as P
    rng = case_rng('alias-modes')
    fills = [np.nan, np.inf, -np.inf]
    shapes = (((12, 12), 'zernike'), ((8, 9), 'legendre-xy'), ((16, 17), 'q2d'), ((1, 64), 'legendre-xy'), ((40, 2), 'single'), ((9, 8), 'zernike'))
    shapes += ctx.pick((), (((33, 32), 'zernike'), ((24, 17), 'q2d'), ((64, 65), 'legendre-xy'), ((3, 200), 'legendre-xy'), ((128, 4), 'single'), ((21, 21), 'zernike'), ((16, 16), 'legendre-xy'), ((10, 7), 'q2d')))
    for shape, kind in shapes:
        with quiet():
            base = np.asarray(basis(rng, kind, shape), dtype=float)
        k = base.shape[0]
        forms = [('ndarray-C', lambda: base.copy(), False), ('ndarray-F', lambda: np.asfortranarray(base).copy(order='F'), False),
                 ('ndarray-flat(k,N)', lambda: base.reshape(k, -1).copy(), True),
                 ('view-of-larger-array', lambda: np.concatenate([base, base[:1]])[:k], False), ('list-of-arrays', lambda: [m.copy() for m in base], False)]
        for fi, (fl, mk, flat) in enumerate(forms):
            for bi, bc in enumerate(BAD_CLASSES):
                if ctx.quick and (fi + bi) % 2 and fl not in ('ndarray-C', 'ndarray-flat(k,N)'):
                    continue
                modes = mk()
                m0 = np.array(modes, dtype=float, copy=True)              # pristine values
                c = rng.normal(size=k)
                w = c.copy()
                synth = np.tensordot(c, m0, axes=(0, 0))
                mask = bad_mask(rng, synth.shape, bc)
                data = synth.copy()
                data[mask] = np.array(fills)[rng.integers(0, 3, synth.shape)][mask]
                d0 = data.copy()
                desc = {'fn': 'lstsq', 'basis': kind, 'shape': list(shape), 'modes_as': fl, 'bad': bc, 'nbad': int(mask.sum()), 'class': f'lstsq:shared-modes:{fl}:{bc}'}
                ctx.case(desc)
                ctx.observe('classA.array-arguments-reused')
                cref, ok, cond, A, b = ls_oracle(m0, data)
                if not ok or cond > 1e6:
                    ctx.skip('lstsq:rank-deficient-or-ill-conditioned-on-valid-samples')
                    continue
                sc = float(np.sum(np.abs(c) * np.abs(m0.reshape(k, -1)).max(axis=1)))

                def later(lab):
                    """the later calls with the SAME objects, judged against the pristine stack; one key per class of the fit that preceded them"""
                    key = f'C10/lstsq/modes-reused-after-fit/bad-samples:{lab.split(":")[0]}'
                    got = P.sum_of_2d_modes(modes, w)
                    compare('sum_of_2d_modes', got, synth, sc, key, 'sum_of_2d_modes(basis, c) after lstsq(basis, data) with the same basis object != explicit sum over the basis the caller built', desc)
                    if not flat:           # the adjoint is documented for stacks of 2-D modes (tensordot over the two trailing axes)
                        bar = rng.normal(size=synth.shape)
                        b0 = bar.copy()
                        gb = P.sum_of_2d_modes_backprop(modes, bar)
                        rb = np.array([float(np.sum(m0[i] * b0)) for i in range(k)])
                        compare('sum_of_2d_modes', gb, rb, float(np.sum(np.abs(m0).reshape(k, -1) * np.abs(b0).reshape(1, -1), axis=1).max()), key,
                                'sum_of_2d_modes_backprop(basis, databar) with the re-used basis object != <mode_k, databar> over the basis the caller built', desc)
                        ctx.require('alias.arguments-intact', np.array_equal(bar, b0), 'C10/arguments-modified/sum_of_2d_modes_backprop/databar',
                                    'sum_of_2d_modes_backprop modified the array of upstream gradients the caller passed', desc)
                        got = P.sum_of_2d_modes(modes, w)
                        compare('sum_of_2d_modes', got, synth, sc, 'C10/sum_of_2d_modes/modes-reused-after-backprop', 'sum_of_2d_modes(basis, c) after sum_of_2d_modes_backprop with the same objects != explicit sum', desc)
                    ctx.require('alias.arguments-intact', np.array_equal(np.asarray(modes, dtype=float), m0), f'C10/arguments-modified/lstsq/modes/bad-samples:{lab.split(":")[0]}',
                                'lstsq (or the synthesis / backprop that followed) modified the mode stack the caller passed', desc)
                with guard('lstsq', desc, 'masked' if mask.any() else 'all-finite'):
                    chat = P.lstsq(modes, data)
                    ctx.close('lstsq.recovers-synthesis', chat, c, f'C10/lstsq/recovers-synthesis/bad-samples:{bc.split(":")[0]}', 'lstsq(modes, sum c_k mode_k with non-finite samples) != c',
                              desc, rtol=1e-8 * max(cond, 1.0), atol=1e-300, scale=sup(c))
                    later(bc)
                    if not np.array_equal(np.asarray(modes, dtype=float), m0):
                        continue            # reported; a second history on an already modified stack adds nothing
                    bc2 = BAD_CLASSES[(bi + 2) % len(BAD_CLASSES)]
                    mask2 = bad_mask(rng, synth.shape, bc2)
                    d2 = synth.copy()
                    d2[mask2] = np.nan
                    c2ref, ok2, cond2, _, _ = ls_oracle(m0, d2)
                    chat2 = P.lstsq(modes, d2)
                    if ok2 and cond2 <= 1e6:
                        ctx.close('lstsq.recovers-synthesis', chat2, c, f'C10/lstsq/recovers-synthesis/bad-samples:{bc2.split(":")[0]}',
                                  'a second fit with the same basis object (other samples missing) != c', desc, rtol=1e-8 * max(cond2, 1.0), atol=1e-300, scale=sup(c))
                    else:
                        ctx.skip('lstsq:rank-deficient-or-ill-conditioned-on-valid-samples')
                    later(bc2)
                    ctx.require('alias.arguments-intact', np.array_equal(data, d0, equal_nan=True) and np.array_equal(w, c) and np.array_equal(d2[~mask2], synth[~mask2]),
                                'C10/arguments-modified/lstsq/data-or-weights', 'lstsq / sum_of_2d_modes modified the data array or the weight vector the caller passed', desc)


def int_basis(shape):
    ny, nx = shape
    X, Y = np.meshgrid(np.arange(nx) - nx // 2, np.arange(ny) - ny // 2)
    return np.array([np.ones_like(X), X, Y, X * Y, X * X - 2 * Y, Y * Y + X])


def form_units(ctx):
    """Class E for sum_of_2d_modes / lstsq / sum_of_2d_modes_backprop: dtype kinds and containers the current tree accepts as the same input
    (see the class E table in vp/polyhard.py and the contracts' domain tests): weights bool / uint8 / int32 / int64 / float32 / range / tuple /
    numpy scalars; mode stacks list / tuple / float32 / complex128; data int64 / int32 (integer-valued) and masked arrays; integer mode stacks
    for lstsq.  The contracts judge every call against the explicit sum / the least-squares oracle; the key carries form:<argument>=<form>."""
    from prysm import polynomials as P
    rng = case_rng('forms')
    try:
        for shape in ((6, 7), (5, 5), (1, 12)):
            Mi = int_basis(shape)
            k = Mi.shape[0]
            M = Mi.astype(float)
            wi = rng.integers(-3, 4, size=k)
            wi[0] = 2
            wforms = [('bool', np.array([True, False, True, True, False, True])), ('uint8', np.abs(wi).astype(np.uint8)), ('int32', wi.astype(np.int32)), ('int64', wi.astype(np.int64)),
                      ('float32', wi.astype(np.float32) / 4), ('range', range(1, k + 1)), ('tuple-of-ints', tuple(int(v) for v in wi)), ('list-of-numpy-floats', [np.float64(v) / 8 for v in wi]),
                      ('list-of-bools', [bool(v % 2) for v in wi])]
            for wl, w in wforms:
                for ml, mo in (('ndarray-f64', M), ('tuple', tuple(M)), ('list', list(M)), ('complex128', M * (1 + 0.5j)), ('float32', M.astype(np.float32))):
                    FORM[0] = f'form:weights={wl}' if ml == 'ndarray-f64' else f'form:modes={ml}'
                    desc = {'fn': 'sum_of_2d_modes', 'shape': list(shape), 'weights_as': wl, 'modes_as': ml, 'class': f'sum_of_2d_modes:form:weights={wl}:modes={ml}'}
                    ctx.case(desc)
                    ctx.observe('classE.argument-forms')
                    with guard('sum_of_2d_modes', desc, FORM[0]):
                        P.sum_of_2d_modes(mo, w)
            FORM[0] = 'form:weights=complex128'
            desc = {'fn': 'sum_of_2d_modes', 'shape': list(shape), 'weights_as': 'complex128', 'modes_as': 'complex128', 'class': 'sum_of_2d_modes:form:weights=complex128:modes=complex128'}
            ctx.case(desc)
            with guard('sum_of_2d_modes', desc, FORM[0]):
                P.sum_of_2d_modes(M * (1 - 0.25j), wi * (0.5 + 1j))
            # lstsq: integer-valued synthesis (exact in every dtype)
            c = wi.astype(float)
            di = np.tensordot(wi, Mi, axes=(0, 0))
            for dl, d in (('int64', di.astype(np.int64)), ('int32', di.astype(np.int32)), ('float64', di.astype(float)), ('float32', di.astype(np.float32)),
                          ('masked-array', np.ma.masked_invalid(np.where(rng.random(shape) < 0.1, np.nan, di.astype(float))))):
                for ml, mo in (('ndarray-f64', M), ('ndarray-int64', Mi.astype(np.int64)), ('ndarray-int32', Mi.astype(np.int32)), ('tuple', tuple(M)), ('list-of-int-arrays', list(Mi)),
                               ('float32', M.astype(np.float32))):
                    FORM[0] = f'form:data={dl}' if ml == 'ndarray-f64' else f'form:modes={ml}'
                    desc = {'fn': 'lstsq', 'shape': list(shape), 'data_as': dl, 'modes_as': ml, 'class': f'lstsq:form:data={dl}:modes={ml}'}
                    ctx.case(desc)
                    cref, ok, cond, A, b = ls_oracle(M, np.asarray(d, dtype=float))
                    if not ok or cond > 1e6:
                        ctx.skip('lstsq:rank-deficient-or-ill-conditioned-on-valid-samples')
                        continue
                    with guard('lstsq', desc, FORM[0]):
                        chat = P.lstsq(mo, d)
                        f32 = 'float32' in (dl, ml)
                        ctx.close('lstsq.recovers-synthesis', chat, c, f'C10/lstsq/recovers-synthesis/{FORM[0]}', 'lstsq(modes, data) != c for an accepted dtype / container form of the same values',
                                  desc, rtol=(2e-4 if f32 else 1e-8) * max(cond, 1.0), atol=1e-300, scale=sup(c))
            # integer mode stacks with data that are NOT integer-valued (non-integer coefficients), and with a few non-finite samples
            cf = wi.astype(float) + np.array([0.25, -0.5, 0.125, 0.75, -0.375, 0.5])[:k]
            df = np.tensordot(cf, M, axes=(0, 0))
            dn = df.copy()
            dn.flat[[1, df.size // 2]] = [np.nan, np.inf]
            for dl, d in (('float64-noninteger', df), ('float64-noninteger+nan', dn)):
                for ml, mo in (('ndarray-int64', Mi.astype(np.int64)), ('ndarray-int32', Mi.astype(np.int32)), ('list-of-int-arrays', list(Mi))):
                    FORM[0] = f'form:modes={ml}'
                    desc = {'fn': 'lstsq', 'shape': list(shape), 'data_as': dl, 'modes_as': ml, 'class': f'lstsq:form:data={dl}:modes={ml}'}
                    ctx.case(desc)
                    cref, ok, cond, A, b = ls_oracle(M, d)
                    if not ok or cond > 1e6:
                        ctx.skip('lstsq:rank-deficient-or-ill-conditioned-on-valid-samples')
                        continue
                    with guard('lstsq', desc, FORM[0]):
                        ctx.close('lstsq.recovers-synthesis', P.lstsq(mo, d), cf, f'C10/lstsq/recovers-synthesis/{FORM[0]}', 'lstsq(integer-typed modes, float data) != c', desc,
                                  rtol=1e-8 * max(cond, 1.0), atol=1e-300, scale=sup(cf))
            FORM[0] = 'form:databar=int64'
            desc = {'fn': 'sum_of_2d_modes_backprop', 'shape': list(shape), 'class': 'sum_of_2d_modes_backprop:form'}
            ctx.case(desc)
            with guard('sum_of_2d_modes_backprop', desc, FORM[0]):
                for ml, mo in (('ndarray-f64', M), ('list', list(M)), ('ndarray-int64', Mi)):
                    for dl, d in (('float64', di.astype(float)), ('int64', di)):
                        got = P.sum_of_2d_modes_backprop(mo, d)
                        ref = np.array([float(np.sum(M[i] * di)) for i in range(k)])
                        compare('sum_of_2d_modes', got, ref, sup(ref), f'C10/sum_of_2d_modes_backprop/form:modes={ml}:databar={dl}', 'sum_of_2d_modes_backprop != <mode_k, databar>', desc)
    finally:
        FORM[0] = None


JAC_LINES = [(-0.25, -0.75), (-0.75, -0.25), (-0.125, -0.875), (-0.5, -0.5), (0.75, -0.75), (-0.75, 0.75), (-0.25, 0.25), (0.25, -0.25)]


def pline(al, be):
    s = float(al) + float(be)
    return ('a+b=-1' if s == -1 else 'a+b=0' if s == 0 else 'general') + (':a!=b' if float(al) != float(be) else ':a=b')


def param_form_units(ctx):
    """Class E for the Clenshaw sums: the standing parameter lines alpha + beta = -1 and = 0 with alpha != beta (the n = 0 special case of the
    recurrence coefficients), shape parameters as python float / numpy float64 / numpy float32 (single-precision class) / python int / numpy
    int64, the coordinate as python float / python int / numpy float64 scalar / 0-d array, m of clenshaw_q2d as numpy integers, keyword
    alphas=None explicit vs omitted, Q2d_nm_c_to_a_b with every container form of both arguments."""
    from prysm.polynomials import jacobi, jacobi_sum_clenshaw, Qbfs, Q2d
    from prysm.polynomials.qpoly import clenshaw_qbfs, clenshaw_q2d, compute_z_zprime_Qbfs, compute_z_zprime_Qcon, compute_z_zprime_Q2d, Q2d_nm_c_to_a_b
    rng = case_rng('param-forms')
    x = np.array([-1.0, -0.5625, 0.0625, 0.71875, 1.0])
    for al, be in JAC_LINES:
        for L in (1, 2, 3, 6, 19):
            c0 = [float(v) for v in rng.normal(size=L)]
            for fl, mk, exact in PARAM_FORMS:
                desc = {'fn': 'jacobi_sum_clenshaw', 'alpha': al, 'beta': be, 'line': pline(al, be), 'len': L, 'params_as': fl, 'class': f'jacobi_sum_clenshaw:{pline(al, be)}:params-as-{fl}'}
                ctx.case(desc)
                f32 = not exact
                if f32 and L > 12:
                    continue
                with guard('jacobi_sum_clenshaw', desc, lenclass(L), [lenclass(L)]):
                    got = jacobi_sum_clenshaw(c0 if L % 2 else np.array(c0), mk(al), mk(be), x)
                    with quiet():
                        ref, scale = explicit_sum(c0, lambda k: jacobi(k, al, be, x))
                    compare_form('jacobi_sum_clenshaw', got, ref, scale, f'C10/jacobi_sum_clenshaw/{lenclass(L)}' + ('/f32' if f32 else ''), '' if fl == 'pyfloat' else f'alpha,beta={fl}',
                                 lambda: jacobi_sum_clenshaw(c0, float(al), float(be), x), f'jacobi_sum_clenshaw != explicit sum of s_n * jacobi(n) on the parameter line {pline(al, be)}',
                                 desc, rtol=RTOL32 if f32 else RTOL)
    for al, be in ((0, 4), (1, 0), (0, 0), (2, 1)):
        c0 = [float(v) for v in rng.normal(size=6)]
        for fl, mk, exact in INT_PARAM_FORMS + PARAM_FORMS[1:]:
            desc = {'fn': 'jacobi_sum_clenshaw', 'alpha': al, 'beta': be, 'params_as': fl, 'class': f'jacobi_sum_clenshaw:integer-parameters:params-as-{fl}'}
            ctx.case(desc)
            with guard('jacobi_sum_clenshaw', desc, 'len>=2'):
                got = jacobi_sum_clenshaw(c0, mk(al), mk(be), x)
                with quiet():
                    ref, scale = explicit_sum(c0, lambda k: jacobi(k, float(al), float(be), x))
                compare_form('jacobi_sum_clenshaw', got, ref, scale, 'C10/jacobi_sum_clenshaw/len>=2' + ('' if exact else '/f32'), f'alpha,beta={fl}',
                             lambda: jacobi_sum_clenshaw(c0, float(al), float(be), x), 'jacobi_sum_clenshaw != explicit sum for integer-valued parameters', desc, rtol=RTOL if exact else RTOL32)
    # coordinate forms of the Clenshaw routines and evaluators: python float / python int / numpy float64 scalar / 0-d array
    PT = paths()
    for xl, u in (('pyfloat', 0.40625), ('pyint:1', 1), ('pyint:0', 0), ('npfloat64', np.float64(0.71875)), ('0d', np.array(0.21875))):
        for L in (1, 4, 9):
            c0 = [float(v) for v in rng.normal(size=L)]
            uf = np.asarray(float(u))
            desc = {'fn': 'jacobi_sum_clenshaw', 'len': L, 'x_as': xl, 'class': f'jacobi_sum_clenshaw:x-as-{xl}'}
            ctx.case(desc)
            with guard('jacobi_sum_clenshaw', desc, lenclass(L), [lenclass(L)]):
                got = jacobi_sum_clenshaw(c0, -0.25, -0.75, 2 * u - 1)
                with quiet():
                    ref, scale = explicit_sum(c0, lambda k: jacobi(k, -0.25, -0.75, 2 * uf - 1))
                compare_form('jacobi_sum_clenshaw', np.asarray(got), ref, scale, f'C10/jacobi_sum_clenshaw/{lenclass(L)}', f'x={xl.split(":")[0]}',
                             lambda: jacobi_sum_clenshaw(c0, -0.25, -0.75, np.array([2 * float(u) - 1]))[0], 'jacobi_sum_clenshaw != explicit sum for a scalar coordinate', desc)
            if xl.startswith('pyint'):
                continue            # the Q evaluators allocate their work arrays from the coordinate: python int coordinates are out of domain there (class E table)
            desc = {'fn': 'clenshaw_qbfs', 'len': L, 'x_as': xl, 'class': f'clenshaw_qbfs:x-as-{xl}'}
            ctx.case(desc)
            with guard('clenshaw_qbfs', desc, lenclass(L), [lenclass(L)]):
                got = clenshaw_qbfs(c0, u * u)
                with quiet():
                    ref, scale = explicit_sum(c0, lambda k: Qbfs(k, uf))
                ua = np.array([float(u)])
                compare_form('clenshaw_qbfs', np.asarray(got), ref, scale, f'C10/clenshaw_qbfs/{lenclass(L)}', f'usq={xl}', lambda: clenshaw_qbfs(c0, ua * ua)[0],
                             'clenshaw_qbfs != explicit sum for a scalar coordinate', desc)
                got = compute_z_zprime_Qbfs(c0, u, u * u)[0]
                compare_form('compute_z_zprime_Qbfs.sag', np.asarray(got), ref, scale, f'C10/compute_z_zprime_Qbfs/{lenclass(L)}', f'u={xl}', lambda: compute_z_zprime_Qbfs(c0, ua, ua * ua)[0][0],
                             'compute_z_zprime_Qbfs sag != explicit sum for a scalar coordinate', desc)
                got = compute_z_zprime_Qcon(c0, u, u * u)[0]
                with quiet():
                    ref, scale = explicit_sum(c0, lambda k: PT['compute_z_zprime_Qcon'][1](k, uf))
                compare_form('compute_z_zprime_Qcon.sag', np.asarray(got), ref, scale, f'C10/compute_z_zprime_Qcon/{lenclass(L)}', f'u={xl}', lambda: compute_z_zprime_Qcon(c0, ua, ua * ua)[0][0],
                             'compute_z_zprime_Qcon sag != explicit sum for a scalar coordinate', desc)
    # m of clenshaw_q2d as numpy integers; alphas=None explicit
    u = np.array([0.0, 0.21875, 0.53125, 0.84375, 1.0])
    for L in (1, 4, 9):
        c0 = [float(v) for v in rng.normal(size=L)]
        for ml, mk in (('int64', np.int64), ('int32', np.int32), ('uint32', np.uint32), ('intp', np.intp)):
            for m in (1, 2, 5):
                desc = {'fn': 'clenshaw_q2d', 'len': L, 'm': m, 'm_as': ml, 'class': f'clenshaw_q2d:m-as-{ml}'}
                ctx.case(desc)
                with guard('clenshaw_q2d', desc, lenclass(L), ['list-len1'] if L == 1 else []):
                    al = clenshaw_q2d(c0, mk(m), u * u, alphas=None)
                    S = 0.5 * al[0]
                    if m == 1 and L > 3:
                        S = S - 2 / 5 * al[3]
                    with quiet():
                        ref, scale = explicit_sum(c0, lambda k: Q2d(k, m, u, np.zeros(u.shape)))
                    def canon(m=m):
                        a2 = clenshaw_q2d(c0, m, u * u)
                        return (0.5 * a2[0] - (2 / 5 * a2[3] if (m == 1 and L > 3) else 0)) * u ** m
                    compare_form('compute_z_zprime_Q2d.sag', S * u ** m, ref, scale, f'C10/clenshaw_q2d/{lenclass(L)}', f'm={ml}', canon, 'clenshaw_q2d(m as a numpy integer) != explicit sum', desc)
        desc = {'fn': 'jacobi_sum_clenshaw', 'len': L, 'kw': 'alphas=None', 'class': 'jacobi_sum_clenshaw:alphas=None-explicit'}
        ctx.case(desc)
        with guard('jacobi_sum_clenshaw', desc, lenclass(L), [lenclass(L)]):
            a_ = jacobi_sum_clenshaw(c0, 0.25, -0.25, 2 * u - 1, alphas=np.zeros((L, 5)))       # an explicit work array first,
            b_ = jacobi_sum_clenshaw(c0, 0.25, -0.25, 2 * u - 1, alphas=None)                    # then the documented default explicitly,
            c_ = jacobi_sum_clenshaw(c0, 0.25, -0.25, 2 * u - 1)                                 # then omitted
            with quiet():
                ref, scale = explicit_sum(c0, lambda k: jacobi(k, 0.25, -0.25, 2 * u - 1))
            for lab, g in (('explicit-array', a_), ('None', b_), ('omitted', c_)):
                compare('jacobi_sum_clenshaw', g, ref, scale, f'C10/jacobi_sum_clenshaw/alphas=/{lenclass(L)}', f'jacobi_sum_clenshaw(alphas {lab}) != explicit sum', desc)
            q1 = clenshaw_qbfs(c0, u * u, alphas=np.zeros((L, 5)))
            q2 = clenshaw_qbfs(c0, u * u, alphas=None)
            q3 = clenshaw_qbfs(c0, u * u)
            with quiet():
                ref, scale = explicit_sum(c0, lambda k: Qbfs(k, u))
            for lab, g in (('explicit-array', q1), ('None', q2), ('omitted', q3)):
                compare('clenshaw_qbfs', g, ref, scale, f'C10/clenshaw_qbfs/alphas=/{lenclass(L)}', f'clenshaw_qbfs(alphas {lab}) != explicit sum', desc)
    # the coefficient re-packing helper with every container form of both arguments
    nms = [(0, 0), (2, 0), (0, 1), (1, 1), (0, -1), (2, -1), (0, 2), (1, -2), (0, -2)]
    cf = [float(v) for v in rng.normal(size=len(nms))]
    exp = expected_packing(nms, cf)
    tt = rng.uniform(0, 6.28, 5)
    with quiet():
        tot, scale = None, 0.0
        for (n, m), cc in zip(nms, cf):
            md = np.asarray(Q2d(n, m, u, tt), dtype=float)
            tot = cc * md if tot is None else tot + cc * md
            scale += abs(cc) * sup(md)
    conts = term_containers(nms) + [('generator', None)]
    for tl, tc in conts:
        for cl, cm in (('list', lambda: list(cf)), ('ndarray-f64', lambda: np.array(cf)), ('tuple', lambda: tuple(cf)), ('generator', lambda: (v for v in cf))):
            desc = {'fn': 'Q2d_nm_c_to_a_b', 'terms_as': tl, 'coefs_as': cl, 'class': f'Q2d_nm_c_to_a_b:terms-as-{tl}:coefs-as-{cl}'}
            ctx.case(desc)
            with guard('Q2d_nm_c_to_a_b', desc, 'regular'):
                packed = Q2d_nm_c_to_a_b((e for e in nms) if tl == 'generator' else tc, cm())
                ok = ([float(v) for v in packed[0]] == exp[0] and [[float(q) for q in v] for v in packed[1]] == exp[1] and [[float(q) for q in v] for v in packed[2]] == exp[2])
                ctx.require('Q2d_nm_c_to_a_b.structure', ok, f'C10/Q2d_nm_c_to_a_b/structure/form:nms={tl}:coefs={cl}',
                            'Q2d_nm_c_to_a_b does not return the documented dense per-m lists for an accepted container form', desc)
                z = compute_z_zprime_Q2d(packed[0], packed[1], packed[2], u, tt)[0]
                compare('Q2d_nm_c_to_a_b->compute_z_zprime_Q2d', z, tot, scale, f'C10/compute_z_zprime_Q2d/regular/form:nms={tl}:coefs={cl}',
                        'compute_z_zprime_Q2d(*Q2d_nm_c_to_a_b(...)) != explicit sum of c * Q2d(n, m)', desc)


def very_long_units(ctx, L):
    """Class D in the quick tier too: sums whose highest order is at / beyond 171 (where n! leaves double precision)."""
    rng = case_rng('very-long', L)
    PT = paths()
    u = np.array([0.0, 0.21875, 0.84375, 1.0])
    c0 = [float(v) for v in rng.normal(size=L)]
    sp = [0.0] * L
    sp[-1] = 1.5
    sp[171 if L > 172 else L // 2] = -0.75
    heavy = L > 260
    for label, (fast, mode, az) in PT.items():
        if L > 201 and fn_of(label) in ('compute_z_zprime_Q2d', 'clenshaw_q2d') and label != 'compute_z_zprime_Q2d:cm0':
            # implementation limit of the current tree, not a numerical one: change_of_basis_Q2d_to_Pnm reads f_q2d / g_q2d (mutually recursive memoised
            # functions) from the TOP order down, so ~250 radial coefficients exceed the interpreter's recursion limit while the tables are cold
            ctx.skip('2D-Q fast sums of > 201 radial coefficients (RecursionError of the memoised f/g tables when cold: implementation limit, excluded and counted)')
            continue
        if heavy and label not in ('jacobi_sum_clenshaw(0.25,-0.25)', 'jacobi_sum_clenshaw(-0.25,-0.75)', 'clenshaw_qbfs', 'compute_z_zprime_Qcon', 'compute_z_zprime_Q2d:a1', 'clenshaw_q2d:m=2'):
            continue
        for cl, cc in (('dense', c0), ('sparse', sp)):
            if heavy and cl == 'sparse':
                continue
            desc = {'fn': fn_of(label), 'path': label, 'len': L, 'coefs': cl, 'class': f'{fn_of(label)}:very-long-sum:{cl}'}
            ctx.case(desc)
            ctx.observe('classD.very-high-orders')
            path_check(ctx, label, fast, mode, np.array(cc) if L % 2 else cc, cc, u, u, desc, lenclass(L))


def foreign_units(ctx):
    """Class F: the other consumers of the shared recurrence tables (value / sequence / derivative routines of every family, zernike,
    Qcon, precision 32, numpy-typed orders, in-place-prone paths) run first, unjudged; then every fast path and the fit are judged as usual."""
    from prysm import polynomials as P
    rng = case_rng('foreign')
    PT = paths()
    u = np.array([0.0, 0.21875, 0.53125, 0.84375, 1.0])
    for rep, L in enumerate((3, 1, 9, 19, 42)):
        ctx.event('foreign-traffic-raised', foreign_traffic(P, rep))
        ctx.observe('classF.foreign-traffic')
        c0 = [float(v) for v in rng.normal(size=L)]
        for label, (fast, mode, az) in PT.items():
            desc = {'fn': fn_of(label), 'path': label, 'len': L, 'class': f'{fn_of(label)}:after-foreign-traffic'}
            ctx.case(desc)
            path_check(ctx, label, fast, mode, np.array(c0) if rep % 2 else c0, c0, u, u, desc, lenclass(L))
        with quiet():
            modes = np.asarray(basis(rng, ('zernike', 'q2d', 'legendre-xy')[rep % 3], (9, 10)), dtype=float)
        c = rng.normal(size=modes.shape[0])
        desc = {'fn': 'lstsq', 'class': 'lstsq:after-foreign-traffic'}
        ctx.case(desc)
        with guard('lstsq', desc, 'masked'):
            data = P.sum_of_2d_modes(modes, c)
            data[2, 3] = np.nan
            cref, ok, cond, _, _ = ls_oracle(modes, data)
            if ok and cond < 1e6:
                ctx.close('lstsq.recovers-synthesis', P.lstsq(modes, data), c, 'C10/lstsq/recovers-synthesis', 'lstsq != c after foreign traffic', desc, rtol=1e-8 * max(cond, 1.0), atol=1e-300, scale=sup(c))


# ------------------------------------------------------------------------------------------ hardening pass 3 (HARDENING3.md G, H, I, J)
def regime(s):
    return 'tiny' if s < 1 else ('huge' if s > 1 else 'unit')


def scale_units(ctx, part, nparts):
    """Class G: every fast sum, sum_of_2d_modes and the fit are LINEAR / homogeneous in the coefficients (weights, data) - coefficient vectors scaled by 1e-12 ... 1e12 (not powers
    of two: s * c is rounded like any user input) through every fast path, judged against the explicit sum of the SAME scaled coefficients (the tolerance is proportional to
    sum |c_k| sup |mode_k|, so a tiny regime is judged as strictly as a unit one) and by the scale law f(s c) = s f(c); lstsq with the data scaled (c -> s c), the modes scaled
    (c -> c / s), both, and the columns scaled individually.  The radial points include the axis, the rim and u = 1/2 (x = 0)."""
    from prysm import polynomials as P
    PT = paths()
    u = np.array([0.0, 0.21875, 0.5, 0.84375, 1.0])
    idx = -1
    for L in (1, 2, 5, 9, 19) + ctx.pick((), (3, 42)):
        rng = case_rng('scale', L)
        c0 = [float(v) for v in rng.normal(size=L)]
        base = {}
        for s in (1.0,) + tuple(scales(ctx.quick)):
            idx += 1
            reg = regime(s)
            cs = [v * s for v in c0]
            for label, (fast, mode, az) in PT.items():
                if s != 1.0 and idx % nparts != part:
                    continue
                desc = {'fn': fn_of(label), 'path': label, 'len': L, 'scale': s, 'class': f'{fn_of(label)}:scale:{reg}'}
                if s != 1.0:
                    ctx.case(desc)
                    ctx.observe('classG.scale-laws')
                    path_check(ctx, label, fast, mode, np.array(cs) if L % 2 else cs, cs, u, u, desc, f'scale:{reg}')
                with guard(fn_of(label), desc, lenclass(L), [lenclass(L), 'list-len1'] if L == 1 else [lenclass(L)]):
                    with np.errstate(all='ignore'):
                        got = np.asarray(fast(list(cs), u), dtype=float)
                    if s == 1.0:
                        base[label] = got
                    elif label in base:
                        ref = s * base[label]
                        with quiet():
                            _, sc = explicit_sum(cs, lambda k: mode(k, u))
                        compare('classG.scale-laws', got, ref, sc, f'C10/{fn_of(label)}/scale-law:{reg}', f'{fn_of(label)}: the sum for coefficients scaled by s is not s times the sum for the unscaled coefficients', desc,
                                rtol=RTOL * max(1.0, (L / 20.0) ** 2))
    if part != 0:
        return
    # sum_of_2d_modes and lstsq
    rng = case_rng('scale', 'lstsq')
    for shape, kind in (((12, 12), 'zernike'), ((8, 9), 'legendre-xy'), ((1, 24), 'legendre-xy')):
        with quiet():
            M = np.asarray(basis(rng, kind, shape), dtype=float)
        k = M.shape[0]
        c = rng.normal(size=k)
        synth = np.tensordot(c, M, axes=(0, 0))
        mask = rng.random(shape) < 0.12
        data = synth.copy()
        data[mask] = np.nan
        cref, ok, cond, A, b = ls_oracle(M, data)
        if not ok or cond > 1e4:
            ctx.skip('lstsq:rank-deficient-or-ill-conditioned-on-valid-samples')
            continue
        for s in scales(ctx.quick):
            reg = regime(s)
            desc = {'fn': 'sum_of_2d_modes', 'basis': kind, 'shape': list(shape), 'scale': s, 'class': f'sum_of_2d_modes:scale:{reg}'}
            ctx.case(desc)
            ctx.observe('classG.scale-laws')
            with guard('sum_of_2d_modes', desc, f'scale:{reg}'):
                sc = float(np.sum(np.abs(c) * np.abs(M.reshape(k, -1)).max(axis=1)))
                for lab, got in (('weights-scaled', P.sum_of_2d_modes(M, c * s)), ('modes-scaled', P.sum_of_2d_modes(M * s, c)), ('list-modes-scaled', P.sum_of_2d_modes([m * s for m in M], list(c)))):
                    compare('classG.scale-laws', got, s * synth, s * sc, f'C10/sum_of_2d_modes/scale:{reg}', f'sum_of_2d_modes with the {lab.replace("-", " ")} by s is not s times the unscaled sum', dict(desc, scaled=lab))
                gb = P.sum_of_2d_modes_backprop(M * s, synth)
                rb = s * np.array([float(np.sum(M[i] * synth)) for i in range(k)])
                compare('classG.scale-laws', gb, rb, sup(rb), f'C10/sum_of_2d_modes_backprop/scale:{reg}', 'sum_of_2d_modes_backprop with the modes scaled by s is not s times the unscaled result', desc)
            cols = 10.0 ** rng.integers(-1, 2, size=k)
            for lab, mo, da, want in (('data-scaled', M, s * data, s * c), ('modes-scaled', s * M, data, c / s), ('both-scaled', s * M, s * data, c),
                                      ('list-modes-scaled', [m * s for m in M], data, c / s), ('columns-scaled-individually', M * cols.reshape(-1, *([1] * (M.ndim - 1))), s * data, s * c / cols)):
                desc = {'fn': 'lstsq', 'basis': kind, 'shape': list(shape), 'scale': s, 'scaled': lab, 'class': f'lstsq:scale:{reg}:{lab}'}
                ctx.case(desc)
                with guard('lstsq', desc, f'scale:{reg}'):
                    chat = P.lstsq(mo, da)
                    cn = cond * (1e2 if lab.startswith('columns') else 1.0)
                    ctx.close('classG.scale-laws', chat, want, f'C10/lstsq/scale:{reg}', f'lstsq with the {lab.replace("-", " ")} does not return the correspondingly scaled synthesising coefficients', desc,
                              rtol=1e-8 * max(cn, 1.0), atol=1e-300, scale=sup(want))


def special_parameter_units(ctx):
    """Class H, shape parameters special only UP TO ROUNDING (alpha = 0.1 + 0.2, beta = -0.3: alpha + beta is a rounding residue; alpha + beta = -1 +- 1 ulp; one ulp from 0, +-1/2,
    an integer; alpha -> -1), the exactly special ones and clearly generic neighbours, through jacobi_sum_clenshaw against the explicit sum over jacobi() at the SAME parameters
    (both are smooth in them: the ordinary tolerance applies); x includes -1, 0, 1.  A failure that disappears at the exactly special neighbour is keyed
    C10/jacobi_sum_clenshaw/special:<line>."""
    from prysm.polynomials import jacobi, jacobi_sum_clenshaw
    rng = case_rng('special-parameters')
    x = np.array([-1.0, -0.5625, 0.0, 0.0625, 0.71875, 1.0])
    cases = [('special:' + c, ab) for c, ab, nb in near_special_jacobi(not ctx.quick)] + [('exactly-special', ab) for ab in EXACT_SPECIAL_JACOBI] + [('generic-neighbour', ab) for ab in GENERIC_NEIGHBOURS_JACOBI]
    for cls, (al, be) in cases:
        for L in (1, 2, 3, 6, 19):
            c0 = [float(v) for v in rng.normal(size=L)]
            for form, xv in (('1d', x), ('2d', x.reshape(2, 3)), ('0d', np.array(0.0))):
                if form != '1d' and L not in (2, 6):
                    continue
                desc = {'fn': 'jacobi_sum_clenshaw', 'alpha': repr(al), 'beta': repr(be), 'pclass': cls, 'len': L, 'x': form, 'class': f'jacobi_sum_clenshaw:{cls}'}
                ctx.case(desc)
                ctx.observe('classH.special-parameters')
                with guard('jacobi_sum_clenshaw', desc, lenclass(L), [lenclass(L)]):
                    arg = c0 if L % 2 else np.array(c0)
                    got = jacobi_sum_clenshaw(arg, al, be, xv)
                    with quiet():
                        ref, scale = explicit_sum(c0, lambda k: jacobi(k, al, be, xv))
                    key = f'C10/jacobi_sum_clenshaw/{lenclass(L)}'
                    if not ok_close(got, ref, scale):
                        key = special_key(key, (al, be), lambda nb: jacobi_sum_clenshaw(arg, nb[0], nb[1], xv), ref, scale)
                    compare('jacobi_sum_clenshaw', got, ref, scale, key, 'jacobi_sum_clenshaw != explicit sum of s_n * jacobi(n) for shape parameters that are special (only up to rounding)', desc)


def special_point_units(ctx):
    """Class H, evaluation points exactly on the axis (u = 0), on the rim (u = 1), at u = 1/2 (x = 0), one ulp inside the rim, -0.0: whole arrays, each alone as 0-d and length-1
    arrays, 2-D, for every fast path."""
    rng = case_rng('special-points')
    PT = paths()
    pts = [0.0, 1.0, 0.5, ulps(1.0, -1), -0.0, 2.0 ** -30]
    ua = np.array(pts)
    for L in (1, 2, 4, 9):
        c0 = [float(v) for v in rng.normal(size=L)]
        forms = [('array', ua), ('2d', ua.reshape(2, 3))] + [(f'0d:{j}', np.array(v)) for j, v in enumerate(pts[:4])] + [(f'len1:{j}', np.array([v])) for j, v in enumerate(pts[:3])]
        for form, uv in forms:
            for label, (fast, mode, az) in PT.items():
                desc = {'fn': fn_of(label), 'path': label, 'len': L, 'x': form.split(':')[0], 'point': repr(float(np.ravel(uv)[0])) if uv.size == 1 else 'all', 'class': f'{fn_of(label)}:special-points:{form.split(":")[0]}'}
                ctx.case(desc)
                ctx.observe('classH.special-points')
                path_check(ctx, label, fast, mode, c0 if L % 2 else np.array(c0), c0, uv, uv, desc, lenclass(L))


def coef_layout_units(ctx, part, nparts):
    """Class I, coefficient-set layouts: EVERY pattern of empty / length-1 / length-5 lists (length 5 at m = 1: the N > 2 branch with a non-zero correction of sag AND slope) over the azimuthal orders m = 0 .. 4 (3^5 = 243; the sine lists carry the cosine pattern,
    or the cosine pattern rotated by one order so that one family is absent where the other is populated) through compute_z_zprime_Q2d: the sag against the explicit sum of
    coefficient times Q2d(n, m), at points that include the axis and the rim."""
    from prysm.polynomials import Q2d
    from prysm.polynomials.qpoly import compute_z_zprime_Q2d
    u = np.array([0.0, 0.21875, 0.53125, 0.84375, 1.0])
    t = np.array([0.5, 1.75, 3.0, 5.5, 0.0])
    for pi, pat in enumerate(layout_patterns(5)):
        if pi % nparts != part:
            continue
        rng = case_rng('layout-pattern', pi)

        def mk(c):
            return [] if c == 'e' else [float(v) for v in rng.normal(size=1 if c == '1' else 5)]
        cm0 = mk(pat[0])
        ams = [mk(c) for c in pat[1:]]
        rot = pat[2:] + pat[1:2]
        bms = [mk(c) for c in (rot if pi % 2 else pat[1:])]
        feat = structure_features(cm0, ams, bms)
        kl = mismatch_label(feat, 'layout')
        desc = {'fn': 'compute_z_zprime_Q2d', 'pattern': ''.join(pat), 'sine-pattern': 'rotated' if pi % 2 else 'same', 'lens': [len(cm0), [len(a) for a in ams], [len(b) for b in bms]],
                'class': f'compute_z_zprime_Q2d:layout:{kl}'}
        ctx.case(desc, nontrivial=any(c != 'e' for c in pat))
        ctx.observe('classI.layouts')
        with guard('compute_z_zprime_Q2d', desc, kl, feat):
            z = compute_z_zprime_Q2d(list(cm0), [list(a) for a in ams], [list(b) for b in bms], u, t)[0]
            with quiet():
                tot, scale = np.zeros(u.shape), 0.0
                terms = [(n, 0, c) for n, c in enumerate(cm0)] + [(n, m + 1, c) for m, a in enumerate(ams) for n, c in enumerate(a)] + [(n, -(m + 1), c) for m, b in enumerate(bms) for n, c in enumerate(b)]
                for n, m, c in terms:
                    md = np.asarray(Q2d(n, m, u, t), dtype=float)
                    tot = tot + c * md
                    scale += abs(c) * sup(md)
            compare('compute_z_zprime_Q2d.sag', z, tot, max(scale, 1e-300), f'C10/compute_z_zprime_Q2d/{kl}', 'compute_z_zprime_Q2d sag != explicit sum of c * Q2d(n, m) for this layout of empty / length-1 / length-5 lists', desc)


def packer_ordering_units(ctx):
    """Class I for the coefficient re-packing helper: every ordering of the (n, m) list (ascending, descending, grouped by |m|, radial orders non-ascending inside each |m| group,
    sine terms first, shuffles) must give the SAME dense per-m lists, and the evaluator fed with them the explicit sum."""
    from prysm.polynomials import Q2d
    from prysm.polynomials.qpoly import Q2d_nm_c_to_a_b, compute_z_zprime_Q2d
    rng = np.random.default_rng([CTX.seed, 1010])
    u = np.array([0.0, 0.21875, 0.53125, 0.84375, 1.0])
    t = np.array([0.5, 1.75, 3.0, 5.5, 0.0])
    sets = [[(n, m) for n in range(3) for m in range(-2, 3)], [(0, 0), (2, 0), (0, 1), (3, 1), (1, -1), (0, -1), (2, 3), (0, -3), (1, 2), (0, 2), (0, -2), (4, -2)], [(1, 0), (0, 1), (1, 1), (0, -1), (1, -1)],
            [(n, m) for n in range(ctx.pick(4, 6)) for m in range(-3, 4) if (n + m) % 3]]
    for si, base in enumerate(sets):
        cmap = {e: float(v) for e, v in zip(base, rng.normal(size=len(base)))}
        exp = expected_packing(base, [cmap[e] for e in base])
        with quiet():
            tot, scale = np.zeros(u.shape), 0.0
            for (n, m), c in cmap.items():
                md = np.asarray(Q2d(n, m, u, t), dtype=float)
                tot, scale = tot + c * md, scale + abs(c) * sup(md)
        for lab, o in term_orderings(base, rng, ctx.pick(3, 10)):
            coefs = [cmap[e] for e in o]
            desc = {'fn': 'Q2d_nm_c_to_a_b', 'ordering': lab, 'set': si, 'nms': o[:12], 'class': f'Q2d_nm_c_to_a_b:ordering:{lab}'}
            ctx.case(desc)
            ctx.observe('classI.orderings')
            with guard('Q2d_nm_c_to_a_b', desc, 'regular'):
                packed = Q2d_nm_c_to_a_b(o if si % 2 else np.array(o), coefs)
                ok = ([float(v) for v in packed[0]] == exp[0] and [[float(q) for q in v] for v in packed[1]] == exp[1] and [[float(q) for q in v] for v in packed[2]] == exp[2])
                ctx.require('Q2d_nm_c_to_a_b.structure', ok, f'C10/Q2d_nm_c_to_a_b/structure/ordering:{lab}', 'Q2d_nm_c_to_a_b: the dense per-m lists depend on the order in which the (n, m) terms are listed', desc)
                z = compute_z_zprime_Q2d(packed[0], packed[1], packed[2], u, t)[0]
                compare('Q2d_nm_c_to_a_b->compute_z_zprime_Q2d', z, tot, scale, f'C10/compute_z_zprime_Q2d/regular/ordering:{lab}', 'compute_z_zprime_Q2d(*Q2d_nm_c_to_a_b(terms in this order)) != explicit sum of c * Q2d(n, m)', desc)


def validity_units(ctx):
    """Class J, degenerate validity patterns for the fit: modes / design columns that are NON-FINITE AT EXACTLY THE MASKED SAMPLES - aperture-limited bases (NaN outside the
    aperture, the data synthesised from them NaN at the same samples), a column with a pole (1/r at r = 0: +inf at the one dropped sample), columns +-inf / NaN at a strict
    subset of the masked samples, only some of the columns affected - with the mask as rows / columns / isolated samples / a disc, and masks that are all-valid / all-masked /
    single-valid-sample.  The fit must be the fit on the valid samples only: it recovers the synthesising coefficients (judged here), equals the independent least-squares
    solution on exactly the valid samples (judged by the contract) and does not change when the non-finite mode values are replaced by finite junk."""
    from prysm import polynomials as P
    rng = case_rng('validity')
    fills = {'nan': lambda sh: np.full(sh, np.nan), '+inf': lambda sh: np.full(sh, np.inf), '-inf': lambda sh: np.full(sh, -np.inf),
             'mixed': lambda sh: np.array([np.nan, np.inf, -np.inf])[rng.integers(0, 3, sh)]}
    shapes = (((16, 16), 'zernike'), ((13, 12), 'q2d'), ((9, 14), 'legendre-xy'), ((1, 41), 'legendre-xy'), ((21, 1), 'single')) + ctx.pick((), (((32, 33), 'zernike'), ((48, 48), 'zernike'), ((7, 60), 'q2d')))
    for shape, kind in shapes:
        ny, nx = shape
        with quiet():
            M0 = np.asarray(basis(rng, kind, shape), dtype=float)
        k = M0.shape[0]
        X, Y = np.meshgrid(np.linspace(-1, 1, nx), np.linspace(-1, 1, ny))
        R = np.hypot(X, Y)
        patterns = [('outside-aperture', R > 0.9), ('isolated-samples', rng.random(shape) < 0.1), ('rows', (np.arange(ny)[:, None] % 4 == 1) & (X == X)), ('columns', (np.arange(nx)[None, :] % 5 == 2) & (Y == Y)),
                    ('single-sample', np.arange(ny * nx).reshape(shape) == (ny * nx) // 2), ('first-samples', np.arange(ny * nx).reshape(shape) < max(2, (ny * nx) // 8)), ('none', np.zeros(shape, bool)),
                    ('all-but-k+2', np.arange(ny * nx).reshape(shape) % max(1, (ny * nx) // (k + 2)) != 0)]
        for pl, mask in patterns:
            for fl in ('nan', '+inf', 'mixed') if ctx.quick else ('nan', '+inf', '-inf', 'mixed'):
                for which in ('all-modes', 'one-mode', 'subset-of-masked-samples'):
                    if pl == 'none' and (fl != 'nan' or which != 'all-modes'):
                        continue
                    c = rng.normal(size=k)
                    M = M0.copy()
                    hole = mask.copy()
                    if which == 'subset-of-masked-samples':
                        hole &= rng.random(shape) < 0.5
                    cols = range(k) if which != 'one-mode' else [int(rng.integers(k))]
                    for i in cols:
                        M[i][hole] = fills[fl](shape)[hole]
                    synth = np.tensordot(c, M0, axes=(0, 0))
                    data = synth.copy()
                    data[mask] = fills['nan' if fl == 'nan' else 'mixed'](shape)[mask]
                    desc = {'fn': 'lstsq', 'basis': kind, 'shape': list(shape), 'masked': pl, 'modes_nonfinite': fl, 'which': which, 'nmasked': int(mask.sum()),
                            'class': f'lstsq:modes-nonfinite-at-masked-samples:{pl}:{fl}:{which}'}
                    ctx.case(desc)
                    cref, ok, cond, A, b = ls_oracle(M0, data)
                    if not ok or cond > 1e6:
                        ctx.skip('lstsq:rank-deficient-or-ill-conditioned-on-valid-samples')
                        continue
                    ctx.observe('classJ.validity-patterns')
                    lab = 'modes-nonfinite-at-masked-samples' if hole.any() else ('masked' if mask.any() else 'all-finite')
                    with guard('lstsq', desc, lab):
                        form = (M, list(M), np.asfortranarray(M))[(len(pl) + len(which)) % 3]
                        chat = P.lstsq(form, data)
                        kf = 'nan' if fl == 'nan' else 'inf'
                        ctx.close('lstsq.recovers-synthesis', chat, c, f'C10/lstsq/recovers-synthesis/modes-nonfinite-at-masked-samples:{kf}' if hole.any() else 'C10/lstsq/recovers-synthesis',
                                  'lstsq(modes, data): modes that are non-finite at exactly the samples the data mark as ignored - the fit must be the fit on the valid samples and return the synthesising coefficients',
                                  desc, rtol=1e-8 * max(cond, 1.0), atol=1e-300, scale=sup(c))
                        if hole.any():
                            junk = M.copy()
                            for i in cols:
                                junk[i][hole] = 1e30 * rng.normal(size=shape)[hole]
                            c2 = P.lstsq(junk, data)
                            ctx.close('lstsq.ignores-exactly-nonfinite', chat, c2, f'C10/lstsq/mode-values-at-masked-samples-matter:{kf}',
                                      'the fit changes when the mode values at the IGNORED samples change (non-finite vs finite junk): those samples are not ignored exactly', desc,
                                      rtol=1e-8 * max(cond, 1.0), atol=1e-300, scale=sup(c2))
    # aperture-limited bases as a user builds them: modes evaluated on the disc only, NaN outside; the synthesis (through sum_of_2d_modes) is NaN at exactly the same samples
    from prysm.coordinates import make_xy_grid, cart_to_polar
    for n, diam in ((24, 2.2), (17, 2.5)) + ctx.pick((), ((48, 2.2), (33, 3.0))):
        x, y = make_xy_grid(n, diameter=diam)
        r, t = cart_to_polar(x, y)
        outside = r > 1
        with quiet():
            zm = np.asarray(P.zernike_nm_seq([(0, 0), (1, 1), (1, -1), (2, 0), (2, 2), (2, -2), (3, 1), (3, -1), (4, 0)], r, t, norm=True))
            qm = np.asarray(P.Q2d_seq([(0, 0), (1, 0), (2, 0), (0, 1), (1, 1), (0, -1), (2, -1), (0, 2), (1, -2)], np.minimum(r, 1.0), t))
        for kind, M0 in (('zernike', zm), ('Q2d', qm)):
            M = M0.copy()
            M[:, outside] = np.nan
            c = rng.normal(size=M.shape[0])
            desc = {'fn': 'lstsq', 'basis': kind, 'n': n, 'diameter': diam, 'class': f'lstsq:aperture-limited-basis:{kind}'}
            ctx.case(desc)
            ctx.observe('classJ.validity-patterns')
            with guard('lstsq', desc, 'modes-nonfinite-at-masked-samples'):
                data = P.sum_of_2d_modes(M, c)
                cref, ok, cond, A, b = ls_oracle(M0, np.where(outside, np.nan, np.tensordot(c, M0, axes=(0, 0))))
                if not ok or cond > 1e6:
                    ctx.skip('lstsq:rank-deficient-or-ill-conditioned-on-valid-samples')
                    continue
                ctx.require('lstsq.ignores-exactly-nonfinite', bool(np.isnan(data[outside]).all() and np.isfinite(data[~outside]).all()), 'C10/sum_of_2d_modes/nan-pattern-of-aperture-limited-modes',
                            'sum_of_2d_modes of modes that are NaN outside the aperture is not NaN at exactly those samples', desc)
                for form in (M, list(M)):
                    ctx.close('lstsq.recovers-synthesis', P.lstsq(form, data), c, 'C10/lstsq/recovers-synthesis/modes-nonfinite-at-masked-samples:nan',
                              'lstsq(aperture-limited modes, data synthesised from them) != the synthesising coefficients', desc, rtol=1e-8 * max(cond, 1.0), atol=1e-300, scale=sup(c))
    # a design column with a pole at the one dropped sample (1/r at r = 0 on an even grid), 2-D and 1-D
    for n in (16, 10) + ctx.pick((), (32, 64)):
        x, y = make_xy_grid(n, diameter=2)
        r, t = cart_to_polar(x, y)
        if int((r == 0).sum()) != 1:
            continue
        with np.errstate(all='ignore'), quiet():
            M = np.asarray([np.ones_like(r), P.hopkins(1, 1, 0, r, t, 1), P.hopkins(0, 2, 0, r, t, 1), 1 / r, -1 / r ** 2])
        c = np.array([0.3, -1.2, 0.7, 0.05, 0.01])
        desc = {'fn': 'lstsq', 'basis': 'ones, r cos t, r^2, 1/r, -1/r^2', 'n': n, 'class': 'lstsq:column-with-a-pole-at-the-dropped-sample'}
        ctx.case(desc)
        ctx.observe('classJ.validity-patterns')
        with guard('lstsq', desc, 'modes-nonfinite-at-masked-samples'), np.errstate(all='ignore'):
            data = P.sum_of_2d_modes(M, c)
            fin = np.where(np.isfinite(M), M, 0.0)
            cref, ok, cond, A, b = ls_oracle(fin, data)
            if ok and cond <= 1e6:
                ctx.close('lstsq.recovers-synthesis', P.lstsq(M, data), c, 'C10/lstsq/recovers-synthesis/modes-nonfinite-at-masked-samples:inf',
                          'lstsq with a design column that has a pole at the one sample the data mark as ignored != the synthesising coefficients', desc, rtol=1e-8 * max(cond, 1.0), atol=1e-300, scale=sup(c))
            else:
                ctx.skip('lstsq:rank-deficient-or-ill-conditioned-on-valid-samples')
    xx = np.linspace(-1, 1, 41)
    for fl in ('nan', '+inf'):
        M = np.asarray([xx ** j for j in range(4)])
        M[:, :5] = np.nan if fl == 'nan' else np.inf
        c = np.array([1.0, -2.0, 0.5, 3.0])
        desc = {'fn': 'lstsq', 'basis': '1-D monomials, first samples undefined', 'fill': fl, 'class': 'lstsq:modes-nonfinite-at-masked-samples:1-D'}
        ctx.case(desc)
        ctx.observe('classJ.validity-patterns')
        with guard('lstsq', desc, 'modes-nonfinite-at-masked-samples'):
            data = np.tensordot(c, np.asarray([xx ** j for j in range(4)]), axes=(0, 0))
            data[:5] = np.nan
            ctx.close('lstsq.recovers-synthesis', P.lstsq(M, data), c, f'C10/lstsq/recovers-synthesis/modes-nonfinite-at-masked-samples:{"nan" if fl == "nan" else "inf"}',
                      'lstsq (1-D samples) with modes undefined at exactly the masked samples != the synthesising coefficients', desc, rtol=1e-6, atol=1e-300, scale=sup(c))
    # masks that are all-valid / single-valid-sample (one mode) / all-masked (out of domain: nothing to fit - excluded and counted)
    m1 = np.array([1.0 + 0.5 * np.linspace(-1, 1, 12).reshape(3, 4)])
    for pl, valid in (('all-valid', np.ones((3, 4), bool)), ('single-valid-sample', np.arange(12).reshape(3, 4) == 7), ('all-masked', np.zeros((3, 4), bool))):
        data = np.where(valid, 1.75 * m1[0], np.nan)
        Mh = m1.copy()
        Mh[0][~valid] = np.nan
        desc = {'fn': 'lstsq', 'basis': 'one mode', 'mask': pl, 'class': f'lstsq:validity:{pl}'}
        ctx.case(desc)
        if pl == 'all-masked':
            ctx.skip('lstsq:no-valid-sample(out of domain: the basis is not independent on the valid samples)')
            continue
        ctx.observe('classJ.validity-patterns')
        with guard('lstsq', desc, pl):
            for lab, mo in (('finite-modes', m1), ('modes-nonfinite-at-masked-samples', Mh)):
                ctx.close('lstsq.recovers-synthesis', P.lstsq(mo, data), np.array([1.75]), f'C10/lstsq/recovers-synthesis/{pl}', f'lstsq with a {pl} mask ({lab}) != the synthesising coefficient', desc,
                          rtol=1e-10, atol=1e-300, scale=1.75)


def run_hardening(ctx, counter):
    def mine():
        counter[0] += 1
        return ctx.mine(counter[0])
    for v in HIST_VARIANTS:
        if mine():
            history_units(ctx, v)
    for fn in (alias_coefs, container_units, layout_units, cfg32_units, kwarg_units, repeat_lstsq, alias_modes, form_units, param_form_units, foreign_units):
        if mine():
            fn(ctx)
            check_kept()
    for L in ctx.pick((172, 173, 257, 401), (172, 173, 201, 257, 401, 513)):
        if mine():
            very_long_units(ctx, L)
            check_kept()
    for lens in ctx.pick([(19,), (41,), (60,)], [(19, 41), (60, 80), (100,), (150,)]):
        if mine():
            high_units(ctx, lens)
    # hardening pass 3: classes G, H, I, J
    sp = ctx.pick(2, 8)
    for part in range(sp):
        if mine():
            scale_units(ctx, part, sp)
            check_kept()
    for fn in (special_parameter_units, special_point_units, packer_ordering_units, validity_units):
        if mine():
            fn(ctx)
            check_kept()
    lp = ctx.pick(2, 8)
    for part in range(lp):
        if mine():
            coef_layout_units(ctx, part, lp)
    # hardening pass 4: class M (work arrays in hostile states, ragged coefficient sets)
    wp = ctx.pick(2, 4)
    for part in range(wp):
        if mine():
            work_array_units(ctx, part, wp)
            check_kept()
    if mine():
        ragged_units(ctx)
    check_kept()


def run(ctx):
    global CTX
    CTX = ctx
    install()
    try:
        counter = [-1]
        run_hardening(ctx, counter)
        run_jacobi(ctx, counter)
        run_qbfs_qcon(ctx, counter)
        run_q2d(ctx, counter)
        run_lstsq(ctx, counter)
        run_pvr(ctx, counter)
        ctx.note('orders', f'Jacobi/Qbfs/Qcon sums: lengths 1..{ctx.pick(12, 60)} (+ 19, 41, 42, 60 in the quick tier, to 150 in the thorough one); '
                           f'2D-Q radial orders to {ctx.pick(12, 30)}, |m| to {ctx.pick(4, 7)}')
    finally:
        detach_all()


def replay(ctx, rec):
    run(ctx)
