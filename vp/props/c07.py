"""C07 — polynomial bases equal their textbook definitions and are orthogonal.

Monitors
  M1  contracts attached to the real single-order value routines (jacobi, legendre, cheby1-4, hermite_He/H, laguerre,
      dickson1/2, zernike_nm, Qbfs, Qcon, Q2d, xy, hopkins).  *Every* call — also the ones prysm makes internally
      (cheby -> jacobi, zernike_nm -> jacobi, Q2d -> Qbfs ...) — is compared, at all points of small arrays and at a
      few spread points of large ones, with the exact-rational closed-form definition of vp/refmodels/poly_exact.py
      (Qbfs / 2D-Q: exact Gram-Schmidt from the orthonormal-gradient definition, which reproduces Forbes' published
      closed forms n<=5 exactly), rounded once.  Shape of the result must be the shape of the coordinates.
      Secondary float oracle: scipy.special.eval_* on whole arrays (n <= 40).
  M2  orthogonality by exact quadrature (law monitors driven by the workload): Gauss-Jacobi Gram matrices with the
      textbook norms h_n for jacobi / legendre / cheby1-4 (and Gauss-Hermite / Gauss-Laguerre ones, implied by the
      definitions), Zernike Gram = I on the unit disk, Qbfs slope Gram = I and 2D-Q gradient Gram = I under
      (1/pi^2) int int f / sqrt(1-u^2) du dt with slopes taken from the *value* routine by spectral differentiation.
"""
import math
import sys

import numpy as np

from ..contracts import attach, detach_all
from ..refmodels import poly_exact as E

Q = E.Q

RULE = ('families x parameter classes (Chebyshev half-integers, Legendre, (0,4), alpha+beta in {0,-1}, dyadic random '
        'parameters in (-1,5), two non-dyadic pairs) x every order 0..N x dyadic-rational grids incl. both end points, '
        'then input-shape classes (python float, numpy scalar, 0-d, 1-D, 2-D, 3-D, float32) and random float points; '
        'all (n,m) of valid parity for Zernike, all (n,|m|<=M) for 2D-Q; Gram matrices by Gauss quadrature exact for '
        'the degrees used. A case is non-trivial when the polynomial has degree >= 1; distinct = distinct descriptor '
        '(family, parameters, order, input class, point-set)')
ASSUMPTIONS = ['textbook definitions as written in vp/refmodels/poly_exact.py (Szego 4.3.2 Jacobi sum; Mason-Handscomb '
               'numbering of the 3rd/4th-kind Chebyshev polynomials; Dickson D_0 = 2; Zernike norm sqrt(2(n+1)/(1+delta_m0)))',
               'Qbfs / 2D-Q are defined by: degree n in u^2, positive at the origin, orthonormal gradients under '
               '(1/pi^2) int_0^2pi int_0^1 f/sqrt(1-u^2) du dt with grad = (d/du, (1/u) d/dt) (measure calibrated in design recon; '
               'reproduces Forbes 2007 eq. 2.7 closed forms exactly)',
               'fractions.Fraction arithmetic and float(Fraction) rounding are exact / correctly rounded',
               'numpy/scipy Gauss rules (roots_jacobi, hermgauss, hermegauss, roots_genlaguerre, leggauss) and math.lgamma',
               'math.cos/sin for the azimuthal factor of Zernike / 2D-Q / Hopkins']
REQUIRED = ['value.jacobi', 'value.legendre', 'value.cheby1', 'value.cheby2', 'value.cheby3', 'value.cheby4',
            'value.hermite_He', 'value.hermite_H', 'value.laguerre', 'value.dickson1', 'value.dickson2',
            'value.zernike_nm', 'value.Qbfs', 'value.Qcon', 'value.Q2d', 'value.xy', 'value.hopkins',
            'gram.jacobi', 'gram.legendre', 'gram.cheby', 'gram.zernike', 'gram.qbfs-slope', 'gram.q2d-gradient']

CTX = None
WORST = {}          # monitor -> worst err/tol seen (reported as a note: distance to the threshold)
QBFS_EXACT_MAX = 100

RT64 = 1e-9
RT32 = 1e-3     # float32 inputs: observed round-off <= 6e-7 of scale at n <= 12


def _track(name, err, tol):
    if tol > 0 and math.isfinite(err):
        r = err / tol
        if r > WORST.get(name, 0.0):
            WORST[name] = r
        if r > 1e-3:
            CTX.event(f'within-{"2" if r > 1e-2 else "3"}-decades-of-threshold:{name}')


# ------------------------------------------------------------------------------------------ class labels
def nclass(n, tag='n'):
    return f'{tag}={n}' if n <= 2 else f'{tag}>=3'


def jac_pclass(a, b):
    if a == 0 and b == 0:
        return 'a=b=0'
    if abs(a) == 0.5 and abs(b) == 0.5:
        return 'half-integer'
    if a + b == 0:
        return 'a+b=0'
    if a + b == -1:
        return 'a+b=-1'
    return 'general'


def xclass(x):
    if isinstance(x, (float, int)):
        return 'pyscalar'
    x = np.asarray(x) if not isinstance(x, np.generic) else x
    if isinstance(x, np.generic):
        return 'npscalar'
    return f'{x.ndim}d'


def is_f32(*arrs):
    return any(getattr(a, 'dtype', None) == np.float32 for a in arrs)


# ------------------------------------------------------------------------------------------ exact references
def _f(q):
    return float(q)


def ex_qbfs(n, x):
    rp, nv = E.q_radial(n, 0, x)
    return float(rp) / math.sqrt(nv)


ONE_D = {
    # name -> (submodule, n_params, exact(n, params, x) -> float)
    'jacobi': ('jacobi', 2, lambda n, p, x: _f(E.jacobi(n, p[0], p[1], x))),
    'legendre': ('legendre', 0, lambda n, p, x: _f(E.legendre(n, x))),
    'cheby1': ('cheby', 0, lambda n, p, x: _f(E.cheby1(n, x))),
    'cheby2': ('cheby', 0, lambda n, p, x: _f(E.cheby2(n, x))),
    'cheby3': ('cheby', 0, lambda n, p, x: _f(E.cheby3(n, x))),
    'cheby4': ('cheby', 0, lambda n, p, x: _f(E.cheby4(n, x))),
    'hermite_He': ('hermite', 0, lambda n, p, x: _f(E.hermite_He(n, x))),
    'hermite_H': ('hermite', 0, lambda n, p, x: _f(E.hermite_H(n, x))),
    'laguerre': ('laguerre', 1, lambda n, p, x: _f(E.laguerre(n, p[0], x))),
    'dickson1': ('dickson', 1, lambda n, p, x: _f(E.dickson1(n, p[0], x))),
    'dickson2': ('dickson', 1, lambda n, p, x: _f(E.dickson2(n, p[0], x))),
    'Qbfs': ('qpoly', 0, lambda n, p, x: ex_qbfs(n, x)),
    'Qcon': ('qpoly', 0, lambda n, p, x: _f(E.qcon(n, x))),
}


def pick_indices(size, n, cheap):
    """Which flat elements of a result are compared with the exact definition."""
    if size <= 64 and (cheap or n <= 24):
        return list(range(size))
    k = 6 if n <= 40 else (2 if n <= 100 else 1)
    k = min(k, size)
    return sorted(set(int(round(v)) for v in np.linspace(0, size - 1, k + 2)[1:-1])) if size > k else list(range(size))


def cheap_point(q):
    return q.denominator.bit_length() <= 14


def result_shape_ok(fam, result, coords, desc, want=None):
    want = tuple(np.broadcast_shapes(*[np.shape(c) for c in coords])) if want is None else want
    got = np.shape(result)
    if got != want:
        CTX.violation(f'C07/{fam}/shape/x={xclass(coords[0])}', f'{fam} returned shape {got} for coordinates of shape {want}', desc,
                      got_shape=list(got), want_shape=list(want))
        return False
    return True


def post_1d(fam):
    sub, npar, exact = ONE_D[fam]
    mon = 'value.' + fam

    def post(token, args, kwargs, result):
        names = ['n'] + ['alpha', 'beta'][:npar] + ['x']
        a = dict(zip(names, args))
        a.update(kwargs)
        n = int(a['n'])
        params = tuple(a[k] for k in names[1:-1])
        x = a['x']
        if n < 0:
            return      # negative orders are not polynomials of the family (out of domain)
        desc = {'fn': fam, 'n': n, 'params': [float(v) for v in params], 'x': xclass(x), 'shape': list(np.shape(x)),
                'dtype': str(getattr(x, 'dtype', type(x).__name__))}
        if fam == 'Qbfs' and n > QBFS_EXACT_MAX:
            CTX.skip('Qbfs exact (Gram-Schmidt) oracle limited to n<=%d; covered by the slope Gram monitor' % QBFS_EXACT_MAX)
            result_shape_ok(fam, result, [x], desc)
            return
        CTX.observe(mon)
        if not result_shape_ok(fam, result, [x], desc):
            return
        xf = np.asarray(x).ravel()
        rf = np.asarray(result).ravel()
        if xf.size == 0:
            return
        qs_all_cheap = xf.size <= 64 and all(cheap_point(E.rat(v)) for v in xf)
        idx = pick_indices(xf.size, n, qs_all_cheap)
        pr = tuple(E.rat(v) for v in params)
        f32 = is_f32(x, result)
        rtol = RT32 if f32 else RT64
        ref = []
        scale = 1.0
        use = []
        for i in idx:
            if not np.isfinite(xf[i]):
                CTX.skip('non-finite coordinate')
                continue
            q = E.rat(xf[i])
            r = exact(n, pr, q)
            ref.append(r)
            use.append(i)
            scale = max(scale, abs(r))
            for k in (n - 1, n - 2):
                if k >= 0:
                    scale = max(scale, abs(exact(k, pr, q)))
        if not use:
            return
        got = rf[use].astype(float)
        ref = np.array(ref)
        with np.errstate(all='ignore'):
            err = float(np.max(np.abs(got - ref))) if np.all(np.isfinite(got)) else float('inf')
        tol = rtol * scale
        _track(mon + ('.f32' if f32 else ''), err, tol)
        if not err <= tol:
            pc = jac_pclass(*[float(v) for v in params]) if fam == 'jacobi' else ''
            key = '/'.join(s for s in ['C07', fam, 'value', pc, nclass(n), 'f32' if f32 else ''] if s)
            j = int(np.argmax(np.abs(got - ref))) if math.isfinite(err) else 0
            CTX.violation(key, f'{fam}(n, ...) differs from its closed-form definition', desc, err=err, tol=tol,
                          at=float(xf[use[j]]), got=float(got[j]), ref=float(ref[j]))
    return post


def _trig(m, t):
    if m > 0:
        return math.cos(m * t)
    if m < 0:
        return math.sin(-m * t)
    return 1.0


def post_zernike(token, args, kwargs, result):
    a = dict(zip(['n', 'm', 'r', 't', 'norm'], args))
    a.update(kwargs)
    n, m, r, t, norm = int(a['n']), int(a['m']), a['r'], a['t'], a.get('norm', True)
    if abs(m) > n or (n - abs(m)) % 2:
        return   # not a Zernike index
    desc = {'fn': 'zernike_nm', 'n': n, 'm': m, 'norm': bool(norm), 'x': xclass(r), 'shape': list(np.shape(r)),
            'dtype': str(getattr(r, 'dtype', type(r).__name__))}
    CTX.observe('value.zernike_nm')
    if not result_shape_ok('zernike_nm', result, [r, t], desc):
        return
    rb, tb = np.broadcast_arrays(np.asarray(r), np.asarray(t))
    rf, tf, gf = rb.ravel(), tb.ravel(), np.asarray(result).ravel()
    if rf.size == 0:
        return
    cheap = rf.size <= 64 and all(cheap_point(E.rat(v)) for v in rf)
    idx = pick_indices(rf.size, n, cheap)
    nrm = math.sqrt(E.zernike_norm2(n, m)) if norm else 1.0
    f32 = is_f32(r, t, result)
    ref = np.array([float(E.zernike_R(n, abs(m), E.rat(rf[i]))) * _trig(m, float(tf[i])) * nrm for i in idx])
    got = gf[idx].astype(float)
    scale = max(1.0, nrm)
    err = float(np.max(np.abs(got - ref))) if np.all(np.isfinite(got)) else float('inf')
    tol = (RT32 if f32 else RT64) * scale
    _track('value.zernike_nm' + ('.f32' if f32 else ''), err, tol)
    if not err <= tol:
        mc = 'm=0' if m == 0 else ('m>0' if m > 0 else 'm<0')
        key = '/'.join(s for s in ['C07/zernike_nm/value', mc, 'norm' if norm else 'nonorm', nclass((n - abs(m)) // 2, 'nj'), 'f32' if f32 else ''] if s)
        CTX.violation(key, 'zernike_nm differs from R_n^m(r) cos/sin(m t) [* sqrt(2(n+1)/(1+delta_m0))]', desc, err=err, tol=tol)


def q2d_mclass(m):
    return 'm=0' if m == 0 else ('m=1' if m == 1 else ('m=-1' if m == -1 else ('m>1' if m > 1 else 'm<-1')))


def post_q2d(token, args, kwargs, result):
    a = dict(zip(['n', 'm', 'r', 't'], args))
    a.update(kwargs)
    n, m, r, t = int(a['n']), int(a['m']), a['r'], a['t']
    desc = {'fn': 'Q2d', 'n': n, 'm': m, 'x': xclass(r), 'shape': list(np.shape(r)), 'dtype': str(getattr(r, 'dtype', type(r).__name__))}
    CTX.observe('value.Q2d')
    # for m == 0 the routine returns Qbfs(n, r) whose shape is that of r alone
    if not result_shape_ok('Q2d', result, [r] if m == 0 else [r, t], desc):
        return
    if m == 0:
        rb = np.asarray(r)
        tb = np.zeros(rb.shape)
    else:
        rb, tb = np.broadcast_arrays(np.asarray(r), np.asarray(t))
    rf, tf, gf = rb.ravel(), tb.ravel(), np.asarray(result).ravel()
    if rf.size == 0:
        return
    cheap = rf.size <= 64 and all(cheap_point(E.rat(v)) for v in rf)
    idx = pick_indices(rf.size, n + abs(m) // 2, cheap)
    f32 = is_f32(r, t, result)
    ref, scale = [], 1.0
    for i in idx:
        q = E.rat(rf[i])
        rp, nv = E.q_radial(n, m, q)
        rad = float(rp) / math.sqrt(nv)
        scale = max(scale, abs(rad))
        if n >= 1:
            rp1, nv1 = E.q_radial(n - 1, m, q)
            scale = max(scale, abs(float(rp1) / math.sqrt(nv1)))
        ref.append(rad * _trig(m, float(tf[i])))
    ref = np.array(ref)
    got = gf[idx].astype(float)
    err = float(np.max(np.abs(got - ref))) if np.all(np.isfinite(got)) else float('inf')
    tol = (RT32 if f32 else RT64) * scale
    _track('value.Q2d' + ('.f32' if f32 else ''), err, tol)
    if not err <= tol:
        key = '/'.join(s for s in ['C07/Q2d/value', q2d_mclass(m), nclass(n), 'f32' if f32 else ''] if s)
        CTX.violation(key, 'Q2d differs from the orthonormal-gradient definition (exact Gram-Schmidt)', desc, err=err, tol=tol)


def post_xy(token, args, kwargs, result):
    a = dict(zip(['m', 'n', 'x', 'y', 'cartesian_grid'], args))
    a.update(kwargs)
    m, n, x, y, cart = int(a['m']), int(a['n']), a['x'], a['y'], a.get('cartesian_grid', True)
    x = np.asarray(x)
    y = np.asarray(y)
    desc = {'fn': 'xy', 'm': m, 'n': n, 'cartesian_grid': bool(cart), 'xshape': list(x.shape), 'yshape': list(y.shape)}
    CTX.observe('value.xy')
    if cart:
        # documented separable treatment: arr[y, x]; a 2-D cartesian grid is represented by its first row / column
        if x.ndim == 2:
            xg, yg = x[0:1, :], y[:, 0:1]
        else:
            xg, yg = x.reshape(1, -1), y.reshape(-1, 1)
    else:
        xg, yg = x, y
    want = tuple(np.broadcast_shapes(xg.shape, yg.shape))
    if not result_shape_ok('xy', result, [x], desc, want=want):
        return
    xb, yb = np.broadcast_arrays(xg, yg)
    xf, yf, gf = xb.ravel(), yb.ravel(), np.asarray(result).ravel()
    if xf.size == 0:
        return
    idx = pick_indices(xf.size, m + n, xf.size <= 64)
    ref = np.array([float(E.monomial_xy(m, n, xf[i], yf[i])) for i in idx])
    got = gf[idx].astype(float)
    f32 = is_f32(x, y, result)
    scale = max(1.0, float(np.max(np.abs(ref))))
    err = float(np.max(np.abs(got - ref))) if np.all(np.isfinite(got)) else float('inf')
    tol = (RT32 if f32 else RT64) * scale
    _track('value.xy' + ('.f32' if f32 else ''), err, tol)
    if not err <= tol:
        z = 'zero-exponent' if (m == 0 or n == 0) else 'positive-exponents'
        CTX.violation(f'C07/xy/value/{"cartesian" if cart else "general"}/{z}', 'xy(m,n,x,y) != x^m y^n', desc, err=err, tol=tol)


def post_hopkins(token, args, kwargs, result):
    a_ = dict(zip(['a', 'b', 'c', 'r', 't', 'H'], args))
    a_.update(kwargs)
    a, b, c, r, t, H = int(a_['a']), int(a_['b']), int(a_['c']), a_['r'], a_['t'], a_['H']
    desc = {'fn': 'hopkins', 'a': a, 'b': b, 'c': c, 'x': xclass(r), 'shape': list(np.shape(r))}
    CTX.observe('value.hopkins')
    if not result_shape_ok('hopkins', result, [r, t, H], desc):
        return
    rb, tb, hb = np.broadcast_arrays(np.asarray(r), np.asarray(t), np.asarray(H))
    rf, tf, hf, gf = rb.ravel(), tb.ravel(), hb.ravel(), np.asarray(result).ravel()
    if rf.size == 0:
        return
    idx = pick_indices(rf.size, b + c, rf.size <= 64)
    ref = np.array([float(E.hopkins_radial(b, c, rf[i], hf[i])) * _trig(a, float(tf[i])) for i in idx])
    got = gf[idx].astype(float)
    scale = max(1.0, float(np.max(np.abs(ref))))
    f32 = is_f32(r, t, H, result)
    err = float(np.max(np.abs(got - ref))) if np.all(np.isfinite(got)) else float('inf')
    tol = (RT32 if f32 else RT64) * scale
    _track('value.hopkins' + ('.f32' if f32 else ''), err, tol)
    if not err <= tol:
        ac = 'a<0' if a < 0 else ('a=0' if a == 0 else 'a>0')
        CTX.violation(f'C07/hopkins/value/{ac}', 'hopkins(a,b,c,r,t,H) != cos(a t)|sin(|a| t) r^b H^c', desc, err=err, tol=tol)


def install():
    import prysm.polynomials  # noqa  (loads every submodule)
    for fam, (sub, _, _) in ONE_D.items():
        attach(sys.modules['prysm.polynomials.' + sub], fam, post=post_1d(fam))
    attach(sys.modules['prysm.polynomials.zernike'], 'zernike_nm', post=post_zernike)
    attach(sys.modules['prysm.polynomials.qpoly'], 'Q2d', post=post_q2d)
    attach(sys.modules['prysm.polynomials.xy'], 'xy', post=post_xy)
    attach(sys.modules['prysm.polynomials'], 'hopkins', post=post_hopkins)


# ------------------------------------------------------------------------------------------ workload pieces
def grid_for(fam):
    """Dyadic-rational evaluation grid (exactly representable, both end points of a finite domain included)."""
    if fam in ('hermite_He', 'hermite_H'):
        return np.array([k / 8 for k in range(-24, 25)])                     # [-3, 3]
    if fam == 'laguerre':
        return np.array([k / 4 for k in range(0, 41)])                       # [0, 10]
    if fam in ('dickson1', 'dickson2'):
        return np.array([k / 8 for k in range(-16, 17)])                     # [-2, 2]
    if fam in ('Qbfs', 'Qcon'):
        return np.array([k / 32 for k in range(0, 33)] + [1 / 128, 3 / 256, 127 / 128, 255 / 256, 63 / 64, 1 / 64, 5 / 128, 125 / 128])
    return np.array([k / 16 for k in range(-16, 17)] + [-255 / 256, -127 / 128, -1 / 128, 3 / 256, 1 / 64, 63 / 64, 127 / 128, 255 / 256])


def domain(fam):
    if fam in ('hermite_He', 'hermite_H'):
        return -3.0, 3.0
    if fam == 'laguerre':
        return 0.0, 10.0
    if fam in ('dickson1', 'dickson2'):
        return -2.0, 2.0
    if fam in ('Qbfs', 'Qcon'):
        return 0.0, 1.0
    return -1.0, 1.0


def dyadic(rng, lo, hi, shape, den=256):
    k = rng.integers(int(math.ceil(lo * den)), int(math.floor(hi * den)) + 1, size=shape)
    return k / den


JAC_PARAMS = [(-.5, -.5), (.5, .5), (-.5, .5), (.5, -.5), (0.0, 0.0), (0.0, 4.0), (2.5, -0.75),
              (-0.875, -0.125), (0.25, -0.25), (-0.25, -0.75), (4.75, -0.9375), (-0.9375, 4.75), (0.0, 1.0), (0.0, 7.0)]
JAC_NONDYADIC = [(0.3, 1.2), (3.7, -0.7)]
LAG_PARAMS = [0.0, 0.5, 2.0, -0.5, 4.75, -0.875]
DICK_PARAMS = [0.0, 1.0, -1.0, 0.75, -0.625]


def call_1d(P, fam, n, params, x):
    return getattr(P, fam)(n, *params, x)


def sweep_unit(ctx, P, fam, params, nmax, xs, label):
    for n in range(nmax + 1):
        desc = {'wl': 'sweep', 'fn': fam, 'params': list(params), 'n': n, 'pts': label,
                'class': f'{fam}:{jac_pclass(*params) if fam == "jacobi" else "p" + str(len(params))}:1d'}
        ctx.case(desc, nontrivial=n >= 1)
        with ctx.guard(f'C07/{fam}', desc):
            got = call_1d(P, fam, n, params, xs)
            if n <= 40:
                scipy_check(ctx, fam, n, params, xs, got, desc)


def scipy_check(ctx, fam, n, params, xs, got, desc):
    from scipy import special as sp
    f = {'jacobi': lambda: sp.eval_jacobi(n, params[0], params[1], xs), 'legendre': lambda: sp.eval_legendre(n, xs),
         'cheby1': lambda: sp.eval_chebyt(n, xs), 'cheby2': lambda: sp.eval_chebyu(n, xs),
         'hermite_He': lambda: sp.eval_hermitenorm(n, xs), 'hermite_H': lambda: sp.eval_hermite(n, xs),
         'laguerre': lambda: sp.eval_genlaguerre(n, params[0], xs)}.get(fam)
    if f is None:
        return
    with np.errstate(all='ignore'):
        ref = np.asarray(f(), dtype=float)
    if not np.all(np.isfinite(ref)) or np.shape(got) != ref.shape:
        ctx.skip('scipy secondary oracle not finite / shape differs')
        return
    scale = max(1.0, float(np.max(np.abs(ref))))
    err = float(np.max(np.abs(np.asarray(got, dtype=float) - ref)))
    ctx.observe('value.scipy')
    _track('value.scipy', err, 1e-9 * scale)
    if not err <= 1e-9 * scale:
        ctx.violation(f'C07/{fam}/value-vs-scipy/{nclass(n)}', f'{fam} differs from scipy.special evaluator (secondary float oracle)',
                      desc, err=err, tol=1e-9 * scale)


def shapes_unit(ctx, P, fam, params, orders, rng):
    lo, hi = domain(fam)
    for n in orders:
        inputs = [
            ('pyfloat', float(dyadic(rng, lo, hi, ()))),
            ('npscalar', np.float64(dyadic(rng, lo, hi, ()))),
            ('0d', np.array(float(dyadic(rng, lo, hi, ())))),
            ('1d-len1', dyadic(rng, lo, hi, (1,))),
            ('2d', dyadic(rng, lo, hi, (3, 5))),
            ('2d-col', dyadic(rng, lo, hi, (4, 1))),
            ('3d', dyadic(rng, lo, hi, (2, 3, 4))),
            ('1d-noncontig', dyadic(rng, lo, hi, (14,))[::2]),
            ('endpoints', np.array([lo, hi])),
            ('randfloat', rng.uniform(lo, hi, 3)),
        ]
        if n <= 12:
            inputs.append(('f32', dyadic(rng, lo, hi, (9,), den=64).astype(np.float32)))
            inputs.append(('f32-2d', dyadic(rng, lo, hi, (2, 3), den=64).astype(np.float32)))
        for cls, x in inputs:
            desc = {'wl': 'shapes', 'fn': fam, 'params': list(params), 'n': n, 'xcls': cls,
                    'x': np.asarray(x).ravel()[:4].tolist(), 'class': f'{fam}:{cls}'}
            ctx.case(desc, nontrivial=n >= 1)
            with ctx.guard(f'C07/{fam}/x={cls}', desc):
                call_1d(P, fam, n, params, x)


def gram_check(ctx, mon, fam, G, labels, desc, tol, keyfn=None):
    """G must be the identity.  labels[i] = class label of mode i (for the key)."""
    ctx.observe(mon)
    I = np.eye(G.shape[0])
    D = np.abs(G - I)
    err = float(D.max()) if np.all(np.isfinite(G)) else float('inf')
    _track(mon, err, tol)
    if err <= tol:
        return True
    if not math.isfinite(err):
        ctx.violation(f'C07/{fam}/gram/non-finite', f'{fam}: Gram matrix is not finite', desc)
        return False
    dd = np.diag(D)
    off = D - np.diag(dd)
    if dd.max() > tol:
        bad = sorted(set(labels[i] for i in np.nonzero(dd > tol)[0]))
        ctx.violation(f'C07/{fam}/gram/norm/{"|".join(bad[:4])}', f'{fam}: squared norm of a mode differs from the textbook value', desc,
                      err=float(dd.max()), tol=tol, first_bad=int(np.argmax(dd > tol)))
    if off.max() > tol:
        i, j = np.unravel_index(int(np.argmax(off)), off.shape)
        ii, jj = np.nonzero(off > tol)
        bad = sorted(set(labels[k] for k in np.concatenate([ii, jj])))
        ctx.violation(f'C07/{fam}/gram/not-orthogonal/{"|".join(bad[:4])}', f'{fam}: two distinct modes are not orthogonal under the family weight', desc,
                      err=float(off.max()), tol=tol, worst_pair=[int(i), int(j)])
    return False


def gram_1d_unit(ctx, P, fam, params, nmax, rule, logh, tol, mon):
    x, w = rule
    desc = {'wl': 'gram', 'fn': fam, 'params': list(params), 'nmax': nmax, 'nodes': int(len(x)), 'class': f'gram:{fam}'}
    ctx.case(desc)
    with ctx.guard(f'C07/{fam}/gram', desc):
        with np.errstate(all='ignore'):
            V = np.array([np.asarray(call_1d(P, fam, n, params, x), dtype=float) * math.exp(-0.5 * logh(n)) for n in range(nmax + 1)])
            G = (V * w) @ V.T
        gram_check(ctx, mon, fam, G, [nclass(n) for n in range(nmax + 1)], desc, tol)


def zernike_units(ctx, P, rng):
    nmax = ctx.pick(12, 30)
    nms = [(n, m) for n in range(nmax + 1) for m in range(-n, n + 1, 2)]
    rgrid = np.array([k / 32 for k in range(0, 33)] + [1 / 128, 127 / 128, 3 / 256, 255 / 256])
    units = []

    def sweep(part, nparts):
        tg = rng.uniform(0, 2 * np.pi, rgrid.shape)
        for i, (n, m) in enumerate(nms):
            if i % nparts != part:
                continue
            for norm in (True, False):
                desc = {'wl': 'sweep', 'fn': 'zernike_nm', 'n': n, 'm': m, 'norm': norm, 'class': f'zernike:{"m=0" if m == 0 else ("m>0" if m > 0 else "m<0")}:1d'}
                ctx.case(desc, nontrivial=n >= 1)
                with ctx.guard('C07/zernike_nm', desc):
                    P.zernike_nm(n, m, rgrid, tg, norm=norm)
            if n <= 12 and (n + abs(m)) % 3 == 0:
                for cls, r, t in [('pyfloat', 0.40625, 1.25), ('npscalar', np.float64(0.71875), np.float64(2.5)),
                                  ('0d', np.array(0.28125), np.array(4.0)),
                                  ('2d', dyadic(rng, 0, 1, (3, 5)), rng.uniform(0, 6.28, (3, 5))),
                                  ('3d', dyadic(rng, 0, 1, (2, 3, 2)), rng.uniform(0, 6.28, (2, 3, 2))),
                                  ('f32', dyadic(rng, 0, 1, (7,), den=64).astype(np.float32), rng.uniform(0, 6.28, 7).astype(np.float32)),
                                  ('r=0,1', np.array([0.0, 1.0]), np.array([0.5, 2.0]))]:
                    desc = {'wl': 'shapes', 'fn': 'zernike_nm', 'n': n, 'm': m, 'xcls': cls, 'class': f'zernike:{cls}'}
                    ctx.case(desc, nontrivial=n >= 1)
                    with ctx.guard(f'C07/zernike_nm/x={cls}', desc):
                        P.zernike_nm(n, m, r, t, norm=(n % 2 == 0))

    nparts = ctx.pick(2, 8)
    for part in range(nparts):
        units.append((lambda part=part: sweep(part, nparts), 2))

    def gram():
        R, T, W = E.disk_rule(nmax + 2, 4 * nmax + 8)
        desc = {'wl': 'gram', 'fn': 'zernike_nm', 'nmax': nmax, 'modes': len(nms), 'nodes': [int(R.shape[1]), int(R.shape[0])], 'class': 'gram:zernike'}
        ctx.case(desc)
        with ctx.guard('C07/zernike_nm/gram', desc):
            Z = np.array([P.zernike_nm(n, m, R, T, norm=True) for n, m in nms]).reshape(len(nms), -1)
            G = (Z * W.ravel()) @ Z.T
            gram_check(ctx, 'gram.zernike', 'zernike_nm', G, ['m=0' if m == 0 else 'm!=0' for n, m in nms], desc, 1e-9)
    units.append((gram, 3))
    return units


def q_units(ctx, P, rng):
    from numpy.polynomial import chebyshev as C
    units = []
    ugrid = grid_for('Qbfs')

    # ---- Q2d value sweep
    nmax, mmax = ctx.pick((10, 10), (30, 30))
    nparts = ctx.pick(2, 8)

    def sweep(part):
        tg = rng.uniform(0, 2 * np.pi, ugrid.shape)
        i = -1
        for m in range(-mmax, mmax + 1):
            for n in range(nmax + 1):
                i += 1
                if i % nparts != part:
                    continue
                desc = {'wl': 'sweep', 'fn': 'Q2d', 'n': n, 'm': m, 'class': f'Q2d:{q2d_mclass(m)}:1d'}
                ctx.case(desc)
                with ctx.guard('C07/Q2d', desc):
                    P.Q2d(n, m, ugrid, tg)
                if n <= 6 and abs(m) <= 6 and (n + m) % 4 == 0:
                    for cls, r, t in [('pyfloat', 0.40625, 1.25), ('npscalar', np.float64(0.71875), np.float64(2.5)),
                                      ('0d', np.array(0.28125), np.array(4.0)),
                                      ('2d', dyadic(rng, 0, 1, (3, 5)), rng.uniform(0, 6.28, (3, 5))),
                                      ('3d', dyadic(rng, 0, 1, (2, 3, 2)), rng.uniform(0, 6.28, (2, 3, 2))),
                                      ('f32', dyadic(rng, 0, 1, (7,), den=64).astype(np.float32), rng.uniform(0, 6.28, 7).astype(np.float32)),
                                      ('u=0,1', np.array([0.0, 1.0]), np.array([0.5, 2.0]))]:
                        desc = {'wl': 'shapes', 'fn': 'Q2d', 'n': n, 'm': m, 'xcls': cls, 'class': f'Q2d:{cls}'}
                        ctx.case(desc)
                        with ctx.guard(f'C07/Q2d/x={cls}', desc):
                            P.Q2d(n, m, r, t)
    for part in range(nparts):
        units.append((lambda part=part: sweep(part), 3))

    # ---- Qbfs slope Gram:  <S'_m S'_n> = (2/pi) int_0^1 S'_m S'_n / sqrt(1-u^2) du = delta
    def qbfs_gram():
        N = ctx.pick(40, 150)
        u, w = E.half_chebyshev_rule(2 * N + 6)
        desc = {'wl': 'gram', 'fn': 'Qbfs', 'nmax': N, 'nodes': int(len(u)), 'class': 'gram:qbfs-slope'}
        ctx.case(desc)
        with ctx.guard('C07/Qbfs/gram', desc):
            S = np.array([E.cheb_derivative(lambda xs, n=n: P.Qbfs(n, xs), 2 * n + 4, u) for n in range(N + 1)])
            G = (2 / np.pi) * (S * w) @ S.T
            gram_check(ctx, 'gram.qbfs-slope', 'Qbfs', G, [nclass(n) for n in range(N + 1)], desc, 1e-9)
    units.append((qbfs_gram, 2))

    # ---- 2D-Q gradient Gram
    def q2d_gram(msel, tag):
        gn, gm = ctx.pick((8, 8), (24, 24))
        nms = [(n, m) for n in range(gn + 1) for m in range(-gm, gm + 1) if msel(abs(m))]
        deg = 2 * gn + max(gm, 4)
        u, w = E.half_chebyshev_rule(deg + 2)
        nt = 2 * gm + 4
        th = np.arange(nt) * (2 * np.pi / nt)
        xs = C.chebpts1(deg + 1)
        XS, TH = np.meshgrid(xs, th, indexing='ij')
        UU, TT = np.meshgrid(u, th, indexing='ij')
        k = np.fft.fftfreq(nt, 1 / nt)
        desc = {'wl': 'gram', 'fn': 'Q2d', 'nmax': gn, 'mmax': gm, 'msel': tag, 'modes': len(nms), 'class': 'gram:q2d-gradient'}
        ctx.case(desc)
        with ctx.guard('C07/Q2d/gram', desc):
            GU, GT = [], []
            for n, m in nms:
                vals = P.Q2d(n, m, XS, TH)
                co = C.chebfit(xs, vals, deg)
                du = C.chebval(u, C.chebder(co)).T                   # d/du by spectral differentiation (exact for polynomials)
                f = P.Q2d(n, m, UU, TT)
                dt = np.fft.ifft(1j * k * np.fft.fft(f, axis=1), axis=1).real / UU   # (1/u) d/dt by FFT differentiation
                GU.append(du.ravel())
                GT.append(dt.ravel())
            GU = np.array(GU)
            GT = np.array(GT)
            Wt = (np.outer(w, np.full(nt, 2 * np.pi / nt)) / np.pi ** 2).ravel()
            G = (GU * Wt) @ GU.T + (GT * Wt) @ GT.T
            gram_check(ctx, 'gram.q2d-gradient', 'Q2d', G, [q2d_mclass(m) for n, m in nms], desc, 1e-9)
    if ctx.quick:
        units.append((lambda: q2d_gram(lambda am: True, 'all'), 3))
    else:
        for j in range(4):
            units.append((lambda j=j: q2d_gram(lambda am: am % 4 == j, f'|m|%4=={j}'), 6))
    return units


def xy_hopkins_unit(ctx, P, rng):
    M = ctx.pick(8, 20)
    x1 = dyadic(rng, -1, 1, (5,), den=64)
    y1 = dyadic(rng, -1, 1, (4,), den=64)
    X, Y = np.meshgrid(x1, y1)
    xr = dyadic(rng, -1, 1, (3, 4), den=64)
    yr = dyadic(rng, -1, 1, (3, 4), den=64)
    for m in range(M + 1):
        for n in range(M + 1):
            if m + n > M + 2 and (m * 7 + n) % 3:
                continue
            for cls, x, y, cart in [('grid2d', X, Y, True), ('axes1d', x1, y1, True), ('general2d', xr, yr, False),
                                    ('general1d', x1[:4], y1, False), ('general0d', np.array(0.375), np.array(-0.625), False),
                                    ('grid2d-nonsep-flag-off', X, Y, False)]:
                desc = {'wl': 'xy', 'fn': 'xy', 'm': m, 'n': n, 'xcls': cls, 'class': f'xy:{cls}'}
                ctx.case(desc, nontrivial=m + n >= 1)
                with ctx.guard(f'C07/xy/x={cls}', desc):
                    P.xy(m, n, x, y, cartesian_grid=cart)
    r = dyadic(rng, 0, 1, (6,), den=64)
    t = rng.uniform(0, 6.28, 6)
    H = dyadic(rng, 0, 1, (6,), den=64)
    A = ctx.pick(4, 8)
    for a in range(-A, A + 1):
        for b in range(0, A + 1, 1 if ctx.quick else 1):
            for c in range(0, A + 1, 2 if ctx.quick else 1):
                desc = {'wl': 'hopkins', 'fn': 'hopkins', 'a': a, 'b': b, 'c': c, 'class': f'hopkins:{"a<0" if a < 0 else ("a=0" if a == 0 else "a>0")}'}
                ctx.case(desc, nontrivial=(abs(a) + b + c) >= 1)
                with ctx.guard('C07/hopkins', desc):
                    P.hopkins(a, b, c, r, t, H)
                    if (a + b + c) % 5 == 0:
                        P.hopkins(a, b, c, 0.40625, 1.25, 0.71875)
                        P.hopkins(a, b, c, r.reshape(2, 3), t.reshape(2, 3), np.float64(0.5))


# ------------------------------------------------------------------------------------------ driver
def run(ctx):
    global CTX
    CTX = ctx
    WORST.clear()
    install()
    try:
        _run(ctx)
    finally:
        detach_all()
        ctx.note('worst_err_over_tol', {k: float('%.3g' % v) for k, v in sorted(WORST.items())})


def _run(ctx):
    import prysm.polynomials as P
    if ctx.shard == 0:
        E.selftest()
        ctx.note('refmodel_selftest', 'poly_exact.selftest() passed (two textbook forms, trig forms, Jacobi relations, Forbes closed forms n<=5 == exact Gram-Schmidt)')
    rng = ctx.rng('c07')
    NJ = ctx.pick(40, 150)        # Jacobi-family orders
    NH = ctx.pick(40, 60)         # Hermite / Laguerre / Dickson
    NQ = ctx.pick(40, QBFS_EXACT_MAX)
    units = []   # (callable, weight)

    def add(fn, weight=1):
        units.append((fn, weight))

    chunks = ctx.pick(2, 4)

    def add_sweeps(fam, params, nmax, weight):
        g = grid_for(fam)
        for c in range(chunks):
            xs = g[c::chunks]
            add(lambda fam=fam, params=params, nmax=nmax, xs=xs, c=c: sweep_unit(ctx, P, fam, params, nmax, xs, f'grid[{c}::{chunks}]'), weight)

    shape_orders = [0, 1, 2, 3, 4, 7, 12, 25] if ctx.quick else [0, 1, 2, 3, 4, 5, 7, 12, 25, 40]
    for ab in JAC_PARAMS:
        add_sweeps('jacobi', ab, NJ, 3)
    for ab in JAC_NONDYADIC:
        add_sweeps('jacobi', ab, ctx.pick(24, 40), 2)
    extra = [(float(a), float(b)) for a, b in dyadic(rng, -0.9375, 5.0, (ctx.pick(2, 8), 2), den=16)]
    for ab in extra:
        add_sweeps('jacobi', ab, ctx.pick(30, 80), 2)
    for ab in JAC_PARAMS[:8] + extra[:2]:
        add(lambda ab=ab: shapes_unit(ctx, P, 'jacobi', ab, shape_orders, ctx.rng('shapes', 'jacobi', ab)), 1)
    for fam in ('legendre', 'cheby1', 'cheby2', 'cheby3', 'cheby4'):
        add_sweeps(fam, (), NJ, 3)
        add(lambda fam=fam: shapes_unit(ctx, P, fam, (), shape_orders, ctx.rng('shapes', fam)), 1)
    for fam in ('hermite_He', 'hermite_H'):
        add_sweeps(fam, (), NH, 2)
        add(lambda fam=fam: shapes_unit(ctx, P, fam, (), shape_orders, ctx.rng('shapes', fam)), 1)
    for a in LAG_PARAMS:
        add_sweeps('laguerre', (a,), NH, 2)
    add(lambda: shapes_unit(ctx, P, 'laguerre', (0.5,), shape_orders, ctx.rng('shapes', 'laguerre')), 1)
    add(lambda: shapes_unit(ctx, P, 'laguerre', (-0.875,), shape_orders[:6], ctx.rng('shapes', 'laguerre2')), 1)
    for fam in ('dickson1', 'dickson2'):
        for a in DICK_PARAMS:
            add_sweeps(fam, (a,), NH, 1)
        add(lambda fam=fam: shapes_unit(ctx, P, fam, (0.75,), shape_orders, ctx.rng('shapes', fam)), 1)
    add_sweeps('Qbfs', (), NQ, 3)
    add_sweeps('Qcon', (), NJ, 3)
    for fam in ('Qbfs', 'Qcon'):
        add(lambda fam=fam: shapes_unit(ctx, P, fam, (), shape_orders, ctx.rng('shapes', fam)), 1)

    # ---- M2: Gram matrices of the 1-D families
    # tolerance on |G - I|: quadrature-side round-off (scipy Gauss-Jacobi nodes/weights, lgamma norms) measured in recon:
    # classical parameters 4e-14 (n<=40) / 1.2e-12 (n<=150); general parameters 3e-11 / 9e-11  ->  >= 3 decades below
    def GT(nmax):
        return 1e-9 if nmax <= 40 else 1e-8
    for ab in JAC_PARAMS + JAC_NONDYADIC + extra[:2]:
        classical = jac_pclass(*ab) in ('a=b=0', 'half-integer') or ab in ((0.0, 4.0), (0.0, 1.0), (0.0, 7.0))
        nm = NJ if ab in JAC_PARAMS else ctx.pick(30, 60)
        add(lambda ab=ab, nm=nm, classical=classical: gram_1d_unit(
            ctx, P, 'jacobi', ab, nm, E.gauss_jacobi(nm + 2, *ab), lambda n: math.log(E.jacobi_h(n, *ab)),
            GT(nm) if classical else 100 * GT(nm), 'gram.jacobi'), 2)
    add(lambda: gram_1d_unit(ctx, P, 'legendre', (), NJ, E.gauss_jacobi(NJ + 2, 0, 0), lambda n: math.log(2 / (2 * n + 1)), GT(NJ), 'gram.legendre'), 2)
    for kind, (a, b) in ((1, (-.5, -.5)), (2, (.5, .5)), (3, (-.5, .5)), (4, (.5, -.5))):
        add(lambda kind=kind, a=a, b=b: gram_1d_unit(ctx, P, f'cheby{kind}', (), NJ, E.gauss_jacobi(NJ + 2, a, b),
                                                     lambda n: math.log(E.cheby_h(kind, n)), GT(NJ), 'gram.cheby'), 2)
    for kind, fam in (('He', 'hermite_He'), ('H', 'hermite_H')):
        add(lambda kind=kind, fam=fam: gram_1d_unit(ctx, P, fam, (), NH, E.gauss_hermite(kind, NH + 2),
                                                    lambda n: E.log_hermite_h(kind, n), 1e-9, 'gram.hermite'), 1)
    for a in LAG_PARAMS:
        add(lambda a=a: gram_1d_unit(ctx, P, 'laguerre', (a,), NH, E.gauss_laguerre(NH + 2, a),
                                     lambda n: E.log_laguerre_h(n, a), 1e-9, 'gram.laguerre'), 1)

    units.extend(zernike_units(ctx, P, ctx.rng('zernike')))
    units.extend(q_units(ctx, P, ctx.rng('q')))
    add(lambda: xy_hopkins_unit(ctx, P, ctx.rng('xy')), 1)

    # heaviest first, dealt round-robin: deterministic and reasonably balanced
    order = sorted(range(len(units)), key=lambda i: (-units[i][1], i))
    for pos, i in enumerate(order):
        if ctx.mine(pos):
            units[i][0]()
    ctx.note('orders', {'jacobi_family': NJ, 'hermite_laguerre_dickson': NH, 'qbfs_exact': NQ, 'qbfs_gram': ctx.pick(40, 150),
                        'zernike_n': ctx.pick(12, 30), 'q2d_value_nm': list(ctx.pick((10, 10), (30, 30))),
                        'q2d_gram_nm': list(ctx.pick((8, 8), (24, 24)))})


def replay(ctx, rec):
    run(ctx)
