"""C07 — polynomial bases equal their textbook definitions and are orthogonal.

Monitors
  M1  contracts attached to the real single-order value routines (jacobi, legendre, cheby1-4, hermite_He/H, laguerre,
      dickson1/2, zernike_nm, Qbfs, Qcon, Q2d, xy, hopkins).  *Every* call — also the ones prysm makes internally
      (cheby -> jacobi, zernike_nm -> jacobi, Q2d -> Qbfs ...) — is compared, at all points of small arrays and at a
      few spread points of large ones, with the exact-rational closed-form definition of vp/refmodels/poly_exact.py
      (Qbfs / 2D-Q: exact Gram-Schmidt from the orthonormal-gradient definition, which reproduces Forbes' published
      closed forms n<=5 exactly), rounded once.  Shape of the result must be the shape of the coordinates.
      Secondary float oracle: scipy.special.eval_* on whole arrays (n <= 40).
  M1s the same definition-contracts attached to the real sequence-form routines (jacobi_seq, legendre_seq, cheby1..4_seq,
      hermite_He_seq, hermite_H_seq, laguerre_seq, dickson1_seq, dickson2_seq, Qbfs_seq, Qcon_seq, zernike_nm_seq with
      norm=True and norm=False, Q2d_seq, xy_seq): row k of every result - also of the calls prysm makes internally
      (cheby*_seq / legendre_seq / Qcon_seq / zernike_nm_seq -> jacobi_seq, Q2d_seq -> Qbfs_seq, xy_seq -> dickson2_seq) -
      is compared with the exact definition of the k-th requested order (same oracles, same tolerances), and the shape must
      be (len(orders), *coordinate shape).  A failure is attributed to a mechanism class by re-running the original routine
      (quietly: not monitored, not counted) on neighbouring order lists: list-independent / omits-order-<o> /
      gap-above-order-2 / with-companion-orders (one index), after-|before-<relation of the triggering term> (two indices).
  M2  orthogonality by exact quadrature (law monitors driven by the workload): Gauss-Jacobi Gram matrices with the
      textbook norms h_n for jacobi / legendre / cheby1-4 (and Gauss-Hermite / Gauss-Laguerre ones, implied by the
      definitions), Zernike Gram = I on the unit disk, Qbfs slope Gram = I and 2D-Q gradient Gram = I under
      (1/pi^2) int int f / sqrt(1-u^2) du dt with slopes taken from the *value* routine by spectral differentiation.
"""
import math
import sys

import numpy as np

from ..contracts import attach, detach_all, quiet
from ..polyhard import (cfg32, clear_caches, warm32, layouts, is_c_contig, contig, order_containers, foreign_traffic, high_orders, seq_coord_kind_ok, coord_forms,
                        form_class, more_order_containers, term_containers, ORDER_FORMS, NM_FORMS, N_ONLY_FORMS, PARAM_FORMS, INT_PARAM_FORMS, INT_HERMITE_MAX_ORDER,
                        scales, ulps, special_class, near_special_jacobi, near_special_scalar, EXACT_SPECIAL_JACOBI, GENERIC_NEIGHBOURS_JACOBI, term_orderings)
from ..refmodels import poly_exact as E
from ..util import precision

Q = E.Q

RULE = ('families x parameter classes (Chebyshev half-integers, Legendre, (0,4), alpha+beta in {0,-1}, dyadic random '
        'parameters in (-1,5), two non-dyadic pairs) x every order 0..N x dyadic-rational grids incl. both end points, '
        'then input-shape classes (python float, numpy scalar, 0-d, 1-D, 2-D, 3-D, float32) and random float points; '
        'all (n,m) of valid parity for Zernike, all (n,|m|<=M) for 2D-Q; Gram matrices by Gauss quadrature exact for '
        'the degrees used. Sequence forms: every *_seq routine x parameter sets x hostile order lists (ALL non-empty ascending '
        'subsets of {0..6} (thorough {0..7}) on 0-D, 1-D and 2-D coordinates; singletons of every order up to the bound; dense '
        'lists; contiguous lists starting at 1, 2, >=3; gapped lists omitting 0, 1, 2 or higher orders; random sorted lists; order '
        'list given as list / tuple / ndarray / range) x coordinate classes (0-D, 1-D incl. both end points, 2-D, 2-D with leading '
        'dimension len(orders), 3-D, length-1, non-contiguous, float32); two-index families: singletons of every term, (n,+m),(n,-m) '
        'pairs in both orders, repeated terms, m=0-only and mixed lists, unsorted same-|m| lists, lists omitting the low radial '
        'orders, the m=1 / m>=2 branches of Q2d_seq by largest order, full sets forward and reversed, random shuffled lists with '
        'repeats, terms as tuples or lists, every norm option (True / False / default), cartesian (meshgrid, separable, 1xN, Mx1) '
        'and general coordinates for xy_seq. A case is non-trivial when the polynomial has degree >= 1; distinct = distinct '
        'descriptor (family, parameters, order or order list, input class, point-set). Hardening classes: every unit starts with a quiet float32 '
        'session under config.precision = 32 of the same routines up to the unit\'s highest order (32 -> 64 switch: the float64 calls that follow '
        'are judged at full tolerance); units run entirely under precision = 32 (float32 / float64 / 0-D coordinates, single-precision tolerance); '
        'history units per family (memo tables emptied where possible, then {float32 low orders | float32 high orders | nothing}, then orders '
        '2,5,3,17,18,19,16,41,40,7,0,1,4,top or descending, interleaved over parameter sets sharing alpha, beta or alpha+beta, single-order and '
        'sequence forms, then a descending sweep), across the families sharing the Jacobi table (cheby1-4 / legendre / Qcon / zernike m=0,1,4 <-> '
        'jacobi) and for Qbfs / 2D-Q (m = 0,1,2,3,7); aliasing units (one coordinate object shared by consecutive single-order / sequence / '
        'cross-family calls, every result judged against the PRISTINE values, earlier results must survive later calls, results overwritten with NaN '
        'before asking again); memory layouts (Fortran, transposed view, strided, window, reversed strides; 1-D, 2-D, 3-D) of every coordinate; '
        'containers (orders as int32 / int64 / intp scalars and list / tuple / int32 / int64 ndarray / numpy ints / range, parameters as numpy '
        'float64, term lists as lists / tuples / int ndarrays); orders >= 18 and >= 40 for the two-index families, monomials and Hopkins terms in '
        'the quick tier too; shape parameters as numpy float32 scalars followed by the same values as python floats. Hardening pass 2: class D in the quick '
        'tier - orders 171, 172, 200, 256, 400 (Hermite: to 200) for every family, single-order and sequence form on the same points, against the exact '
        'definition; class E - argument forms the current tree accepts as the same input (table in vp/polyhard.py): coordinates as python int / float / '
        'complex, int64 / int32 / bool ndarrays, complex128 (exact definition at Gaussian-rational points) and complex64, orders as python int / int64 / int32 / '
        'uint32 / uint64 / intp and in lists / unsigned ndarrays / dict key views / generators, (n, m) as numpy integers (unsigned for n only), term lists in '
        'every accepted container, shape parameters as numpy float64 / float32 / python int / numpy int64 incl. the lines alpha + beta = -1, 0 with alpha != beta, '
        'norm / cartesian_grid omitted vs explicit (also after the other explicit value, positional vs keyword); class F - every family judged after unmonitored '
        'traffic through the shared recurrence tables from the derivative / Clenshaw / change-of-basis / fit routines (precision 32, numpy-typed orders, ndarray '
        'coefficients). Hardening pass 3: class H - shape parameters that are special only UP TO ROUNDING (alpha = 0.1 + 0.2, beta = -0.3; alpha = 1/3, beta = -(1 - 2/3); alpha + beta = -1 +- 1 ulp; '
        'a parameter one ulp from 0, +-1/2, an integer; alpha -> -1; thorough: every +-1..3 ulp neighbour of eight special pairs), the exactly special ones (alpha or beta exactly 0, -1/2, 1/2; '
        'alpha + beta exactly 0 / -1 with alpha != beta) and clearly generic neighbours for jacobi, laguerre, dickson1/2, single-order and sequence form, judged against the definition at the EXACT '
        'RATIONAL VALUE of the floats; evaluation points exactly at 0, -0.0, +-1, the ends of each domain and one ulp inside them as arrays / 0-d / length-1 / python floats, order lists containing '
        'only order 0, the two-index families on the axis (r = 0, |m| = 0, 1, 2) and on the rim, angles at exact multiples of pi/2, monomials with zero base and zero exponent, Hopkins terms at '
        'r = 0 / H = 0; class G - x^m y^n and cos(a t) r^b H^c with the coordinates scaled by 1e-12 ... 1e12 (both, one of them), judged against the exact definition RELATIVE to the size of the '
        'reference (no absolute floor); class I - every ordering of the two-index term lists (ascending, descending, grouped by |m| with n ascending / descending, m-major, sine terms first, radial '
        'orders non-ascending inside each |m| group with the groups interleaved, shuffles, ALL permutations of three-term same-|m| groups incl. mixed signs, list or (k, 2) ndarray)')
ASSUMPTIONS = ['textbook definitions as written in vp/refmodels/poly_exact.py (Szego 4.3.2 Jacobi sum; Mason-Handscomb '
               'numbering of the 3rd/4th-kind Chebyshev polynomials; Dickson D_0 = 2; Zernike norm sqrt(2(n+1)/(1+delta_m0)))',
               'Qbfs / 2D-Q are defined by: degree n in u^2, positive at the origin, orthonormal gradients under '
               '(1/pi^2) int_0^2pi int_0^1 f/sqrt(1-u^2) du dt with grad = (d/du, (1/u) d/dt) (measure calibrated in design recon; '
               'reproduces Forbes 2007 eq. 2.7 closed forms exactly)',
               'fractions.Fraction arithmetic and float(Fraction) rounding are exact / correctly rounded',
               'numpy/scipy Gauss rules (roots_jacobi, hermgauss, hermegauss, roots_genlaguerre, leggauss) and math.lgamma',
               'math.cos/sin for the azimuthal factor of Zernike / 2D-Q / Hopkins',
               'sequence forms: one-index order lists are in-domain when non-empty, non-negative and strictly ascending (documented: '
               '"sorted polynomial orders"), two-index term lists in any order with repeats; coordinates are floating ndarrays, r and t '
               'of one common shape; other requests reaching a contract are excluded and counted',
               'orders are python ints or numpy int32 / int64 / intp; orders or parameters given as 8/16-bit numpy integers are out of domain (excluded and '
               'counted); single-precision class (float32 coordinate or result, or config.precision = 32): tolerance 2e-3 of scale, orders <= 12',
               'emptying prysm\'s memo tables (functools cache_clear, where a helper offers it) never changes what a correct library returns; it is used to '
               'start histories from a known state and to label a failure as history-dependent',
               'a caller may overwrite an array a routine returned, unless that array shares memory with the coordinates it passed (counted, not judged)',
               'argument forms (class E): the set of accepted forms is DATA established on /repo @ faa8443 (vp/polyhard.py): a form for which the current tree raises, truncates '
               'into an integer dtype or wraps (unsigned coordinates, integer / bool coordinates of most *_seq routines, python-scalar coordinates of *_seq, unsigned m, '
               '0-d array orders - unhashable, rejected by property-preserving refactors that key tables by order -, generators for cheby2/4_seq and the two-index lists) is out of domain; '
               'a complex point is judged against the analytic continuation of the definition (exact Gaussian-rational arithmetic); float32-typed shape parameters and complex64 '
               'coordinates are the single-precision class (orders <= 12); integer-typed coordinates of the integer-arithmetic families (Hermite, Dickson) are judged while the value fits a quarter of the range of the coordinate dtype (the recurrence is evaluated modulo 2^bits)',
               'a reference value (or its two lower-order neighbours) beyond 1e290 is beyond the family\'s numerically meaningful limit: excluded and counted',
               'parameters special only up to rounding are IN domain (alpha, beta > -1): the polynomial is smooth (polynomial) in its parameters, so the definition at the exact rational value of the '
               'floats is the reference at the ordinary tolerance; only the corner alpha + beta + 2 < 2^-20 (BOTH parameters within 1e-6 of -1, where h_1 has a pole and the three-term recurrence '
               'divides by alpha + beta + 2) is beyond the numerically meaningful limit: excluded and counted (observed on /repo @ c2c1d7f: jacobi(2, -1 + 2 ulp, -1 + 1 ulp, -1) = 0.22 instead of 5.6e-17)',
               'the magnitude regimes of class G are judged by workload monitors relative to sup |reference|; the contracts keep their absolute floor of 1',
               'xy_seq with cartesian_grid=True and 0-D/1-D coordinates is excluded and counted (grid-axes vs point-list reading is the '
               'open C08 ledger entry), cartesian 2-D grids are read as documented: arr[y, x], first row / first column']
REQUIRED = ['value.jacobi', 'value.legendre', 'value.cheby1', 'value.cheby2', 'value.cheby3', 'value.cheby4',
            'value.hermite_He', 'value.hermite_H', 'value.laguerre', 'value.dickson1', 'value.dickson2',
            'value.zernike_nm', 'value.Qbfs', 'value.Qcon', 'value.Q2d', 'value.xy', 'value.hopkins',
            'gram.jacobi', 'gram.legendre', 'gram.cheby', 'gram.zernike', 'gram.qbfs-slope', 'gram.q2d-gradient',
            'value.jacobi_seq', 'value.legendre_seq', 'value.cheby1_seq', 'value.cheby2_seq', 'value.cheby3_seq', 'value.cheby4_seq',
            'value.hermite_He_seq', 'value.hermite_H_seq', 'value.laguerre_seq', 'value.dickson1_seq', 'value.dickson2_seq',
            'value.Qbfs_seq', 'value.Qcon_seq', 'value.zernike_nm_seq.norm', 'value.zernike_nm_seq.nonorm', 'value.Q2d_seq', 'value.xy_seq',
            'alias.result-stable', 'alias.jacobi', 'alias.Qbfs', 'alias.Qcon', 'alias.zernike', 'alias.q2d',
            'classD.very-high-orders', 'classE.argument-forms', 'classF.foreign-traffic',
            'classG.scale-laws', 'classH.special-parameters', 'classH.special-points', 'classI.orderings']

CTX = None
WORST = {}          # monitor -> worst err/tol seen (reported as a note: distance to the threshold)
QBFS_EXACT_MAX = 100

RT64 = 1e-9
RT32 = 2e-3     # single-precision class (float32 data or config.precision = 32), n <= 12: observed round-off <= 1.6e-6 of scale


def _track(name, err, tol):
    if tol > 0 and math.isfinite(err):
        r = err / tol
        if r > WORST.get(name, 0.0):
            WORST[name] = r
        if r > 1e-3:
            CTX.event(f'within-{"2" if r > 1e-2 else "3"}-decades-of-threshold:{name}')


# ------------------------------------------------------------------------------------------ class labels
def nclass(n, tag='n'):
    return f'{tag}={n}' if n <= 2 else f'{tag}>=3'


def jac_pclass(a, b):
    if a == 0 and b == 0:
        return 'a=b=0'
    if abs(a) == 0.5 and abs(b) == 0.5:
        return 'half-integer'
    if a + b == 0:
        return 'a+b=0'
    if a + b == -1:
        return 'a+b=-1'
    sp = special_class((a, b))
    if sp is not None:
        return 'special:' + sp[0]          # special only up to rounding (HARDENING3 class H): within 2^-26 of a special line, not on it
    return 'general'


DEGENERATE_SKIP = ('jacobi: alpha + beta + 2 < 2^-20 (both parameters within 1e-6 of -1: the corner of the parameter domain where the family degenerates - h_1 has a pole - and the '
                   'three-term recurrence divides by alpha + beta + 2; beyond the numerically meaningful limit)')


def degenerate_corner(params):
    try:
        return float(params[0]) + float(params[1]) + 2.0 < 2.0 ** -20
    except (TypeError, ValueError):
        return False


def scalar_pclass(params):
    """Key label of ONE shape parameter (Laguerre, Dickson) that is special only up to rounding, else ''."""
    sp = special_class(tuple(float(v) for v in params)) if len(params) == 1 else None
    return ('special:' + sp[0]) if sp is not None else ''


def xclass(x):
    if isinstance(x, (float, int)):
        return 'pyscalar'
    x = np.asarray(x) if not isinstance(x, np.generic) else x
    if isinstance(x, np.generic):
        return 'npscalar'
    return f'{x.ndim}d'


def is_f32(*arrs):
    """Single-precision class: a float32 / complex64 coordinate, result or shape parameter, or prysm configured with precision = 32 (whatever the dtypes)."""
    return any(getattr(a, 'dtype', None) in (np.float32, np.complex64) for a in arrs) or cfg32()


BIG = 1e290          # a reference value (or its neighbours in order) beyond this is "beyond the double range": nothing to compare (excluded and counted)
INT_ARITHMETIC_FAMS = ('hermite_He', 'hermite_H', 'dickson1', 'dickson2')


def numtype(*arrs):
    """complex when any of the arrays is complex, else float (the type a result is compared in)."""
    return complex if any(np.asarray(a).dtype.kind == 'c' for a in arrs) else float


def jnum(v):
    """A coordinate value for a JSON detail record."""
    v = complex(v)
    return float(v.real) if v.imag == 0 else [float(v.real), float(v.imag)]


HISTORY = [None]        # class label of the history the workload is in (set by the history units), for mechanism keys


NARROW = 'orders-as-narrow-numpy-int'
NARROW_SKIP = ('order or shape parameter given as an 8/16-bit numpy integer (out of domain: arithmetic on such scalars overflows by nature; '
               'numpy orders are in-domain as int32 / int64 / intp)')


def narrow(*vals):
    """Is an order argument a numpy integer (scalar, or array / list of them) narrower than 32 bits?"""
    for v in vals:
        if isinstance(v, (np.integer, np.ndarray)) and v.dtype.kind in 'iu' and v.dtype.itemsize < 4:
            return True
        if isinstance(v, (list, tuple)) and any(narrow(*(e if isinstance(e, (list, tuple)) else [e])) for e in v):
            return True
    return False


def mechanism(recheck, coords, retyped=None):      # retyped: unused (8/16-bit integer orders are excluded before a verdict)
    """Mechanism class of a value failure, found by re-running the ORIGINAL routine quietly (post-conditions run inside
    contracts.quiet(): not monitored, not counted).  recheck(transform) -> True when the routine is right for the coordinates
    transformed by `transform` (None: the very same argument objects).

      not-repeatable       right when the very same call is simply made again (e.g. an inner contract has already emptied the tables)
      memory-layout        right for C-contiguous private copies of the coordinates (some coordinate is not C-contiguous)
      history-dependent[:<history class>]  right once the memoised recurrence coefficients have been emptied: state left by an
                           earlier call (the history class is the one the workload declared, if any)
      ''                   wrong regardless (the defect does not depend on layout or history)"""
    try:
        if recheck(None):
            return 'not-repeatable'
        if any(not is_c_contig(c) for c in coords) and recheck(contig):
            return 'memory-layout'
        if clear_caches() and recheck(None):
            return 'history-dependent' + (':' + HISTORY[0] if HISTORY[0] else '')
    except Exception:  # noqa
        pass
    return ''


# ------------------------------------------------------------------------------------------ exact references
def _f(q):
    return E.to_number(q)          # float (+-inf beyond the double range) or complex (Gaussian-rational point)


def ex_qbfs(n, x):
    rp, nv = E.q_radial(n, 0, x)
    return E.to_number(rp) / math.sqrt(nv)


ONE_D = {
    # name -> (submodule, n_params, exact(n, params, x) -> float)
    'jacobi': ('jacobi', 2, lambda n, p, x: _f(E.jacobi(n, p[0], p[1], x))),
    'legendre': ('legendre', 0, lambda n, p, x: _f(E.legendre(n, x))),
    'cheby1': ('cheby', 0, lambda n, p, x: _f(E.cheby1(n, x))),
    'cheby2': ('cheby', 0, lambda n, p, x: _f(E.cheby2(n, x))),
    'cheby3': ('cheby', 0, lambda n, p, x: _f(E.cheby3(n, x))),
    'cheby4': ('cheby', 0, lambda n, p, x: _f(E.cheby4(n, x))),
    'hermite_He': ('hermite', 0, lambda n, p, x: _f(E.hermite_He(n, x))),
    'hermite_H': ('hermite', 0, lambda n, p, x: _f(E.hermite_H(n, x))),
    'laguerre': ('laguerre', 1, lambda n, p, x: _f(E.laguerre(n, p[0], x))),
    'dickson1': ('dickson', 1, lambda n, p, x: _f(E.dickson1(n, p[0], x))),
    'dickson2': ('dickson', 1, lambda n, p, x: _f(E.dickson2(n, p[0], x))),
    'Qbfs': ('qpoly', 0, lambda n, p, x: ex_qbfs(n, x)),
    'Qcon': ('qpoly', 0, lambda n, p, x: _f(E.qcon(n, x))),
}


def pick_indices(size, n, cheap):
    """Which flat elements of a result are compared with the exact definition."""
    if size <= 64 and (cheap or n <= 24):
        return list(range(size))
    k = 6 if n <= 40 else (2 if n <= 100 else 1)
    k = min(k, size)
    return sorted(set(int(round(v)) for v in np.linspace(0, size - 1, k + 2)[1:-1])) if size > k else list(range(size))


def cheap_point(q):
    return q.denominator.bit_length() <= 14


def result_shape_ok(fam, result, coords, desc, want=None):
    want = tuple(np.broadcast_shapes(*[np.shape(c) for c in coords])) if want is None else want
    got = np.shape(result)
    if got != want:
        CTX.violation(f'C07/{fam}/shape/x={xclass(coords[0])}', f'{fam} returned shape {got} for coordinates of shape {want}', desc,
                      got_shape=list(got), want_shape=list(want))
        return False
    return True


def post_1d(fam):
    sub, npar, exact = ONE_D[fam]
    mon = 'value.' + fam

    def post(token, args, kwargs, result):
        names = ['n'] + ['alpha', 'beta'][:npar] + ['x']
        a = dict(zip(names, args))
        a.update(kwargs)
        n = int(a['n'])
        params = tuple(a[k] for k in names[1:-1])
        x = a['x']
        if n < 0:
            return      # negative orders are not polynomials of the family (out of domain)
        if narrow(a['n'], *params):
            CTX.skip(NARROW_SKIP)
            return
        desc = {'fn': fam, 'n': n, 'params': [float(v) for v in params], 'x': xclass(x), 'shape': list(np.shape(x)),
                'dtype': str(getattr(x, 'dtype', type(x).__name__))}
        if fam == 'jacobi' and degenerate_corner(params):
            CTX.skip(DEGENERATE_SKIP)
            return
        xkind = np.asarray(x).dtype.kind
        if xkind not in 'fcib':
            CTX.skip(f'{fam}: coordinate dtype kind outside the accepted forms (unsigned integers wrap in x - 1; class E table of vp/polyhard.py)')
            return
        # integer-typed coordinates of the families whose recurrence stays in integer arithmetic (Hermite; Dickson with an integer alpha): the value is
        # computed modulo 2^bits of the coordinate dtype - right only while it fits (H_19(3) = 7.8e12 does not fit an int32); beyond, excluded and counted
        int_limit = 2.0 ** (8 * np.asarray(x).dtype.itemsize - 2) if (xkind in 'ib' and fam in INT_ARITHMETIC_FAMS) else None
        if fam == 'Qbfs' and n > QBFS_EXACT_MAX:
            CTX.skip('Qbfs exact (Gram-Schmidt) oracle limited to n<=%d; covered by the slope Gram monitor' % QBFS_EXACT_MAX)
            result_shape_ok(fam, result, [x], desc)
            return
        CTX.observe(mon)
        if not result_shape_ok(fam, result, [x], desc):
            return
        xf = np.asarray(x).ravel()
        rf = np.asarray(result).ravel()
        if xf.size == 0:
            return
        qs_all_cheap = xf.size <= 64 and all(cheap_point(E.rat(v)) for v in xf)
        idx = pick_indices(xf.size, n, qs_all_cheap)
        pr = tuple(E.rat(v) for v in params)
        f32 = is_f32(x, result, *params)
        rtol = RT32 if f32 else RT64
        if f32 and n > 12 and not is_f32(x, result) and not cfg32():
            CTX.skip('single-precision class (float32-typed shape parameters) is judged for orders <= 12')
            return
        ref = []
        scale = 1.0
        use = []
        for i in idx:
            if not np.isfinite(xf[i]):
                CTX.skip('non-finite coordinate')
                continue
            q = E.rat(xf[i])
            r = exact(n, pr, q)
            sc = max([abs(r)] + [abs(exact(k, pr, q)) for k in (n - 1, n - 2) if k >= 0])
            if not sc < BIG:
                CTX.skip('reference value beyond the double range (numerically meaningful limit of the family at this order)')
                continue
            if int_limit is not None and not sc < int_limit:
                CTX.skip('integer-typed coordinates: the value does not fit the integer dtype the recurrence is evaluated in (overflow by nature)')
                continue
            ref.append(r)
            use.append(i)
            scale = max(scale, sc)
        if not use:
            return
        got = rf[use].astype(numtype(rf, ref))
        ref = np.array(ref)
        with np.errstate(all='ignore'):
            err = float(np.max(np.abs(got - ref))) if np.all(np.isfinite(got)) else float('inf')
        tol = rtol * scale
        _track(mon + ('.f32' if f32 else ''), err, tol)
        if not err <= tol:
            def recheck(tr):
                out = np.asarray(ORIG[fam](a['n'], *params, x if tr is None else tr(x)))
                return out.shape == np.shape(x) and row_err(out.ravel()[use].astype(numtype(out, ref)), ref) <= tol
            pc = jac_pclass(*[float(v) for v in params]) if fam == 'jacobi' else scalar_pclass(params)
            def retyped():
                out = np.asarray(ORIG[fam](n, *[float(v) for v in params], x))
                return out.shape == np.shape(x) and row_err(out.ravel()[use].astype(numtype(out, ref)), ref) <= tol
            mech = mechanism(recheck, [x], retyped if narrow(a['n'], *params) else None)
            key = '/'.join(s for s in (['C07', fam, mech] if mech == NARROW else ['C07', fam, 'value', mech] if mech else ['C07', fam, 'value', pc, 'orders>=171' if n >= 171 else nclass(n), 'f32' if f32 else '']) if s)
            j = int(np.argmax(np.abs(got - ref))) if math.isfinite(err) else 0
            if not mech and xkind != 'f':
                # class E attribution: right at the same points given as float64 -> the defect is specific to the coordinate form
                try:
                    with np.errstate(all='ignore'):
                        xc = np.asarray(x).astype(complex if xkind == 'c' else float)
                        o2 = np.asarray(ORIG[fam](n, *[float(v) for v in params], xc.real.copy() if xkind == 'c' else xc))
                        r2 = np.array([exact(n, pr, E.rat(float(np.real(xf[i])))) for i in use])
                    if o2.shape == np.shape(x) and row_err(o2.ravel()[use].astype(float), r2) <= tol:
                        key = f'C07/{fam}/value/form:x=' + form_class(str(np.asarray(x).dtype))
                except Exception:  # noqa
                    pass
            CTX.violation(key, f'{fam}(n, ...) differs from its closed-form definition', desc, err=err, tol=tol,
                          at=jnum(xf[use[j]]), got=jnum(got[j]), ref=jnum(ref[j]))
    return post


def _trig(m, t):
    if m > 0:
        return math.cos(m * t)
    if m < 0:
        return math.sin(-m * t)
    return 1.0


def post_zernike(token, args, kwargs, result):
    a = dict(zip(['n', 'm', 'r', 't', 'norm'], args))
    a.update(kwargs)
    n, m, r, t, norm = int(a['n']), int(a['m']), a['r'], a['t'], a.get('norm', True)
    if abs(m) > n or (n - abs(m)) % 2:
        return   # not a Zernike index
    if narrow(a['n'], a['m']):
        CTX.skip(NARROW_SKIP)
        return
    desc = {'fn': 'zernike_nm', 'n': n, 'm': m, 'norm': bool(norm), 'x': xclass(r), 'shape': list(np.shape(r)),
            'dtype': str(getattr(r, 'dtype', type(r).__name__))}
    CTX.observe('value.zernike_nm')
    if not result_shape_ok('zernike_nm', result, [r, t], desc):
        return
    rb, tb = np.broadcast_arrays(np.asarray(r), np.asarray(t))
    rf, tf, gf = rb.ravel(), tb.ravel(), np.asarray(result).ravel()
    if rf.size == 0:
        return
    cheap = rf.size <= 64 and all(cheap_point(E.rat(v)) for v in rf)
    idx = pick_indices(rf.size, n, cheap)
    nrm = math.sqrt(E.zernike_norm2(n, m)) if norm else 1.0
    f32 = is_f32(r, t, result)
    ref = np.array([float(E.zernike_R(n, abs(m), E.rat(rf[i]))) * _trig(m, float(tf[i])) * nrm for i in idx])
    got = gf[idx].astype(float)
    scale = max(1.0, nrm)
    err = float(np.max(np.abs(got - ref))) if np.all(np.isfinite(got)) else float('inf')
    tol = (RT32 if f32 else RT64) * scale
    _track('value.zernike_nm' + ('.f32' if f32 else ''), err, tol)
    if not err <= tol:
        def recheck(tr):
            out = np.asarray(ORIG['zernike_nm'](a['n'], a['m'], r if tr is None else tr(r), t if tr is None else tr(t), norm=norm))
            return out.shape == np.shape(result) and row_err(out.ravel()[idx].astype(float), ref) <= tol
        mc = 'm=0' if m == 0 else ('m>0' if m > 0 else 'm<0')
        def retyped():
            out = np.asarray(ORIG['zernike_nm'](n, m, r, t, norm=norm))
            return out.shape == np.shape(result) and row_err(out.ravel()[idx].astype(float), ref) <= tol
        mech = mechanism(recheck, [r, t], retyped if narrow(a['n'], a['m']) else None)
        key = '/'.join(s for s in (['C07/zernike_nm', mech] if mech == NARROW else ['C07/zernike_nm/value', mech] if mech else
                                   ['C07/zernike_nm/value', mc, 'norm' if norm else 'nonorm', nclass((n - abs(m)) // 2, 'nj'), 'f32' if f32 else '']) if s)
        CTX.violation(key, 'zernike_nm differs from R_n^m(r) cos/sin(m t) [* sqrt(2(n+1)/(1+delta_m0))]', desc, err=err, tol=tol)


def q2d_mclass(m):
    return 'm=0' if m == 0 else ('m=1' if m == 1 else ('m=-1' if m == -1 else ('m>1' if m > 1 else 'm<-1')))


def post_q2d(token, args, kwargs, result):
    a = dict(zip(['n', 'm', 'r', 't'], args))
    a.update(kwargs)
    n, m, r, t = int(a['n']), int(a['m']), a['r'], a['t']
    if narrow(a['n'], a['m']):
        CTX.skip(NARROW_SKIP)
        return
    desc = {'fn': 'Q2d', 'n': n, 'm': m, 'x': xclass(r), 'shape': list(np.shape(r)), 'dtype': str(getattr(r, 'dtype', type(r).__name__))}
    CTX.observe('value.Q2d')
    # for m == 0 the routine returns Qbfs(n, r) whose shape is that of r alone
    if not result_shape_ok('Q2d', result, [r] if m == 0 else [r, t], desc):
        return
    if m == 0:
        rb = np.asarray(r)
        tb = np.zeros(rb.shape)
    else:
        rb, tb = np.broadcast_arrays(np.asarray(r), np.asarray(t))
    rf, tf, gf = rb.ravel(), tb.ravel(), np.asarray(result).ravel()
    if rf.size == 0:
        return
    cheap = rf.size <= 64 and all(cheap_point(E.rat(v)) for v in rf)
    idx = pick_indices(rf.size, n + abs(m) // 2, cheap)
    f32 = is_f32(r, t, result)
    ref, scale = [], 1.0
    for i in idx:
        q = E.rat(rf[i])
        rp, nv = E.q_radial(n, m, q)
        rad = float(rp) / math.sqrt(nv)
        scale = max(scale, abs(rad))
        if n >= 1:
            rp1, nv1 = E.q_radial(n - 1, m, q)
            scale = max(scale, abs(float(rp1) / math.sqrt(nv1)))
        ref.append(rad * _trig(m, float(tf[i])))
    ref = np.array(ref)
    got = gf[idx].astype(float)
    err = float(np.max(np.abs(got - ref))) if np.all(np.isfinite(got)) else float('inf')
    tol = (RT32 if f32 else RT64) * scale
    _track('value.Q2d' + ('.f32' if f32 else ''), err, tol)
    if not err <= tol:
        def recheck(tr):
            out = np.asarray(ORIG['Q2d'](a['n'], a['m'], r if tr is None else tr(r), t if tr is None else tr(t)))
            return out.shape == np.shape(result) and row_err(out.ravel()[idx].astype(float), ref) <= tol
        def retyped():
            out = np.asarray(ORIG['Q2d'](n, m, r, t))
            return out.shape == np.shape(result) and row_err(out.ravel()[idx].astype(float), ref) <= tol
        mech = mechanism(recheck, [r, t], retyped if narrow(a['n'], a['m']) else None)
        key = '/'.join(s for s in (['C07/Q2d', mech] if mech == NARROW else ['C07/Q2d/value', 'm=0' if m == 0 else 'm!=0', mech] if mech else ['C07/Q2d/value', q2d_mclass(m), nclass(n), 'f32' if f32 else '']) if s)
        CTX.violation(key, 'Q2d differs from the orthonormal-gradient definition (exact Gram-Schmidt)', desc, err=err, tol=tol)


def post_xy(token, args, kwargs, result):
    a = dict(zip(['m', 'n', 'x', 'y', 'cartesian_grid'], args))
    a.update(kwargs)
    m, n, x, y, cart = int(a['m']), int(a['n']), a['x'], a['y'], a.get('cartesian_grid', True)
    x = np.asarray(x)
    y = np.asarray(y)
    desc = {'fn': 'xy', 'm': m, 'n': n, 'cartesian_grid': bool(cart), 'xshape': list(x.shape), 'yshape': list(y.shape)}
    CTX.observe('value.xy')
    if cart:
        # documented separable treatment: arr[y, x]; a 2-D cartesian grid is represented by its first row / column
        if x.ndim == 2:
            xg, yg = x[0:1, :], y[:, 0:1]
        else:
            xg, yg = x.reshape(1, -1), y.reshape(-1, 1)
    else:
        xg, yg = x, y
    want = tuple(np.broadcast_shapes(xg.shape, yg.shape))
    if not result_shape_ok('xy', result, [x], desc, want=want):
        return
    xb, yb = np.broadcast_arrays(xg, yg)
    xf, yf, gf = xb.ravel(), yb.ravel(), np.asarray(result).ravel()
    if xf.size == 0:
        return
    idx = pick_indices(xf.size, m + n, xf.size <= 64)
    if x.dtype.kind not in 'fcib' or y.dtype.kind not in 'fcib':
        CTX.skip('xy: coordinate dtype kind outside the accepted forms')
        return
    ref = np.array([E.to_number(E.monomial_xy(m, n, xf[i], yf[i])) for i in idx])
    got = gf[idx].astype(numtype(gf, ref))
    f32 = is_f32(x, y, result)
    scale = max(1.0, float(np.max(np.abs(ref))))
    err = float(np.max(np.abs(got - ref))) if np.all(np.isfinite(got)) else float('inf')
    tol = (RT32 if f32 else RT64) * scale
    _track('value.xy' + ('.f32' if f32 else ''), err, tol)
    if not err <= tol:
        def recheck(tr):
            out = np.asarray(ORIG['xy'](a['m'], a['n'], a['x'] if tr is None else tr(a['x']), a['y'] if tr is None else tr(a['y']), cartesian_grid=cart))
            return out.shape == np.shape(result) and row_err(out.ravel()[idx].astype(float), ref) <= tol
        z = 'zero-exponent' if (m == 0 or n == 0) else 'positive-exponents'
        mech = mechanism(recheck, [a['x'], a['y']])
        key = '/'.join(s for s in ([f'C07/xy/value/{"cartesian" if cart else "general"}', mech] if mech else
                                   [f'C07/xy/value/{"cartesian" if cart else "general"}/{z}', 'f32' if f32 else '']) if s)
        CTX.violation(key, 'xy(m,n,x,y) != x^m y^n', desc, err=err, tol=tol)


def post_hopkins(token, args, kwargs, result):
    a_ = dict(zip(['a', 'b', 'c', 'r', 't', 'H'], args))
    a_.update(kwargs)
    a, b, c, r, t, H = int(a_['a']), int(a_['b']), int(a_['c']), a_['r'], a_['t'], a_['H']
    desc = {'fn': 'hopkins', 'a': a, 'b': b, 'c': c, 'x': xclass(r), 'shape': list(np.shape(r))}
    CTX.observe('value.hopkins')
    if not result_shape_ok('hopkins', result, [r, t, H], desc):
        return
    rb, tb, hb = np.broadcast_arrays(np.asarray(r), np.asarray(t), np.asarray(H))
    rf, tf, hf, gf = rb.ravel(), tb.ravel(), hb.ravel(), np.asarray(result).ravel()
    if rf.size == 0:
        return
    idx = pick_indices(rf.size, b + c, rf.size <= 64)
    ref = np.array([float(E.hopkins_radial(b, c, rf[i], hf[i])) * _trig(a, float(tf[i])) for i in idx])
    got = gf[idx].astype(float)
    scale = max(1.0, float(np.max(np.abs(ref))))
    f32 = is_f32(r, t, H, result)
    err = float(np.max(np.abs(got - ref))) if np.all(np.isfinite(got)) else float('inf')
    tol = (RT32 if f32 else RT64) * scale
    _track('value.hopkins' + ('.f32' if f32 else ''), err, tol)
    if not err <= tol:
        def recheck(tr):
            out = np.asarray(ORIG['hopkins'](a_['a'], a_['b'], a_['c'], *[v if tr is None else tr(v) for v in (r, t, H)]))
            return out.shape == np.shape(result) and row_err(out.ravel()[idx].astype(float), ref) <= tol
        ac = 'a<0' if a < 0 else ('a=0' if a == 0 else 'a>0')
        mech = mechanism(recheck, [r, t, H])
        key = '/'.join(s for s in (['C07/hopkins/value', mech] if mech else [f'C07/hopkins/value/{ac}', 'f32' if f32 else '']) if s)
        CTX.violation(key, 'hopkins(a,b,c,r,t,H) != cos(a t)|sin(|a| t) r^b H^c', desc, err=err, tol=tol)


# ------------------------------------------------------------------------------------------ sequence-form contracts
# Every *_seq routine is judged row by row against the *definition* of the requested order (same exact oracles and
# tolerances as the single-order contracts above).  A failing call is then attributed to a mechanism class by re-running
# the ORIGINAL (unwrapped) routine on neighbouring order lists - the monitors are re-entrancy guarded (a post-condition
# runs inside contracts.quiet()), so these diagnostic calls are neither counted nor monitored:
#   one-index:  dense list 0..max wrong too           -> list-independent   C07/<fn>/value/<param class>/<order class>
#               dense right, requesting the omitted order o in addition repairs it -> C07/<fn>/value/omits-order-<o>  (o in 0,1,2)
#               (any one of several repairs it -> .../omits-orders-<o1,o2..>: the defect needs all of them omitted)
#               dense right, only adding all of 0,1,2 fixes  -> .../omits-low-orders ;  otherwise .../gap-above-order-2
#               dense wrong but the singleton [n] right      -> .../with-companion-orders
#   two-index:  the singleton [(n,m)] wrong too        -> list-independent   C07/<fn>/value/<row class>
#               else the first other requested term e that reproduces the failure in the two-term list [e,f] / [f,e]
#                                                      -> C07/<fn>/value/<option class>/after-|before-<relation of e to f>
ORIG = {}                       # routine name -> original (unwrapped) callable, for the diagnostic re-runs
SEQ_ONE = {fam + '_seq': fam for fam in ONE_D}
SEQ_ALL = list(SEQ_ONE) + ['zernike_nm_seq', 'Q2d_seq', 'xy_seq']
SEQ_SUB = {**{fam + '_seq': ONE_D[fam][0] for fam in ONE_D}, 'zernike_nm_seq': 'zernike', 'Q2d_seq': 'qpoly', 'xy_seq': 'xy'}


def seq_orders(ns):
    """The order list of a one-index *_seq call, or None when it is outside the documented domain (non-empty,
    non-negative, strictly ascending: 'sorted polynomial orders')."""
    try:
        out = [int(n) for n in ns]
    except (TypeError, ValueError):
        return None
    if not out or out[0] < 0 or any(b <= a for a, b in zip(out, out[1:])):
        return None
    return out


def list_label(ns):
    """Static class label of an order list (descriptor / guard keys): which low orders it omits, contiguity."""
    if len(ns) == 1:
        return 'singleton:' + nclass(ns[0])
    om = [o for o in (0, 1, 2) if o not in ns and o < ns[-1]]
    base = 'starts>=3' if ns[0] >= 3 else ('has-0-1-2' if not om else 'omits-' + ','.join(str(o) for o in om))
    return base + (':contiguous' if ns == list(range(ns[0], ns[-1] + 1)) else ':gapped')


def seq_call(ctx, fn, desc, call, flat, singles):
    """Run call() (a *_seq request of the workload, in-domain).  An exception escaping prysm is a violation
    C07/<fn>/<class>/raises:<Type>; the class is found by re-running the ORIGINAL routine quietly (not monitored, not counted):
    x=<k>d when the same request is served for the flattened (1-D) coordinates, else the class of the first requested
    term that raises when requested alone, else multi-term-list (every requested term alone is served).
    flat: callable or None; singles: list of (class label, callable)."""
    try:
        call()
    except Exception as e:  # noqa
        def raises(f):
            try:
                with np.errstate(all='ignore'):
                    f()
                return False
            except Exception:  # noqa
                return True
        with quiet():
            if flat is not None and not raises(flat[1]):
                cls = f'x={flat[0]}'
            else:
                cls = next((lab for lab, f in singles if raises(f)), 'multi-term-list' if len(singles) > 1 else 'single-term-list')
        import traceback
        from ..core import REPO
        tb = traceback.extract_tb(e.__traceback__)
        where = [f'{f.filename[len(REPO) + 1:]}:{f.lineno}:{f.name}' for f in tb if f.filename.startswith(REPO)][-3:]
        ctx.violation(f'C07/{fn}/{cls}/raises:{type(e).__name__}', f'{fn} raises {type(e).__name__} on an in-domain request: {str(e)[:160]}', desc,
                      exception=repr(e)[:300], where=where)


def short(lst, n=12):
    lst = [list(e) if isinstance(e, tuple) else e for e in lst]
    return lst if len(lst) <= n else lst[:n] + ['...(%d)' % len(lst)]


def seq_shape_ok(fn, result, want, desc, xc):
    got = np.shape(result)
    if got != want:
        CTX.violation(f'C07/{fn}/shape/x={xc}', f'{fn} returned shape {got}, expected (len(orders), *coordinate shape) = {want}', desc,
                      got_shape=list(got), want_shape=list(want))
        return False
    return True


def row_err(got, ref):
    with np.errstate(all='ignore'):
        return float(np.max(np.abs(got - ref))) if np.all(np.isfinite(got)) else float('inf')


def post_seq_1d(fn):
    fam = SEQ_ONE[fn]
    sub, npar, exact = ONE_D[fam]
    mon = 'value.' + fn

    def post(token, args, kwargs, result):
        names = ['ns'] + ['alpha', 'beta'][:npar] + ['x']
        a = dict(zip(names, args))
        a.update(kwargs)
        ns = seq_orders(a['ns'])
        if ns is not None and narrow(a['ns'], *[a[k] for k in names[1:-1]]):
            CTX.skip(NARROW_SKIP)
            return
        if ns is None:
            CTX.skip(f'{fn}: order list empty / negative / not strictly ascending / not re-iterable (out of the documented domain)')
            return
        x = a['x']
        if isinstance(x, np.generic):
            x = np.asarray(x)           # numpy scalar (2*r**2-1 of a 0-D r inside zernike_nm_seq): a 0-D coordinate
        if not isinstance(x, np.ndarray) or not seq_coord_kind_ok(fn, x.dtype.kind):
            CTX.skip(f'{fn}: coordinates are not an ndarray of a dtype kind the routine accepts today (class E table of vp/polyhard.py: floating and complex; integer / bool only where the result is not allocated in the coordinate dtype)')
            return
        int_limit = 2.0 ** (8 * x.dtype.itemsize - 2) if (x.dtype.kind in 'ib' and fam in INT_ARITHMETIC_FAMS) else None
        params = tuple(a[k] for k in names[1:-1])
        if fam == 'jacobi' and degenerate_corner(params):
            CTX.skip(DEGENERATE_SKIP)
            return
        k = len(ns)
        desc = {'fn': fn, 'ns': short(ns), 'params': [float(v) for v in params], 'x': xclass(x), 'shape': list(x.shape),
                'dtype': str(x.dtype), 'list': list_label(ns)}
        orders = ns
        if fam == 'Qbfs' and ns[-1] > QBFS_EXACT_MAX:
            CTX.skip('Qbfs exact (Gram-Schmidt) oracle limited to n<=%d; covered by the slope Gram monitor' % QBFS_EXACT_MAX)
            orders = [n for n in ns if n <= QBFS_EXACT_MAX]
        CTX.observe(mon)
        if not seq_shape_ok(fn, result, (k, *x.shape), desc, xclass(x)):
            return
        xf = x.ravel()
        if xf.size == 0 or not orders:
            return
        R = np.asarray(result).reshape(k, -1)
        cheap = xf.size <= 64 and all(cheap_point(E.rat(v)) for v in xf)
        idx = pick_indices(xf.size, ns[-1], cheap)
        use = [i for i in idx if np.isfinite(xf[i])]
        if len(use) < len(idx):
            CTX.skip('non-finite coordinate', len(idx) - len(use))
        if not use:
            return
        qs = [E.rat(xf[i]) for i in use]
        pr = tuple(E.rat(v) for v in params)
        f32 = is_f32(x, result, *params)
        rtol = RT32 if f32 else RT64
        if f32 and not is_f32(x, result) and not cfg32():
            orders = [n for n in orders if n <= 12]          # float32-typed shape parameters: single-precision class, orders <= 12
        refs = {}

        def ref_of(n):
            if n not in refs:
                vals = np.array([exact(n, pr, q) for q in qs])
                with np.errstate(all='ignore'):
                    sc = max(1.0, float(np.max(np.abs(vals))))
                for j in (n - 1, n - 2):
                    if j >= 0:
                        sc = max(sc, max(abs(exact(j, pr, q)) for q in qs))
                refs[n] = (vals, sc)
            return refs[n]

        bad, worst = [], None
        pos = {n: i for i, n in enumerate(ns)}
        nt = numtype(R, x)
        for n in orders:
            ref, sc = ref_of(n)
            if not sc < BIG:
                CTX.skip('reference value beyond the double range (numerically meaningful limit of the family at this order)')
                continue
            if int_limit is not None and not sc < int_limit:
                CTX.skip('integer-typed coordinates: the value does not fit the integer dtype the recurrence is evaluated in (overflow by nature)')
                continue
            got = R[pos[n], use].astype(nt)
            err = row_err(got, ref)
            tol = rtol * sc
            _track(mon + ('.f32' if f32 else ''), err, tol)
            if not err <= tol:
                bad.append(n)
                if worst is None:
                    j = int(np.argmax(np.abs(got - ref))) if math.isfinite(err) else 0
                    worst = dict(order=n, err=err, tol=tol, at=jnum(xf[use[j]]), got=jnum(got[j]), ref=jnum(ref[j]))
        if not bad:
            return
        b = bad[0]

        def fails(lst, xx=x, pp=params):
            """Does the original routine, asked for the order list `lst`, return a wrong row for order b?"""
            try:
                with np.errstate(all='ignore'):
                    out = np.asarray(ORIG[fn](lst, *pp, xx))
                if out.shape != (len(lst), *x.shape):
                    return True
                ref, sc = ref_of(b)
                return not row_err(out.reshape(len(lst), -1)[[int(v) for v in lst].index(b), use].astype(nt), ref) <= rtol * sc
            except Exception:  # noqa
                return True

        top = ns[-1]
        dense = list(range(top + 1))
        label = mechanism(lambda tr: not fails(a['ns'], x if tr is None else tr(x)), [x], (lambda: not fails(ns, x, [float(v) for v in params])) if narrow(a['ns'], *params) else None) or None
        if label is not None:
            pass
        elif ns == dense or fails(dense):
            if k > 1 and not fails([b]):
                label = 'with-companion-orders'
        else:
            low = [o for o in (0, 1, 2) if o not in ns and o < top]
            fixers = [o for o in low if not fails(sorted(ns + [o]))]       # requesting which omitted low order repairs the row?
            if len(fixers) == 1:
                label = f'omits-order-{fixers[0]}'
            elif fixers:                                                    # any one of them repairs it: needs all of them omitted
                label = 'omits-orders-' + ','.join(str(o) for o in fixers)
            else:
                label = 'omits-low-orders' if (len(low) > 1 and not fails(sorted(ns + low))) else 'gap-above-order-2'
        if label is None and (x.dtype != np.float64 or any(type(v) is not float for v in params) or type(a['ns']) is not list):
            # class E attribution: right for the canonical form of the same request (float64 coordinates - the real part of complex ones -, python
            # float parameters, python ints in a list) -> the defect is specific to an argument form
            xc = np.ascontiguousarray(x.real if x.dtype.kind == 'c' else x, dtype=np.float64)
            try:
                out = np.asarray(ORIG[fn](ns, *[float(v) for v in params], xc)).reshape(k, -1)
                r2 = np.array([exact(b, pr, E.rat(float(v))) for v in xc.ravel()[use]])
                if row_err(out[pos[b], use].astype(float), r2) <= rtol * ref_of(b)[1]:
                    label = 'form:' + ('x=' + form_class(str(x.dtype)) if x.dtype != np.float64 else 'orders-or-parameters-not-canonical')
            except Exception:  # noqa
                pass
        if label is None and min(bad) >= 171:
            label = 'orders>=171'          # every failing row is an order at / beyond 171 (where n! leaves double precision)
        if label is None:
            pc = jac_pclass(*[float(v) for v in params]) if fam == 'jacobi' else scalar_pclass(params)
            key = '/'.join(s for s in ['C07', fn, 'value', pc, nclass(b), 'f32' if f32 else ''] if s)
            what = f'{fn}: the row of a requested order differs from the closed-form definition of that order (for the dense list 0..max too)'
        else:
            key = f'C07/{fn}/{label}' if label == NARROW else f'C07/{fn}/value/{label}'
            what = (f'{fn}: the row of a requested order differs from the closed-form definition of that order although the routine is '
                    f'right for another order list containing it ({label})')
        CTX.violation(key, what, desc, failing_orders=bad[:8], **worst)
    return post


def zmclass(m):
    return 'm=0' if m == 0 else ('m>0' if m > 0 else 'm<0')


def nm_relation(e, f):
    if e[0] == f[0] and abs(e[1]) == abs(f[1]):
        return 'term-of-same-n-and-|m|'          # the opposite-sign partner or a repeat of the term itself
    if abs(e[1]) == abs(f[1]):
        return 'term-of-same-|m|-other-n'
    return 'term-of-other-|m|'


def two_index_verdict(fn, mon, entries, got, ref, scales, rtol, f32, rowclass, relation, recall, optclass, what, desc, coords=None, raw=None):
    """Row-by-row comparison of a two-index *_seq result (got, ref: (k, npts)) and mechanism attribution of a failure.
    recall(lst) -> (len(lst), npts) rows of the ORIGINAL routine for the term list lst (None when it raises)."""
    bad, worst = [], None
    for j in range(len(entries)):
        err = row_err(got[j], ref[j])
        tol = rtol * scales[j]
        _track(mon + ('.f32' if f32 else ''), err, tol)
        if not err <= tol:
            bad.append(j)
            if worst is None:
                worst = dict(term=list(entries[j]), row=j, err=err, tol=tol)
    if not bad:
        return
    j = bad[0]
    f = entries[j]

    def fails(lst, pos, tr=None):
        rows = recall(lst) if tr is None else recall(lst, tr)
        return rows is None or rows.shape[0] != len(lst) or not row_err(rows[pos], ref[j]) <= rtol * scales[j]

    mech = mechanism(lambda tr: not fails(raw if raw is not None else list(entries), j, tr), coords,
                     (lambda: not fails(list(entries), j)) if (raw is not None and narrow(raw)) else None) if coords is not None else ''
    if mech:
        key = f'C07/{fn}/{mech}' if mech == NARROW else '/'.join(s for s in [f'C07/{fn}/value', mech] if s)
        what = what + f' ({mech}: the routine is right for the same request once the layout / call history is removed)'
    elif len(entries) == 1 or fails([f], 0):
        key = '/'.join(s for s in [f'C07/{fn}/value', rowclass(f), 'f32' if f32 else ''] if s)
        what = what + ' (for the single-term list too)'
    else:
        label, seen = None, set()
        for i, e in enumerate(entries):
            tag = (e, i < j)
            if i == j or tag in seen or len(seen) >= 48:
                continue
            seen.add(tag)
            if fails([e, f], 1) if i < j else fails([f, e], 0):
                label = ('after-' if i < j else 'before-') + relation(e, f)
                break
        key = '/'.join(s for s in [f'C07/{fn}/value', optclass, label or 'list-dependent'] if s)
        what = what + ' although the routine is right when the term is requested alone'
    CTX.violation(key, what, desc, failing_terms=[list(entries[i]) for i in bad[:8]], **worst)


def _nm_list(nms):
    try:
        return [(int(n), int(m)) for n, m in nms]
    except (TypeError, ValueError):
        return None


def _same_shape_coords(fn, r, t):
    if not (isinstance(r, np.ndarray) and isinstance(t, np.ndarray)) or r.dtype.kind != 'f' or t.dtype.kind != 'f':
        CTX.skip(f'{fn}: coordinates are not floating ndarrays (out of the documented domain)')
        return False
    if r.shape != t.shape:
        CTX.skip(f'{fn}: r and t of different shapes (the result is documented as (k, *shape) of one common shape)')
        return False
    return True


def post_zernike_seq(token, args, kwargs, result):
    fn = 'zernike_nm_seq'
    a = dict(zip(['nms', 'r', 't', 'norm'], args))
    a.update(kwargs)
    nms, r, t, norm = _nm_list(a['nms']), a['r'], a['t'], bool(a.get('norm', True))
    if nms and narrow(a['nms']):
        CTX.skip(NARROW_SKIP)
        return
    if not nms or any(abs(m) > n or (n - abs(m)) % 2 for n, m in nms):
        CTX.skip(f'{fn}: term list empty / not re-iterable / contains a non-Zernike index (out of domain)')
        return
    if not _same_shape_coords(fn, r, t):
        return
    mon = 'value.zernike_nm_seq.' + ('norm' if norm else 'nonorm')
    k = len(nms)
    desc = {'fn': fn, 'nms': short(nms), 'norm': norm, 'x': xclass(r), 'shape': list(r.shape), 'dtype': str(r.dtype)}
    CTX.observe(mon)
    if not seq_shape_ok(fn, result, (k, *r.shape), desc, xclass(r)):
        return
    rf, tf = r.ravel(), t.ravel()
    if rf.size == 0:
        return
    cheap = rf.size <= 64 and all(cheap_point(E.rat(v)) for v in rf)
    idx = pick_indices(rf.size, max(n for n, m in nms), cheap)
    f32 = is_f32(r, t, result)

    def nrm(n, m):
        return math.sqrt(E.zernike_norm2(n, m)) if norm else 1.0
    ref = np.array([[float(E.zernike_R(n, abs(m), E.rat(rf[i]))) * _trig(m, float(tf[i])) * nrm(n, m) for i in idx] for n, m in nms])
    scales = [max(1.0, nrm(n, m)) for n, m in nms]
    got = np.asarray(result).reshape(k, -1)[:, idx].astype(float)

    def recall(lst, tr=None):
        try:
            with np.errstate(all='ignore'):
                rr, tt = (r, t) if tr is None else (tr(r), tr(t))
                return np.asarray(ORIG[fn](lst, rr, tt, norm=norm)).reshape(len(lst), -1)[:, idx].astype(float)
        except Exception:  # noqa
            return None
    nn = 'norm' if norm else 'nonorm'
    two_index_verdict(fn, mon, nms, got, ref, scales, RT32 if f32 else RT64, f32,
                      lambda f: f'{zmclass(f[1])}/{nn}/{nclass((f[0] - abs(f[1])) // 2, "nj")}', nm_relation, recall, nn,
                      'zernike_nm_seq: a row differs from R_n^m(r) cos/sin(m t) [* sqrt(2(n+1)/(1+delta_m0))] of the requested (n,m)', desc, coords=[r, t], raw=a['nms'])


def post_q2d_seq(token, args, kwargs, result):
    fn = 'Q2d_seq'
    a = dict(zip(['nms', 'r', 't'], args))
    a.update(kwargs)
    nms, r, t = _nm_list(a['nms']), a['r'], a['t']
    if nms and narrow(a['nms']):
        CTX.skip(NARROW_SKIP)
        return
    if not nms or any(n < 0 for n, m in nms):
        CTX.skip(f'{fn}: term list empty / not re-iterable / negative order (out of domain)')
        return
    if not _same_shape_coords(fn, r, t):
        return
    mon = 'value.Q2d_seq'
    k = len(nms)
    desc = {'fn': fn, 'nms': short(nms), 'x': xclass(r), 'shape': list(r.shape), 'dtype': str(r.dtype)}
    CTX.observe(mon)
    if not seq_shape_ok(fn, result, (k, *r.shape), desc, xclass(r)):
        return
    rf, tf = r.ravel(), t.ravel()
    if rf.size == 0:
        return
    cheap = rf.size <= 64 and all(cheap_point(E.rat(v)) for v in rf)
    idx = pick_indices(rf.size, max(n + abs(m) // 2 for n, m in nms), cheap)
    f32 = is_f32(r, t, result)
    ref, scales = [], []
    for n, m in nms:
        row, sc = [], 1.0
        for i in idx:
            q = E.rat(rf[i])
            rp, nv = E.q_radial(n, m, q)
            rad = float(rp) / math.sqrt(nv)
            sc = max(sc, abs(rad))
            if n >= 1:
                rp1, nv1 = E.q_radial(n - 1, m, q)
                sc = max(sc, abs(float(rp1) / math.sqrt(nv1)))
            row.append(rad * _trig(m, float(tf[i])))
        ref.append(row)
        scales.append(sc)
    ref = np.array(ref)
    got = np.asarray(result).reshape(k, -1)[:, idx].astype(float)

    def recall(lst, tr=None):
        try:
            with np.errstate(all='ignore'):
                rr, tt = (r, t) if tr is None else (tr(r), tr(t))
                return np.asarray(ORIG[fn](lst, rr, tt)).reshape(len(lst), -1)[:, idx].astype(float)
        except Exception:  # noqa
            return None
    two_index_verdict(fn, mon, nms, got, ref, scales, RT32 if f32 else RT64, f32,
                      lambda f: f'{q2d_mclass(f[1])}/{nclass(f[0])}', nm_relation, recall, '',
                      'Q2d_seq: a row differs from the orthonormal-gradient definition (exact Gram-Schmidt) of the requested (n,m)', desc, coords=[r, t], raw=a['nms'])


def xy_relation(e, f):
    if e == f:
        return 'repeat-of-the-term'
    if e[0] == f[0]:
        return 'term-of-same-x-exponent'
    if e[1] == f[1]:
        return 'term-of-same-y-exponent'
    return 'term-of-other-exponents'


def post_xy_seq(token, args, kwargs, result):
    fn = 'xy_seq'
    a = dict(zip(['mns', 'x', 'y', 'cartesian_grid'], args))
    a.update(kwargs)
    mns, x, y, cart = _nm_list(a['mns']), a['x'], a['y'], bool(a.get('cartesian_grid', True))
    if not mns or any(m < 0 or n < 0 for m, n in mns):
        CTX.skip(f'{fn}: exponent list empty / not re-iterable / negative exponent (out of domain)')
        return
    if not (isinstance(x, np.ndarray) and isinstance(y, np.ndarray)) or x.dtype.kind not in 'fci' or y.dtype.kind not in 'fci':
        CTX.skip(f'{fn}: coordinates are not floating / complex / integer ndarrays (out of the documented domain)')
        return
    if cart and x.ndim < 2:
        CTX.skip('xy_seq: cartesian_grid=True with 0-D/1-D coordinates (axes-of-a-grid vs list-of-points reading is ambiguous; C08 ledger)')
        return
    if cart and (x.ndim != 2 or y.ndim != 2):
        CTX.skip('xy_seq: cartesian_grid=True with coordinates that are not 2-D (out of the documented domain)')
        return
    xg, yg = (x[0:1, :], y[:, 0:1]) if cart else (x, y)      # documented separable treatment arr[y, x]
    try:
        want = tuple(np.broadcast_shapes(xg.shape, yg.shape))
    except ValueError:
        CTX.skip('xy_seq: x and y do not broadcast (out of domain)')
        return
    mon = 'value.xy_seq'
    k = len(mns)
    desc = {'fn': fn, 'mns': short(mns), 'cartesian_grid': cart, 'xshape': list(x.shape), 'yshape': list(y.shape), 'dtype': str(x.dtype)}
    CTX.observe(mon)
    xc = ('cartesian:' if cart else 'general:') + xclass(x)
    if not hasattr(result, '__len__') or len(result) != k:
        CTX.violation(f'C07/{fn}/shape/x={xc}', f'{fn} returned {len(result) if hasattr(result, "__len__") else type(result).__name__} modes for {k} requested terms', desc)
        return
    for mode in result:
        if np.shape(mode) != want:
            CTX.violation(f'C07/{fn}/shape/x={xc}', f'{fn} returned a mode of shape {np.shape(mode)}, expected {want}', desc,
                          got_shape=list(np.shape(mode)), want_shape=list(want))
            return
    xb, yb = np.broadcast_arrays(xg, yg)
    xf, yf = xb.ravel(), yb.ravel()
    if xf.size == 0:
        return
    idx = pick_indices(xf.size, max(m + n for m, n in mns), xf.size <= 64)
    ref = np.array([[E.to_number(E.monomial_xy(m, n, xf[i], yf[i])) for i in idx] for m, n in mns])
    scales = [max(1.0, float(np.max(np.abs(row)))) for row in ref]
    got = np.array([np.asarray(mode).ravel()[idx] for mode in result], dtype=numtype(ref, *result))
    f32 = is_f32(x, y, *result)

    def recall(lst, tr=None):
        try:
            with np.errstate(all='ignore'):
                xx, yy = (x, y) if tr is None else (tr(x), tr(y))
                return np.array([np.asarray(mode).ravel()[idx] for mode in ORIG[fn](lst, xx, yy, cartesian_grid=cart)], dtype=numtype(ref))
        except Exception:  # noqa
            return None
    cg = 'cartesian' if cart else 'general'
    two_index_verdict(fn, mon, mns, got, ref, scales, RT32 if f32 else RT64, f32,
                      lambda f: f'{cg}/{"zero-exponent" if (f[0] == 0 or f[1] == 0) else "positive-exponents"}', xy_relation, recall, cg,
                      'xy_seq: a mode differs from x^m y^n of the requested (m,n)', desc, coords=[x, y], raw=a['mns'])


def install():
    import prysm.polynomials  # noqa  (loads every submodule)
    mods = sys.modules
    for fn in SEQ_ALL:
        ORIG[fn] = getattr(mods['prysm.polynomials.' + SEQ_SUB[fn]], fn)
    for fam, (sub, _, _) in ONE_D.items():
        ORIG[fam] = getattr(mods['prysm.polynomials.' + sub], fam)
    ORIG['zernike_nm'] = mods['prysm.polynomials.zernike'].zernike_nm
    ORIG['Q2d'] = mods['prysm.polynomials.qpoly'].Q2d
    ORIG['xy'] = mods['prysm.polynomials.xy'].xy
    ORIG['hopkins'] = mods['prysm.polynomials'].hopkins
    for fam, (sub, _, _) in ONE_D.items():
        attach(mods['prysm.polynomials.' + sub], fam, post=post_1d(fam))
    attach(mods['prysm.polynomials.zernike'], 'zernike_nm', post=post_zernike)
    attach(mods['prysm.polynomials.qpoly'], 'Q2d', post=post_q2d)
    attach(mods['prysm.polynomials.xy'], 'xy', post=post_xy)
    attach(mods['prysm.polynomials'], 'hopkins', post=post_hopkins)
    for fn in SEQ_ONE:
        attach(mods['prysm.polynomials.' + SEQ_SUB[fn]], fn, post=post_seq_1d(fn))
    attach(mods['prysm.polynomials.zernike'], 'zernike_nm_seq', post=post_zernike_seq)
    attach(mods['prysm.polynomials.qpoly'], 'Q2d_seq', post=post_q2d_seq)
    attach(mods['prysm.polynomials.xy'], 'xy_seq', post=post_xy_seq)


def install_monitors(ctx):
    """Attach the call-level contracts for vp/pytest_monitors.py (the repository's own tests as traffic)."""
    global CTX
    CTX = ctx
    install()


# ------------------------------------------------------------------------------------------ workload pieces
def grid_for(fam):
    """Dyadic-rational evaluation grid (exactly representable, both end points of a finite domain included)."""
    if fam in ('hermite_He', 'hermite_H'):
        return np.array([k / 8 for k in range(-24, 25)])                     # [-3, 3]
    if fam == 'laguerre':
        return np.array([k / 4 for k in range(0, 41)])                       # [0, 10]
    if fam in ('dickson1', 'dickson2'):
        return np.array([k / 8 for k in range(-16, 17)])                     # [-2, 2]
    if fam in ('Qbfs', 'Qcon'):
        return np.array([k / 32 for k in range(0, 33)] + [1 / 128, 3 / 256, 127 / 128, 255 / 256, 63 / 64, 1 / 64, 5 / 128, 125 / 128])
    return np.array([k / 16 for k in range(-16, 17)] + [-255 / 256, -127 / 128, -1 / 128, 3 / 256, 1 / 64, 63 / 64, 127 / 128, 255 / 256])


def domain(fam):
    if fam in ('hermite_He', 'hermite_H'):
        return -3.0, 3.0
    if fam == 'laguerre':
        return 0.0, 10.0
    if fam in ('dickson1', 'dickson2'):
        return -2.0, 2.0
    if fam in ('Qbfs', 'Qcon'):
        return 0.0, 1.0
    return -1.0, 1.0


def dyadic(rng, lo, hi, shape, den=256):
    k = rng.integers(int(math.ceil(lo * den)), int(math.floor(hi * den)) + 1, size=shape)
    return k / den


JAC_PARAMS = [(-.5, -.5), (.5, .5), (-.5, .5), (.5, -.5), (0.0, 0.0), (0.0, 4.0), (2.5, -0.75),
              (-0.875, -0.125), (0.25, -0.25), (-0.25, -0.75), (4.75, -0.9375), (-0.9375, 4.75), (0.0, 1.0), (0.0, 7.0)]
JAC_NONDYADIC = [(0.3, 1.2), (3.7, -0.7)]
LAG_PARAMS = [0.0, 0.5, 2.0, -0.5, 4.75, -0.875]
DICK_PARAMS = [0.0, 1.0, -1.0, 0.75, -0.625]


def call_1d(P, fam, n, params, x):
    return getattr(P, fam)(n, *params, x)


def sweep_unit(ctx, P, fam, params, nmax, xs, label):
    warm_1d(P, fam, params, nmax)        # class C: a float32 session precedes the judged float64 one in the same process
    for n in range(nmax + 1):
        desc = {'wl': 'sweep', 'fn': fam, 'params': list(params), 'n': n, 'pts': label,
                'class': f'{fam}:{jac_pclass(*params) if fam == "jacobi" else "p" + str(len(params))}:1d'}
        ctx.case(desc, nontrivial=n >= 1)
        with ctx.guard(f'C07/{fam}', desc):
            got = call_1d(P, fam, n, params, xs)
            if n <= 40:
                scipy_check(ctx, fam, n, params, xs, got, desc)


def scipy_check(ctx, fam, n, params, xs, got, desc):
    from scipy import special as sp
    f = {'jacobi': lambda: sp.eval_jacobi(n, params[0], params[1], xs), 'legendre': lambda: sp.eval_legendre(n, xs),
         'cheby1': lambda: sp.eval_chebyt(n, xs), 'cheby2': lambda: sp.eval_chebyu(n, xs),
         'hermite_He': lambda: sp.eval_hermitenorm(n, xs), 'hermite_H': lambda: sp.eval_hermite(n, xs),
         'laguerre': lambda: sp.eval_genlaguerre(n, params[0], xs)}.get(fam)
    if f is None:
        return
    with np.errstate(all='ignore'):
        ref = np.asarray(f(), dtype=float)
    if not np.all(np.isfinite(ref)) or np.shape(got) != ref.shape:
        ctx.skip('scipy secondary oracle not finite / shape differs')
        return
    scale = max(1.0, float(np.max(np.abs(ref))))
    err = float(np.max(np.abs(np.asarray(got, dtype=float) - ref)))
    ctx.observe('value.scipy')
    _track('value.scipy', err, 1e-9 * scale)
    if not err <= 1e-9 * scale:
        ctx.violation(f'C07/{fam}/value-vs-scipy/{nclass(n)}', f'{fam} differs from scipy.special evaluator (secondary float oracle)',
                      desc, err=err, tol=1e-9 * scale)


def shapes_unit(ctx, P, fam, params, orders, rng):
    lo, hi = domain(fam)
    warm_1d(P, fam, params, max(orders))
    for n in orders:
        inputs = [
            ('pyfloat', float(dyadic(rng, lo, hi, ()))),
            ('npscalar', np.float64(dyadic(rng, lo, hi, ()))),
            ('0d', np.array(float(dyadic(rng, lo, hi, ())))),
            ('1d-len1', dyadic(rng, lo, hi, (1,))),
            ('2d', dyadic(rng, lo, hi, (3, 5))),
            ('2d-col', dyadic(rng, lo, hi, (4, 1))),
            ('3d', dyadic(rng, lo, hi, (2, 3, 4))),
            ('1d-noncontig', dyadic(rng, lo, hi, (14,))[::2]),
            ('endpoints', np.array([lo, hi])),
            ('randfloat', rng.uniform(lo, hi, 3)),
        ]
        if n <= 12:
            inputs.append(('f32', dyadic(rng, lo, hi, (9,), den=64).astype(np.float32)))
            inputs.append(('f32-2d', dyadic(rng, lo, hi, (2, 3), den=64).astype(np.float32)))
        for cls, x in inputs:
            desc = {'wl': 'shapes', 'fn': fam, 'params': list(params), 'n': n, 'xcls': cls,
                    'x': np.asarray(x).ravel()[:4].tolist(), 'class': f'{fam}:{cls}'}
            ctx.case(desc, nontrivial=n >= 1)
            with ctx.guard(f'C07/{fam}/x={cls}', desc):
                call_1d(P, fam, n, params, x)


def gram_check(ctx, mon, fam, G, labels, desc, tol, keyfn=None):
    """G must be the identity.  labels[i] = class label of mode i (for the key)."""
    ctx.observe(mon)
    I = np.eye(G.shape[0])
    D = np.abs(G - I)
    err = float(D.max()) if np.all(np.isfinite(G)) else float('inf')
    _track(mon, err, tol)
    if err <= tol:
        return True
    if not math.isfinite(err):
        ctx.violation(f'C07/{fam}/gram/non-finite', f'{fam}: Gram matrix is not finite', desc)
        return False
    dd = np.diag(D)
    off = D - np.diag(dd)
    if dd.max() > tol:
        bad = sorted(set(labels[i] for i in np.nonzero(dd > tol)[0]))
        ctx.violation(f'C07/{fam}/gram/norm/{"|".join(bad[:4])}', f'{fam}: squared norm of a mode differs from the textbook value', desc,
                      err=float(dd.max()), tol=tol, first_bad=int(np.argmax(dd > tol)))
    if off.max() > tol:
        i, j = np.unravel_index(int(np.argmax(off)), off.shape)
        ii, jj = np.nonzero(off > tol)
        bad = sorted(set(labels[k] for k in np.concatenate([ii, jj])))
        ctx.violation(f'C07/{fam}/gram/not-orthogonal/{"|".join(bad[:4])}', f'{fam}: two distinct modes are not orthogonal under the family weight', desc,
                      err=float(off.max()), tol=tol, worst_pair=[int(i), int(j)])
    return False


def gram_1d_unit(ctx, P, fam, params, nmax, rule, logh, tol, mon):
    x, w = rule
    desc = {'wl': 'gram', 'fn': fam, 'params': list(params), 'nmax': nmax, 'nodes': int(len(x)), 'class': f'gram:{fam}'}
    ctx.case(desc)
    warm_1d(P, fam, params, nmax)
    with ctx.guard(f'C07/{fam}/gram', desc):
        with np.errstate(all='ignore'):
            V = np.array([np.asarray(call_1d(P, fam, n, params, x), dtype=float) * math.exp(-0.5 * logh(n)) for n in range(nmax + 1)])
            G = (V * w) @ V.T
        gram_check(ctx, mon, fam, G, [nclass(n) for n in range(nmax + 1)], desc, tol)


def zernike_units(ctx, P, rng):
    nmax = ctx.pick(12, 40)
    gmax = ctx.pick(12, 30)
    nms = [(n, m) for n in range(nmax + 1) for m in range(-n, n + 1, 2)]
    rgrid = np.array([k / 32 for k in range(0, 33)] + [1 / 128, 127 / 128, 3 / 256, 255 / 256])
    units = []

    def sweep(part, nparts):
        tg = rng.uniform(0, 2 * np.pi, rgrid.shape)
        warm_nm(P, 'zernike', nmax, nmax)
        for i, (n, m) in enumerate(nms):
            if i % nparts != part:
                continue
            for norm in (True, False):
                desc = {'wl': 'sweep', 'fn': 'zernike_nm', 'n': n, 'm': m, 'norm': norm, 'class': f'zernike:{"m=0" if m == 0 else ("m>0" if m > 0 else "m<0")}:1d'}
                ctx.case(desc, nontrivial=n >= 1)
                with ctx.guard('C07/zernike_nm', desc):
                    P.zernike_nm(n, m, rgrid, tg, norm=norm)
            if n <= 12 and (n + abs(m)) % 3 == 0:
                for cls, r, t in [('pyfloat', 0.40625, 1.25), ('npscalar', np.float64(0.71875), np.float64(2.5)),
                                  ('0d', np.array(0.28125), np.array(4.0)),
                                  ('2d', dyadic(rng, 0, 1, (3, 5)), rng.uniform(0, 6.28, (3, 5))),
                                  ('3d', dyadic(rng, 0, 1, (2, 3, 2)), rng.uniform(0, 6.28, (2, 3, 2))),
                                  ('f32', dyadic(rng, 0, 1, (7,), den=64).astype(np.float32), rng.uniform(0, 6.28, 7).astype(np.float32)),
                                  ('r=0,1', np.array([0.0, 1.0]), np.array([0.5, 2.0]))]:
                    desc = {'wl': 'shapes', 'fn': 'zernike_nm', 'n': n, 'm': m, 'xcls': cls, 'class': f'zernike:{cls}'}
                    ctx.case(desc, nontrivial=n >= 1)
                    with ctx.guard(f'C07/zernike_nm/x={cls}', desc):
                        P.zernike_nm(n, m, r, t, norm=(n % 2 == 0))

    nparts = ctx.pick(2, 16)
    for part in range(nparts):
        units.append((lambda part=part: sweep(part, nparts), 2))

    def gram():
        gnms = [(n, m) for n, m in nms if n <= gmax]
        R, T, W = E.disk_rule(gmax + 2, 4 * gmax + 8)
        desc = {'wl': 'gram', 'fn': 'zernike_nm', 'nmax': gmax, 'modes': len(gnms), 'nodes': [int(R.shape[1]), int(R.shape[0])], 'class': 'gram:zernike'}
        ctx.case(desc)
        warm_nm(P, 'zernike', gmax, gmax)
        with ctx.guard('C07/zernike_nm/gram', desc):
            Z = np.array([P.zernike_nm(n, m, R, T, norm=True) for n, m in gnms]).reshape(len(gnms), -1)
            G = (Z * W.ravel()) @ Z.T
            gram_check(ctx, 'gram.zernike', 'zernike_nm', G, ['m=0' if m == 0 else 'm!=0' for n, m in gnms], desc, 1e-9)
    units.append((gram, 3))
    return units


def q_units(ctx, P, rng):
    from numpy.polynomial import chebyshev as C
    units = []
    ugrid = grid_for('Qbfs')

    # ---- Q2d value sweep
    nmax, mmax = ctx.pick((10, 10), (40, 40))
    nparts = ctx.pick(2, 16)

    def sweep(part):
        tg = rng.uniform(0, 2 * np.pi, ugrid.shape)
        warm_nm(P, 'q2d', nmax, mmax)
        i = -1
        for m in range(-mmax, mmax + 1):
            for n in range(nmax + 1):
                i += 1
                if i % nparts != part:
                    continue
                desc = {'wl': 'sweep', 'fn': 'Q2d', 'n': n, 'm': m, 'class': f'Q2d:{q2d_mclass(m)}:1d'}
                ctx.case(desc)
                with ctx.guard('C07/Q2d', desc):
                    P.Q2d(n, m, ugrid, tg)
                if n <= 6 and abs(m) <= 6 and (n + m) % 4 == 0:
                    for cls, r, t in [('pyfloat', 0.40625, 1.25), ('npscalar', np.float64(0.71875), np.float64(2.5)),
                                      ('0d', np.array(0.28125), np.array(4.0)),
                                      ('2d', dyadic(rng, 0, 1, (3, 5)), rng.uniform(0, 6.28, (3, 5))),
                                      ('3d', dyadic(rng, 0, 1, (2, 3, 2)), rng.uniform(0, 6.28, (2, 3, 2))),
                                      ('f32', dyadic(rng, 0, 1, (7,), den=64).astype(np.float32), rng.uniform(0, 6.28, 7).astype(np.float32)),
                                      ('u=0,1', np.array([0.0, 1.0]), np.array([0.5, 2.0]))]:
                        desc = {'wl': 'shapes', 'fn': 'Q2d', 'n': n, 'm': m, 'xcls': cls, 'class': f'Q2d:{cls}'}
                        ctx.case(desc)
                        with ctx.guard(f'C07/Q2d/x={cls}', desc):
                            P.Q2d(n, m, r, t)
    for part in range(nparts):
        units.append((lambda part=part: sweep(part), 3))

    # ---- Qbfs slope Gram:  <S'_m S'_n> = (2/pi) int_0^1 S'_m S'_n / sqrt(1-u^2) du = delta
    def qbfs_gram():
        N = ctx.pick(40, 150)
        u, w = E.half_chebyshev_rule(2 * N + 6)
        desc = {'wl': 'gram', 'fn': 'Qbfs', 'nmax': N, 'nodes': int(len(u)), 'class': 'gram:qbfs-slope'}
        ctx.case(desc)
        warm_nm(P, 'q2d', N, 0)
        with ctx.guard('C07/Qbfs/gram', desc):
            S = np.array([E.cheb_derivative(lambda xs, n=n: P.Qbfs(n, xs), 2 * n + 4, u) for n in range(N + 1)])
            G = (2 / np.pi) * (S * w) @ S.T
            gram_check(ctx, 'gram.qbfs-slope', 'Qbfs', G, [nclass(n) for n in range(N + 1)], desc, 1e-9)
    units.append((qbfs_gram, 2))

    # ---- 2D-Q gradient Gram
    def q2d_gram(msel, tag):
        gn, gm = ctx.pick((8, 8), (24, 24))
        nms = [(n, m) for n in range(gn + 1) for m in range(-gm, gm + 1) if msel(abs(m))]
        deg = 2 * gn + max(gm, 4)
        u, w = E.half_chebyshev_rule(deg + 2)
        nt = 2 * gm + 4
        th = np.arange(nt) * (2 * np.pi / nt)
        xs = C.chebpts1(deg + 1)
        XS, TH = np.meshgrid(xs, th, indexing='ij')
        UU, TT = np.meshgrid(u, th, indexing='ij')
        k = np.fft.fftfreq(nt, 1 / nt)
        desc = {'wl': 'gram', 'fn': 'Q2d', 'nmax': gn, 'mmax': gm, 'msel': tag, 'modes': len(nms), 'class': 'gram:q2d-gradient'}
        ctx.case(desc)
        warm_nm(P, 'q2d', gn, gm)
        with ctx.guard('C07/Q2d/gram', desc):
            GU, GT = [], []
            for n, m in nms:
                vals = P.Q2d(n, m, XS, TH)
                co = C.chebfit(xs, vals, deg)
                du = C.chebval(u, C.chebder(co)).T                   # d/du by spectral differentiation (exact for polynomials)
                f = P.Q2d(n, m, UU, TT)
                dt = np.fft.ifft(1j * k * np.fft.fft(f, axis=1), axis=1).real / UU   # (1/u) d/dt by FFT differentiation
                GU.append(du.ravel())
                GT.append(dt.ravel())
            GU = np.array(GU)
            GT = np.array(GT)
            Wt = (np.outer(w, np.full(nt, 2 * np.pi / nt)) / np.pi ** 2).ravel()
            G = (GU * Wt) @ GU.T + (GT * Wt) @ GT.T
            gram_check(ctx, 'gram.q2d-gradient', 'Q2d', G, [q2d_mclass(m) for n, m in nms], desc, 1e-9)
    if ctx.quick:
        units.append((lambda: q2d_gram(lambda am: True, 'all'), 3))
    else:
        for j in range(4):
            units.append((lambda j=j: q2d_gram(lambda am: am % 4 == j, f'|m|%4=={j}'), 6))
    return units


def xy_hopkins_unit(ctx, P, rng):
    M = ctx.pick(8, 20)
    x1 = dyadic(rng, -1, 1, (5,), den=64)
    y1 = dyadic(rng, -1, 1, (4,), den=64)
    X, Y = np.meshgrid(x1, y1)
    xr = dyadic(rng, -1, 1, (3, 4), den=64)
    yr = dyadic(rng, -1, 1, (3, 4), den=64)
    for m in range(M + 1):
        for n in range(M + 1):
            if m + n > M + 2 and (m * 7 + n) % 3:
                continue
            for cls, x, y, cart in [('grid2d', X, Y, True), ('axes1d', x1, y1, True), ('general2d', xr, yr, False),
                                    ('general1d', x1[:4], y1, False), ('general0d', np.array(0.375), np.array(-0.625), False),
                                    ('grid2d-nonsep-flag-off', X, Y, False)]:
                desc = {'wl': 'xy', 'fn': 'xy', 'm': m, 'n': n, 'xcls': cls, 'class': f'xy:{cls}'}
                ctx.case(desc, nontrivial=m + n >= 1)
                with ctx.guard(f'C07/xy/x={cls}', desc):
                    P.xy(m, n, x, y, cartesian_grid=cart)
    r = dyadic(rng, 0, 1, (6,), den=64)
    t = rng.uniform(0, 6.28, 6)
    H = dyadic(rng, 0, 1, (6,), den=64)
    A = ctx.pick(4, 8)
    for a in range(-A, A + 1):
        for b in range(0, A + 1, 1 if ctx.quick else 1):
            for c in range(0, A + 1, 2 if ctx.quick else 1):
                desc = {'wl': 'hopkins', 'fn': 'hopkins', 'a': a, 'b': b, 'c': c, 'class': f'hopkins:{"a<0" if a < 0 else ("a=0" if a == 0 else "a>0")}'}
                ctx.case(desc, nontrivial=(abs(a) + b + c) >= 1)
                with ctx.guard('C07/hopkins', desc):
                    P.hopkins(a, b, c, r, t, H)
                    if (a + b + c) % 5 == 0:
                        P.hopkins(a, b, c, 0.40625, 1.25, 0.71875)
                        P.hopkins(a, b, c, r.reshape(2, 3), t.reshape(2, 3), np.float64(0.5))


# ------------------------------------------------------------------------------------------ sequence-form workload
SEQ_PARAMS = {
    'jacobi_seq': [(0.25, -0.25), (2.5, -0.75), (-0.5, 0.5), (0.0, 4.0), (-0.875, -0.125), (0.0, 0.0), (-0.25, -0.75), (0.5, 0.5)],
    'laguerre_seq': [(0.5,), (0.0,), (-0.875,), (4.75,)],
    'dickson1_seq': [(0.75,), (0.0,), (-1.0,)],
    'dickson2_seq': [(0.75,), (0.0,), (-1.0,)],
}


def seq_order_lists(ctx, rng, top):
    """Hostile order lists for the one-index *_seq routines: (kind, ascending list).  Smallest first."""
    import itertools
    out = []
    S = ctx.pick(7, 8)
    for r in range(1, S + 1):                                          # ALL non-empty ascending subsets of {0..S-1}
        out += [('subset', list(c)) for c in itertools.combinations(range(S), r)]
    out += [('singleton', [n]) for n in range(S, top + 1)]             # singletons of every order up to the bound
    for N in (7, 8, 12, 25, top):
        out.append(('dense', list(range(N + 1))))
    for s in (1, 2, 3, 4, 5, 9):
        out.append(('contiguous-from-%s' % (s if s < 3 else '>=3'), list(range(s, s + 6))))
    out.append(('contiguous-from->=3', list(range(3, top + 1))))
    fixed = [[0, top], [1, top], [2, top], [3, top], [0, 1, top], [0, 2, top], [1, 2, top], [0, 1, 2, top], [0, 1, 3, top - 1, top],
             [3, 7], [3, 4, 9], [4, 5, 6, 20], [7, 8], [5, 11, 23], [0, 2, 5, 11, 23, top], [1, 3, 6, 7, 30], [2, 4, 7, 12, 13, 14, 39],
             [3, 5, 8, 13, 21, 34], [0, 9], [1, 9], [2, 9], [0, 1, 9], [0, 1, 2, 9, 10], [0, 1, 2, 4, 6, 8, 10],
             list(range(0, top + 1, 2)), list(range(1, top, 2)), list(range(2, 30, 3)), list(range(3, top + 1, 5))]
    out += [('gapped', sorted(set(v for v in l if v <= top))) for l in fixed]
    for _ in range(ctx.pick(16, 1200)):
        k = int(rng.integers(1, 9))
        tp = int(rng.choice([8, 12, 20, 40, top]))
        out.append(('random', sorted(int(v) for v in rng.choice(tp + 1, size=min(k, tp + 1), replace=False))))
    return out


def seq1d_unit(ctx, P, fn, params, lists, rng, part, nparts, small=False):
    fam = SEQ_ONE[fn]
    lo, hi = domain(fam)
    g = grid_for(fam)
    f = getattr(P, fn)
    warm_1d(P, fam, params, max(ns[-1] for kind, ns in lists))
    for li, (kind, ns) in enumerate(lists):
        if li % nparts != part:
            continue
        k, top = len(ns), ns[-1]
        if small and top > 12:
            continue
        npts = 6 if (k <= 30 and top <= 60) else 3
        x1 = np.concatenate([[lo, hi], rng.choice(g, size=npts - 2, replace=False)])
        coords = [('1d', x1)]
        d0 = ('0d', np.asarray(float(rng.choice(g))))
        d2 = ('2d', dyadic(rng, lo, hi, (2, 3), den=16))
        others = [d0, d2, ('2d-lead=k', dyadic(rng, lo, hi, (k, 2), den=16)), ('3d', dyadic(rng, lo, hi, (2, 1, 2), den=16)),
                  ('1d-len1', dyadic(rng, lo, hi, (1,), den=16)), ('1d-len=k', dyadic(rng, lo, hi, (k,), den=16)),
                  ('1d-noncontig', dyadic(rng, lo, hi, (8,), den=16)[::2]), ('2d-col', dyadic(rng, lo, hi, (3, 1), den=16))]
        if kind == 'subset':
            coords += [d0, d2]
            if top <= 4 or li % 5 == 0:
                coords.append(others[2 + li % 6])
        elif k <= 12:
            coords.append(others[li % len(others)])
        if top <= 12 and li % 4 == 1:
            coords.append(('f32', dyadic(rng, lo, hi, (5,), den=16).astype(np.float32)))
        cont = {2: tuple(ns), 4: np.array(ns), 6: range(ns[0], top + 1)}.get(li % 7, ns)
        if isinstance(cont, range) and list(cont) != ns:
            cont = ns
        for cls, x in coords:
            desc = {'wl': 'seq', 'fn': fn, 'ns': short(ns), 'kind': kind, 'list': list_label(ns), 'params': list(params), 'xcls': cls,
                    'orders_as': type(cont).__name__, 'class': f'{fn}:{kind}:{cls}'}
            ctx.case(desc, nontrivial=top >= 1)
            seq_call(ctx, fn, desc, lambda: f(cont, *params, x),
                     (f'{x.ndim}d', lambda: ORIG[fn](ns, *params, x.reshape(-1))) if x.ndim != 1 else None,
                     [(nclass(n), lambda n=n: ORIG[fn]([n], *params, x)) for n in (ns if k <= 8 else ns[:4] + ns[-4:])])


def nm_coords(rng, k, it, dom01=True):
    """Coordinate classes (r, t of one common shape) for the two-index families."""
    def rr(shape):
        return np.asarray(dyadic(rng, 0, 1, shape, den=32))

    def tt(shape):
        return np.asarray(rng.uniform(0, 2 * np.pi, shape))
    base = [('0d', rr(()), tt(())), ('1d', np.concatenate([[0.0, 1.0], rr((3,))]), tt((5,))), ('2d', rr((2, 3)), tt((2, 3)))]
    extra = [('3d', rr((2, 1, 2)), tt((2, 1, 2))), ('1d-len=k', rr((k,)), tt((k,))), ('2d-lead=k', rr((k, 2)), tt((k, 2))),
             ('f32', rr((4,)).astype(np.float32), tt((4,)).astype(np.float32)), ('1d-len1', rr((1,)), tt((1,)))]
    return base, extra[it % len(extra)]


def zernike_term_lists(ctx, rng):
    nq = ctx.pick(6, 10)
    ns_ = ctx.pick(8, 14)
    valid = [(n, m) for n in range(nq + 1) for m in range(-n, n + 1, 2)]
    L = [('singleton', [(n, m)]) for n in range(ns_ + 1) for m in range(-n, n + 1, 2)]
    for n, m in valid:
        if m > 0:
            L += [('pair+m-m', [(n, m), (n, -m)]), ('pair-m+m', [(n, -m), (n, m)])]
    L += [('repeated', [nm, nm]) for nm in valid[::2]]
    L += [('repeated', [(3, 1), (3, -1), (3, 1)]), ('repeated', [(4, -2), (2, 0), (4, -2), (4, 2)]), ('repeated', [(2, 0), (2, 0), (0, 0)])]
    L += [('m=0-only', [(4, 0), (0, 0), (2, 0)]), ('m=0-only', [(0, 0)]), ('m=0-only', [(6, 0), (2, 0)]), ('m=0-only', [(0, 0), (2, 0), (4, 0), (6, 0)]),
          ('m=0-only', [(8, 0)]), ('m=0-mixed', [(2, 0), (2, 2), (2, -2), (4, 0), (4, 2), (4, -2)]), ('m=0-mixed', [(3, -1), (4, 0), (3, 1), (0, 0)])]
    L += [('same-|m|-unsorted', [(5, 1), (1, 1), (3, -1), (7, 1)]), ('same-|m|-unsorted', [(6, -2), (2, 2), (4, 2), (2, -2)]),
          ('omits-low-radial', [(5, 1), (7, -1)]), ('omits-low-radial', [(6, 2)]), ('omits-low-radial', [(8, 2), (10, -2)]),
          ('omits-low-radial', [(7, 3), (9, 3), (9, -3)]), ('omits-low-radial', [(6, 0), (8, 0)])]
    low = [(n, m) for n, m in valid if n <= 4]
    L += [('full-low-set', low), ('full-low-set-reversed', low[::-1]), ('full-set', valid), ('full-set-reversed', valid[::-1])]
    for _ in range(ctx.pick(24, 2000)):
        k = int(rng.integers(2, 10))
        pickd = [valid[i] for i in rng.integers(0, len(valid), size=k)]          # with replacement: repeats occur
        if rng.random() < 0.5:
            n, m = pickd[0]
            pickd.insert(int(rng.integers(1, len(pickd) + 1)), (n, -m))           # both signs of one term
        L.append(('random-shuffled', pickd))
    return L


def zernike_seq_unit(ctx, P, lists, rng, part, nparts):
    top = max(n for kind, nms in lists for n, m in nms)
    warm_nm(P, 'zernike', top, top)
    for li, (kind, nms) in enumerate(lists):
        if li % nparts != part:
            continue
        k = len(nms)
        base, extra = nm_coords(rng, k, li)
        coords = base + ([extra] if li % 3 == 0 else [])
        as_lists = li % 4 == 3
        for cls, r, t in coords:
            for opt, kw in (('norm=True', {'norm': True}), ('norm=False', {'norm': False}), ('norm-default', {})):
                if opt == 'norm-default' and cls != '1d':
                    continue
                if cls == 'f32' and max(n for n, m in nms) > 10:
                    continue
                desc = {'wl': 'seq', 'fn': 'zernike_nm_seq', 'nms': short(nms), 'kind': kind, 'opt': opt, 'xcls': cls,
                        'class': f'zernike_nm_seq:{kind}:{opt}:{cls}'}
                ctx.case(desc, nontrivial=max(n for n, m in nms) >= 1)
                seq_call(ctx, 'zernike_nm_seq', desc, lambda: P.zernike_nm_seq([list(e) for e in nms] if as_lists else nms, r, t, **kw),
                         (f'{r.ndim}d', lambda: ORIG['zernike_nm_seq'](nms, r.reshape(-1), t.reshape(-1), **kw)) if r.ndim != 1 else None,
                         [(zmclass(e[1]), lambda e=e: ORIG['zernike_nm_seq']([e], r, t, **kw)) for e in nms[:12]])


def q2d_term_lists(ctx, rng):
    N, M = ctx.pick((6, 5), (12, 10))
    L = [('singleton', [(n, m)]) for m in range(-M, M + 1) for n in range(N + 1)]
    for m in range(1, M + 1):
        for n in (0, 1, 2, 3, 4, N):
            L += [('pair+m-m', [(n, m), (n, -m)]), ('pair-m+m', [(n, -m), (n, m)])]
    L += [('repeated', [(n, m), (n, m)]) for n, m in ((0, 0), (2, 0), (1, 1), (3, 1), (4, -1), (2, 2), (3, -3), (0, 4))]
    L += [('repeated', [(3, 1), (3, -1), (3, 1)]), ('repeated', [(2, -2), (2, 0), (2, -2), (2, 2)])]
    L += [('m=0-only', [(4, 0), (0, 0), (2, 0)]), ('m=0-only', [(0, 0)]), ('m=0-only', [(5, 0), (1, 0)]), ('m=0-only', [(0, 0), (1, 0), (2, 0), (3, 0)]),
          ('m=0-only', [(N, 0)]), ('m=0-mixed', [(2, 0), (2, 2), (2, -2), (1, 0), (1, 1), (1, -1)]), ('m=0-mixed', [(3, -1), (4, 0), (3, 1), (0, 0)])]
    for top in (0, 1, 2, 3, 4, 5):          # the m = 1 special branch (P2, P3 hard-coded) and the general branch, by largest order requested
        L += [('m=1-max-n', [(top, 1)]), ('m=1-max-n', [(top, -1), (0, 1)]), ('m>=2-max-n', [(top, 2), (0, -2)]), ('m>=2-max-n', [(top, -3)])]
    L += [('same-|m|-unsorted', [(5, 1), (1, 1), (3, -1), (0, 1)]), ('same-|m|-unsorted', [(4, -2), (0, 2), (2, 2), (1, -2)]),
          ('omits-low-orders', [(3, 1), (5, -1)]), ('omits-low-orders', [(4, 2)]), ('omits-low-orders', [(5, 0), (3, 0)]), ('omits-low-orders', [(2, 3), (6, 3), (6, -3)])]
    full = [(n, m) for n in range(4) for m in range(-3, 4)]
    L += [('full-low-set', full), ('full-low-set-reversed', full[::-1])]
    for _ in range(ctx.pick(24, 2000)):
        k = int(rng.integers(2, 9))
        pickd = [(int(rng.integers(0, N + 1)), int(rng.integers(-M, M + 1))) for _ in range(k)]
        if rng.random() < 0.5:
            n, m = pickd[0]
            pickd.insert(int(rng.integers(1, len(pickd) + 1)), (n, -m))
        if rng.random() < 0.25:
            pickd.append(pickd[int(rng.integers(len(pickd)))])
        L.append(('random-shuffled', pickd))
    return L


def q2d_seq_unit(ctx, P, lists, rng, part, nparts):
    warm_nm(P, 'q2d', max(n for kind, nms in lists for n, m in nms), max(abs(m) for kind, nms in lists for n, m in nms))
    for li, (kind, nms) in enumerate(lists):
        if li % nparts != part:
            continue
        k = len(nms)
        base, extra = nm_coords(rng, k, li)
        coords = base + ([extra] if li % 3 == 0 else [])
        for cls, r, t in coords:
            if cls == 'f32' and max(n + abs(m) for n, m in nms) > 8:
                continue
            desc = {'wl': 'seq', 'fn': 'Q2d_seq', 'nms': short(nms), 'kind': kind, 'xcls': cls, 'class': f'Q2d_seq:{kind}:{cls}'}
            ctx.case(desc)
            seq_call(ctx, 'Q2d_seq', desc, lambda: P.Q2d_seq([list(e) for e in nms] if li % 4 == 3 else nms, r, t),
                     (f'{r.ndim}d', lambda: ORIG['Q2d_seq'](nms, r.reshape(-1), t.reshape(-1))) if r.ndim != 1 else None,
                     [(q2d_mclass(e[1]), lambda e=e: ORIG['Q2d_seq']([e], r, t)) for e in nms[:12]])


def xy_term_lists(ctx, rng, P):
    M = ctx.pick(5, 8)
    L = [('singleton', [(m, n)]) for m in range(M + 1) for n in range(M + 1)]
    L += [('codev-order', [P.xy_j_to_mn(j) for j in range(1, J + 1)]) for J in (1, 3, 6, 15, 28)]
    L += [('codev-order-skips-piston', [P.xy_j_to_mn(j) for j in range(2, 16)])]
    L += [('zero-exponents-only', [(0, 0)]), ('zero-exponents-only', [(0, 0), (0, 0)]), ('x-powers-only', [(3, 0), (1, 0), (0, 0), (2, 0)]),
          ('y-powers-only', [(0, 2), (0, 0), (0, 5)]), ('x-powers-only', [(4, 0)]), ('y-powers-only', [(0, 3)]),
          ('max-exponents-in-different-terms', [(5, 0), (0, 4), (1, 1)]), ('max-exponents-in-different-terms', [(1, 6), (6, 1)]),
          ('repeated', [(2, 1), (2, 1)]), ('repeated', [(1, 2), (2, 1), (1, 2)]), ('unsorted', [(3, 3), (0, 1), (2, 0), (1, 1), (0, 0)]),
          ('omits-low-exponents', [(3, 4), (5, 3)]), ('omits-low-exponents', [(2, 2)]), ('transposed-pair', [(1, 3), (3, 1)])]
    for _ in range(ctx.pick(24, 2000)):
        k = int(rng.integers(1, 9))
        pickd = [(int(a), int(b)) for a, b in rng.integers(0, M + 1, size=(k, 2))]
        if rng.random() < 0.3:
            pickd.append(pickd[0])
        L.append(('random-unsorted', pickd))
    return L


def xy_seq_unit(ctx, P, lists, rng, part, nparts):
    for li, (kind, mns) in enumerate(lists):
        if li % nparts != part:
            continue
        k = len(mns)
        nx, ny = (k, 3 if k != 3 else 4) if li % 5 == 0 else (int(rng.integers(2, 5)), int(rng.integers(2, 5)))
        xv = dyadic(rng, -1, 1, (nx,), den=16)
        yv = dyadic(rng, -1, 1, (ny,), den=16)
        X, Y = np.meshgrid(xv, yv)
        grids = [('meshgrid', X, Y, True), ('separable(1,N)/(M,1)', xv.reshape(1, -1), yv.reshape(-1, 1), True),
                 ('general-2d', dyadic(rng, -1, 1, (ny, nx), den=16), dyadic(rng, -1, 1, (ny, nx), den=16), False),
                 ('general-1d', dyadic(rng, -1, 1, (4,), den=16), dyadic(rng, -1, 1, (4,), den=16), False),
                 ('general-0d', np.asarray(dyadic(rng, -1, 1, (), den=16)), np.asarray(dyadic(rng, -1, 1, (), den=16)), False),
                 ('meshgrid-flag-off', X, Y, False)]
        extra = [('general-3d', dyadic(rng, -1, 1, (2, 1, 2), den=16), dyadic(rng, -1, 1, (2, 1, 2), den=16), False),
                 ('general-1d-len=k', dyadic(rng, -1, 1, (k,), den=16), dyadic(rng, -1, 1, (k,), den=16), False),
                 ('meshgrid-f32', X.astype(np.float32), Y.astype(np.float32), True),
                 ('meshgrid-1xN', X[:1], Y[:1], True), ('meshgrid-Mx1', X[:, :1], Y[:, :1], True)]
        sel = grids if (kind != 'singleton' or li % 4 == 0) else [grids[0], grids[2 + li % 4]]
        for cls, x, y, cart in sel + [extra[li % len(extra)]]:
            if cls.endswith('f32') and max(m + n for m, n in mns) > 8:
                continue
            desc = {'wl': 'seq', 'fn': 'xy_seq', 'mns': short(mns), 'kind': kind, 'xcls': cls, 'class': f'xy_seq:{kind}:{cls}'}
            ctx.case(desc, nontrivial=max(m + n for m, n in mns) >= 1)
            cg = 'cartesian' if cart else 'general'
            seq_call(ctx, 'xy_seq', desc,
                     lambda: P.xy_seq([list(e) for e in mns] if li % 4 == 3 else mns, x, y, **({} if (cart and li % 2) else {'cartesian_grid': cart})),
                     (f'{cg}-{x.ndim}d', lambda: ORIG['xy_seq'](mns, *[c.reshape(-1) for c in np.broadcast_arrays(x, y)], cartesian_grid=False)) if x.ndim != 1 else None,
                     [(cg, lambda e=e: ORIG['xy_seq']([e], x, y, cartesian_grid=cart)) for e in mns[:12]])


def seq_units(ctx, P):
    """(callable, weight) units of the sequence-form workload."""
    units = []
    NJ = ctx.pick(40, 200)
    NH = ctx.pick(40, 60)
    parts = ctx.pick(1, 6)

    def add1d(fn, params, top, weight=2, small=False):
        lists = seq_order_lists(ctx, ctx.rng('seqlists', fn, params), top)
        for part in range(parts):
            units.append((lambda part=part: seq1d_unit(ctx, P, fn, params, lists, ctx.rng('seq', fn, params, part), part, parts, small), weight))

    for ab in SEQ_PARAMS['jacobi_seq'][:ctx.pick(5, 8)]:
        add1d('jacobi_seq', ab, NJ, 3)
    add1d('jacobi_seq', JAC_NONDYADIC[0], 12, 1, small=True)
    for fn in ('legendre_seq', 'cheby1_seq', 'cheby2_seq', 'cheby3_seq', 'cheby4_seq', 'Qcon_seq'):
        add1d(fn, (), NJ, 3)
    add1d('Qbfs_seq', (), ctx.pick(40, 60), 3)
    for fn in ('hermite_He_seq', 'hermite_H_seq'):
        add1d(fn, (), NH, 2)
    for fn in ('laguerre_seq', 'dickson1_seq', 'dickson2_seq'):
        for pa in SEQ_PARAMS[fn][:ctx.pick(3, 4)]:
            add1d(fn, pa, NH, 2)
    p2 = ctx.pick(2, 16)
    zl = zernike_term_lists(ctx, ctx.rng('seqlists', 'zernike'))
    ql = q2d_term_lists(ctx, ctx.rng('seqlists', 'q2d'))
    xl = xy_term_lists(ctx, ctx.rng('seqlists', 'xy'), P)
    for part in range(p2):
        units.append((lambda part=part: zernike_seq_unit(ctx, P, zl, ctx.rng('seq', 'zernike', part), part, p2), 2))
        units.append((lambda part=part: q2d_seq_unit(ctx, P, ql, ctx.rng('seq', 'q2d', part), part, p2), 2))
        units.append((lambda part=part: xy_seq_unit(ctx, P, xl, ctx.rng('seq', 'xy', part), part, p2), 1))
    ctx.note('seq_workload', {'one_index_lists_per_routine_and_parameter_set': len(seq_order_lists(ctx, ctx.rng('seqlists', 'count'), NJ)),
                              'zernike_term_lists': len(zl), 'q2d_term_lists': len(ql), 'xy_term_lists': len(xl),
                              'one_index_max_order': {'jacobi_family': NJ, 'hermite_laguerre_dickson': NH, 'Qbfs': ctx.pick(40, 60)}})
    return units


# ------------------------------------------------------------------------------------------ hardening classes
# C  configuration: single-precision session before the double-precision one (quiet warm-up at the top of every unit), and
#    judged units run entirely under config.precision = 32 (float32, float64 and 0-D coordinates).
# B  histories on the memoised recurrence coefficients: low orders, then orders >= 18 / >= 40, then descending, for parameter sets
#    that share alpha, beta or alpha+beta, across families that share the Jacobi tables, after a float32 session.
# A  repeat / aliasing: the same coordinate objects re-used across calls and families with every result judged against the
#    PRISTINE coordinates; earlier results must survive later calls; results may be scribbled on; memory layouts; containers.
# D  orders above any plausible internal table size for every family in the quick tier too.
def pts32(fam, k=2):
    lo, hi = domain(fam)
    return np.array([lo + (hi - lo) * f for f in (0.3125, 0.75, 0.5625)[:k]], dtype=np.float32)


def warm_1d(P, fam, params, top):
    """Quiet float32 session (config.precision = 32) of the single-order and sequence routine of `fam` up to order `top`."""
    x = pts32(fam)
    th = [lambda: getattr(P, fam)(top, *params, x)]
    if fam + '_seq' in SEQ_ONE:
        th.append(lambda: getattr(P, fam + '_seq')([top], *params, x))
    CTX.event('f32-warmup-raised', warm32(*th))


def warm_nm(P, which, nmax, mmax):
    r = np.array([0.3125, 0.75], dtype=np.float32)
    t = np.array([0.5, 2.25], dtype=np.float32)
    th = []
    if which == 'zernike':
        terms = [(nmax - ((nmax - m) % 2), m) for m in range(0, mmax + 1)]
        th += [lambda n=n, m=m: P.zernike_nm(n, m, r, t) for n, m in terms]
        th.append(lambda: P.zernike_nm_seq(terms, r, t))
    else:
        terms = [(nmax, m) for m in range(0, mmax + 1)]
        th += [lambda n=n, m=m: P.Q2d(n, m, r, t) for n, m in terms]
        th += [lambda: P.Q2d_seq(terms, r, t), lambda: P.Qbfs(nmax, r), lambda: P.Qbfs_seq([nmax], r)]
    CTX.event('f32-warmup-raised', warm32(*th))


def exact_1d(fam, n, params, xs):
    """(reference values, scale) of family `fam` at the points xs from the exact definition."""
    exact = ONE_D[fam][2]
    pr = tuple(E.rat(v) for v in params)
    qs = [E.rat(v) for v in np.asarray(xs, dtype=float).ravel()]
    ref = np.array([exact(n, pr, q) for q in qs])
    sc = max([1.0] + [abs(v) for v in ref] + [abs(exact(k, pr, q)) for k in (n - 1, n - 2) if k >= 0 for q in qs])
    return ref, sc


def judge_pristine(ctx, fam, n, params, x0, got, desc, what_hist):
    """The caller passed an object whose values it knows to be x0: the result must be the definition at x0."""
    ctx.observe('alias.' + fam)
    got = np.asarray(got)
    if got.shape != np.shape(x0):
        return False     # the contract has reported the shape
    ref, sc = exact_1d(fam, n, params, x0)
    err = row_err(got.ravel().astype(float), ref)
    if not err <= RT64 * sc:
        ctx.violation(f'C07/{fam}/value/{what_hist}', f'{fam}: the result is not the definition at the coordinates the caller passed '
                      f'({what_hist}: an earlier call was handed the same coordinate object)', desc, err=err, tol=RT64 * sc)
        return False
    return True


ALIAS_FAMS = [('jacobi', (0.25, -0.25)), ('jacobi', (2.5, -0.75)), ('legendre', ()), ('cheby1', ()), ('cheby2', ()), ('cheby3', ()), ('cheby4', ()),
              ('hermite_He', ()), ('hermite_H', ()), ('laguerre', (0.5,)), ('dickson1', (0.75,)), ('dickson2', (-1.0,)), ('Qbfs', ()), ('Qcon', ())]


def alias_unit(ctx, P, fam, params, rng):
    """Class A for one family: one coordinate object shared by single-order and sequence calls, judged against pristine values."""
    lo, hi = domain(fam)
    lo = max(lo, 0.0) if fam in ('Qbfs', 'Qcon', 'laguerre') else lo
    f = getattr(P, fam)
    fs = getattr(P, fam + '_seq')
    for cls, x0 in (('1d', np.concatenate([[lo, hi], dyadic(rng, lo, hi, (3,), den=32)])), ('2d', dyadic(rng, lo, hi, (2, 3), den=32)),
                    ('0d', np.asarray(float(dyadic(rng, lo, hi, (), den=32))))):
        x = x0.copy()
        kept = []
        orders = [3, 0, 7, 1, 18, 2, 41] if cls == '1d' else [2, 5, 19]
        for step, n in enumerate(orders):
            if fam in ('hermite_He', 'hermite_H', 'laguerre', 'dickson1', 'dickson2') and n > 40:
                n = 40
            desc = {'wl': 'alias', 'fn': fam, 'params': list(params), 'n': n, 'step': step, 'xcls': cls, 'class': f'{fam}:shared-coordinates:{cls}'}
            ctx.case(desc, nontrivial=n >= 1)
            with ctx.guard(f'C07/{fam}/shared-coordinates', desc):
                got = f(n if step % 2 else np.int64(n), *params, x)
                judge_pristine(ctx, fam, n, params, x0, got, desc, 'after-call-sharing-coordinates')
                if isinstance(got, np.ndarray):
                    kept.append((n, got, got.copy()))
            if step % 3 == 1:
                ns = sorted(set(orders[:step + 1]))
                ns = [min(v, 40) if fam in ('hermite_He', 'hermite_H', 'laguerre', 'dickson1', 'dickson2') else v for v in ns]
                ns = sorted(set(ns))
                desc = {'wl': 'alias', 'fn': fam + '_seq', 'params': list(params), 'ns': ns, 'step': step, 'xcls': cls, 'class': f'{fam}_seq:shared-coordinates:{cls}'}
                ctx.case(desc)
                with ctx.guard(f'C07/{fam}_seq/shared-coordinates', desc):
                    rows = fs(ns, *params, x)
                    for k, nn in enumerate(ns):
                        judge_pristine(ctx, fam, nn, params, x0, np.asarray(rows)[k], desc, 'after-call-sharing-coordinates')
                    if isinstance(rows, np.ndarray):
                        kept.append((ns, rows, rows.copy()))
        # earlier results must not have been changed by later calls (a result that aliases internal or argument storage)
        for n, got, snap in kept:
            desc = {'wl': 'alias', 'fn': fam, 'params': list(params), 'n': n, 'xcls': cls, 'class': f'{fam}:result-stability:{cls}'}
            ctx.require('alias.result-stable', np.array_equal(got, snap, equal_nan=True), f'C07/{fam}/result-changed-by-later-call',
                        f'{fam}: an array returned earlier was modified by a later call (it no longer equals the definition)', desc)
        # the caller owns what was returned: scribble on it, then ask again
        for n, got, snap in kept:
            if np.shares_memory(got, x):
                ctx.event('result-shares-memory-with-the-coordinate-argument (not overwritten, not a verdict)')
            elif got.flags.writeable:
                got[...] = np.nan
        for n in orders[:3]:
            desc = {'wl': 'alias', 'fn': fam, 'params': list(params), 'n': n, 'xcls': cls, 'class': f'{fam}:after-result-overwritten:{cls}'}
            ctx.case(desc, nontrivial=n >= 1)
            with ctx.guard(f'C07/{fam}/after-result-overwritten', desc):
                judge_pristine(ctx, fam, n, params, x0, f(n, *params, x), desc, 'after-result-overwritten')
        ctx.event('shared-coordinates-left-intact' if np.array_equal(x, x0) else 'shared-coordinates-MUTATED')


def exact_nm(which, n, m, r0, t0, norm=True):
    rf, tf = np.asarray(r0, dtype=float).ravel(), np.asarray(t0, dtype=float).ravel()
    if which == 'zernike':
        nrm = math.sqrt(E.zernike_norm2(n, m)) if norm else 1.0
        return np.array([float(E.zernike_R(n, abs(m), E.rat(a))) * _trig(m, float(b)) * nrm for a, b in zip(rf, tf)]), max(1.0, nrm)
    ref, sc = [], 1.0
    for a, b in zip(rf, tf):
        rp, nv = E.q_radial(n, m, E.rat(a))
        rad = float(rp) / math.sqrt(nv)
        sc = max(sc, abs(rad))
        ref.append(rad * _trig(m, float(b)))
    return np.array(ref), sc


def alias_nm_unit(ctx, P, rng):
    """Class A for the two-coordinate families: one (r, t) pair of objects shared by zernike_nm, zernike_nm_seq, Q2d, Q2d_seq, Qbfs,
    xy, xy_seq and hopkins, every result judged against the pristine values."""
    for cls, shp in (('1d', (5,)), ('2d', (2, 3)), ('0d', ())):
        r0 = np.asarray(dyadic(rng, 0, 1, shp, den=32), dtype=float)
        t0 = np.asarray(rng.uniform(0, 2 * np.pi, shp))
        r, t = r0.copy(), t0.copy()
        kept = []

        def chk(which, n, m, got, desc, norm=True):
            ctx.observe('alias.' + which)
            got = np.asarray(got)
            if got.shape != r0.shape:
                return
            ref, sc = exact_nm(which, n, m, r0, t0, norm)
            err = row_err(got.ravel().astype(float), ref)
            if not err <= RT64 * sc:
                fn = 'zernike_nm' if which == 'zernike' else 'Q2d'
                ctx.violation(f'C07/{fn}/value/after-call-sharing-coordinates', f'{fn}: the result is not the definition at the coordinates the caller '
                              'passed (an earlier call was handed the same coordinate objects)', desc, err=err, tol=RT64 * sc)
        seqz = [(4, 2), (4, -2), (2, 0), (19, 3), (6, 2)]
        seqq = [(3, 1), (3, -1), (2, 0), (18, 2), (0, 1), (5, 0)]
        for step, ((zn, zm), (qn, qm)) in enumerate(zip([(3, 1), (4, -2), (2, 0), (20, 4), (41, -1), (6, 0)], [(2, 1), (3, -2), (4, 0), (18, 3), (41, -1), (19, 0)])):
            desc = {'wl': 'alias', 'fn': 'zernike_nm', 'n': zn, 'm': zm, 'step': step, 'xcls': cls, 'class': f'zernike_nm:shared-coordinates:{cls}'}
            ctx.case(desc)
            with ctx.guard('C07/zernike_nm/shared-coordinates', desc):
                norm = bool(step % 2)
                got = P.zernike_nm(zn, zm, r, t, norm=norm)
                chk('zernike', zn, zm, got, desc, norm)
                if isinstance(got, np.ndarray):
                    kept.append(('zernike_nm', got, got.copy()))
            desc = {'wl': 'alias', 'fn': 'Q2d', 'n': qn, 'm': qm, 'step': step, 'xcls': cls, 'class': f'Q2d:shared-coordinates:{cls}'}
            ctx.case(desc)
            with ctx.guard('C07/Q2d/shared-coordinates', desc):
                got = P.Q2d(qn, qm, r, t)
                chk('q2d', qn, qm, got, desc)
                if isinstance(got, np.ndarray):
                    kept.append(('Q2d', got, got.copy()))
            if step % 2 == 1:
                desc = {'wl': 'alias', 'fn': 'zernike_nm_seq', 'nms': seqz, 'step': step, 'xcls': cls, 'class': f'zernike_nm_seq:shared-coordinates:{cls}'}
                ctx.case(desc)
                with ctx.guard('C07/zernike_nm_seq/shared-coordinates', desc):
                    rows = P.zernike_nm_seq(seqz, r, t, norm=(step % 4 == 1))
                    for k, (n, m) in enumerate(seqz):
                        chk('zernike', n, m, np.asarray(rows)[k], desc, step % 4 == 1)
                    kept.append(('zernike_nm_seq', rows, np.array(rows, copy=True)))
                desc = {'wl': 'alias', 'fn': 'Q2d_seq', 'nms': seqq, 'step': step, 'xcls': cls, 'class': f'Q2d_seq:shared-coordinates:{cls}'}
                ctx.case(desc)
                with ctx.guard('C07/Q2d_seq/shared-coordinates', desc):
                    rows = P.Q2d_seq(seqq, r, t)
                    for k, (n, m) in enumerate(seqq):
                        chk('q2d', n, m, np.asarray(rows)[k], desc)
                    kept.append(('Q2d_seq', rows, np.array(rows, copy=True)))
                with ctx.guard('C07/xy/shared-coordinates', desc):
                    P.xy(2, 3, r, t, cartesian_grid=False)
                    P.xy_seq([(2, 3), (0, 1), (2, 0)], r, t, cartesian_grid=False)
                    P.hopkins(2, 2, 1, r, t, r)
                    P.Qbfs(7, r)
                    P.Qcon(5, r)
        for fn, got, snap in kept:
            desc = {'wl': 'alias', 'fn': fn, 'xcls': cls, 'class': f'{fn}:result-stability:{cls}'}
            ctx.require('alias.result-stable', np.array_equal(got, snap, equal_nan=True), f'C07/{fn}/result-changed-by-later-call',
                        f'{fn}: an array returned earlier was modified by a later call (it no longer equals the definition)', desc)
            if isinstance(got, np.ndarray) and (np.shares_memory(got, r) or np.shares_memory(got, t)):
                ctx.event('result-shares-memory-with-the-coordinate-argument (not overwritten, not a verdict)')
            elif isinstance(got, np.ndarray) and got.flags.writeable:
                got[...] = np.nan
        desc = {'wl': 'alias', 'fn': 'zernike_nm', 'n': 4, 'm': 2, 'xcls': cls, 'class': f'zernike_nm:after-result-overwritten:{cls}'}
        ctx.case(desc)
        with ctx.guard('C07/zernike_nm/after-result-overwritten', desc):
            chk('zernike', 4, 2, P.zernike_nm(4, 2, r, t), desc)
            chk('q2d', 3, 1, P.Q2d(3, 1, r, t), desc)
            chk('q2d', 4, 0, P.Q2d(4, 0, r, t), desc)
        ctx.event('shared-coordinates-left-intact' if (np.array_equal(r, r0) and np.array_equal(t, t0)) else 'shared-coordinates-MUTATED')


def layout_unit(ctx, P, rng, part, nparts):
    """Class A, memory layout of the coordinate arrays: Fortran order, transposed views, strided slices, windows, reversed strides
    (the contracts judge values and shapes; a failure that disappears for a C-contiguous copy is keyed .../memory-layout)."""
    i = -1
    for fam, params in ALIAS_FAMS:
        lo, hi = domain(fam)
        lo = max(lo, 0.0) if fam in ('Qbfs', 'Qcon', 'laguerre') else lo
        base2 = dyadic(rng, lo, hi, (3, 4), den=32)
        base1 = dyadic(rng, lo, hi, (6,), den=32)
        base3 = dyadic(rng, lo, hi, (2, 3, 2), den=32)
        for n in (3, 18):
            for base in (base2, base1, base3):
                for lab, xv in layouts(base, full=(n == 3)):
                    i += 1
                    if i % nparts != part or lab == 'C':
                        continue
                    desc = {'wl': 'layout', 'fn': fam, 'params': list(params), 'n': n, 'layout': lab, 'ndim': base.ndim, 'class': f'{fam}:layout:{lab}:{base.ndim}d'}
                    ctx.case(desc)
                    with ctx.guard(f'C07/{fam}/layout', desc):
                        getattr(P, fam)(n, *params, xv)
                    desc = dict(desc, fn=fam + '_seq', **{'class': f'{fam}_seq:layout:{lab}:{base.ndim}d'})
                    ctx.case(desc)
                    seq_call(ctx, fam + '_seq', desc, lambda: getattr(P, fam + '_seq')([1, n - 1, n], *params, xv), None,
                             [(nclass(n), lambda: ORIG[fam + '_seq']([n], *params, xv))])
    r2 = dyadic(rng, 0, 1, (3, 4), den=32)
    t2 = rng.uniform(0, 2 * np.pi, (3, 4))
    r1 = dyadic(rng, 0, 1, (6,), den=32)
    t1 = rng.uniform(0, 2 * np.pi, (6,))
    for rb, tb in ((r2, t2), (r1, t1)):
        Lr, Lt = layouts(rb), layouts(tb)
        for a, (lr, rv) in enumerate(Lr):
            for b, (lt, tv) in enumerate(Lt):
                if (a == 0 and b == 0) or (a != b and a and b and (a + b) % 3):
                    continue
                i += 1
                if i % nparts != part:
                    continue
                lab = f'{lr}/{lt}'
                for fn, call, nt in (('zernike_nm', lambda: (P.zernike_nm(5, 3, rv, tv), P.zernike_nm(18, -2, rv, tv, norm=False), P.zernike_nm(4, 0, rv, tv)), True),
                                     ('Q2d', lambda: (P.Q2d(3, 2, rv, tv), P.Q2d(18, -1, rv, tv), P.Q2d(4, 0, rv, tv)), True),
                                     ('hopkins', lambda: P.hopkins(-2, 3, 1, rv, tv, rv), True),
                                     ('xy', lambda: (P.xy(2, 3, rv, tv, cartesian_grid=False), P.xy(0, 2, rv, tv, cartesian_grid=False)), True)):
                    desc = {'wl': 'layout', 'fn': fn, 'layout': lab, 'ndim': rb.ndim, 'class': f'{fn}:layout:{lab}:{rb.ndim}d'}
                    ctx.case(desc)
                    with ctx.guard(f'C07/{fn}/layout', desc):
                        call()
                for fn, lst, kw in (('zernike_nm_seq', [(5, 3), (5, -3), (2, 0), (18, 2)], {'norm': False}), ('zernike_nm_seq', [(4, 0), (3, 1)], {}),
                                    ('Q2d_seq', [(3, 2), (3, -2), (2, 0), (18, 1)], {}), ('xy_seq', [(2, 3), (0, 1), (2, 0)], {'cartesian_grid': False})):
                    desc = {'wl': 'layout', 'fn': fn, 'layout': lab, 'ndim': rb.ndim, 'class': f'{fn}:layout:{lab}:{rb.ndim}d'}
                    ctx.case(desc)
                    seq_call(ctx, fn, desc, lambda: getattr(P, fn)(lst, rv, tv, **kw), None, [('term', lambda e=e: ORIG[fn]([e], rv, tv, **kw)) for e in lst])
    # cartesian grids for xy / xy_seq: meshgrid arrays in Fortran order and as transposed views
    xv = dyadic(rng, -1, 1, (4,), den=16)
    yv = dyadic(rng, -1, 1, (3,), den=16)
    X, Y = np.meshgrid(xv, yv)
    for (lx, XV), (ly, YV) in zip(layouts(X), layouts(Y)):
        i += 1
        if i % nparts != part:
            continue
        desc = {'wl': 'layout', 'fn': 'xy_seq', 'layout': lx, 'grid': 'cartesian', 'class': f'xy_seq:layout:cartesian:{lx}'}
        ctx.case(desc)
        with ctx.guard('C07/xy/layout', desc):
            P.xy(2, 1, XV, YV)
        seq_call(ctx, 'xy_seq', desc, lambda: P.xy_seq([(2, 1), (0, 3), (1, 0)], XV, YV), None, [('cartesian', lambda: ORIG['xy_seq']([(2, 1)], XV, YV))])


def container_unit(ctx, P, rng):
    """Class A, containers: order lists as list / tuple / int64 / int32 ndarray / list of numpy ints / range; the single order as a
    numpy integer; shape parameters as numpy float64 scalars and python ints."""
    for fam, params in ALIAS_FAMS:
        lo, hi = domain(fam)
        lo = max(lo, 0.0) if fam in ('Qbfs', 'Qcon', 'laguerre') else lo
        x = dyadic(rng, lo, hi, (4,), den=32)
        for ns in ([0, 1, 2, 3], [2, 5, 19], [3, 4, 5], [18]):
            for lab, cont in order_containers(ns):
                desc = {'wl': 'containers', 'fn': fam + '_seq', 'ns': ns, 'orders_as': lab, 'params': list(params), 'class': f'{fam}_seq:orders-as-{lab}'}
                ctx.case(desc)
                seq_call(ctx, fam + '_seq', desc, lambda: getattr(P, fam + '_seq')(cont, *params, x), None, [(nclass(n), lambda n=n: ORIG[fam + '_seq']([n], *params, x)) for n in ns])
        for n in (0, 1, 2, 5, 19):
            for lab, nn in (('int64', np.int64(n)), ('int32', np.int32(n)), ('intp', np.intp(n))):
                for plab, pp in (('python', params), ('float64', tuple(np.float64(v) for v in params))):
                    if plab == 'float64' and not params:
                        continue
                    desc = {'wl': 'containers', 'fn': fam, 'n': n, 'n_as': lab, 'params_as': plab, 'params': list(params), 'class': f'{fam}:n-as-{lab}:params-as-{plab}'}
                    ctx.case(desc, nontrivial=n >= 1)
                    with ctx.guard(f'C07/{fam}/n-as-{lab}', desc):
                        getattr(P, fam)(nn, *pp, x)
    r = dyadic(rng, 0, 1, (4,), den=32)
    t = rng.uniform(0, 2 * np.pi, 4)
    for lab, mk in (('int64', np.int64), ('int32', np.int32)):
        desc = {'wl': 'containers', 'fn': 'zernike_nm/Q2d', 'n_as': lab, 'class': f'two-index:n-m-as-{lab}'}
        ctx.case(desc)
        with ctx.guard(f'C07/two-index/n-as-{lab}', desc):
            for n, m in ((4, 2), (5, -3), (19, 1), (6, 0)):
                P.zernike_nm(mk(n), mk(m), r, t)
            for n, m in ((3, 2), (5, -3), (19, 1), (6, 0)):
                P.Q2d(mk(n), mk(m), r, t)
            P.xy(mk(2), mk(3), r, t, cartesian_grid=False)
            P.hopkins(mk(-2), mk(3), mk(1), r, t, r)
    for lab, mk in (('list-of-tuples', lambda L: [tuple(e) for e in L]), ('list-of-lists', lambda L: [list(e) for e in L]), ('tuple-of-tuples', lambda L: tuple(tuple(e) for e in L)),
                    ('ndarray-int64', lambda L: np.array(L, dtype=np.int64)), ('ndarray-int32', lambda L: np.array(L, dtype=np.int32))):
        for fn, L, kw in (('zernike_nm_seq', [(4, 2), (4, -2), (2, 0), (19, 1)], {}), ('zernike_nm_seq', [(5, 3), (3, -1)], {'norm': False}),
                          ('Q2d_seq', [(3, 2), (3, -2), (2, 0), (19, 1)], {}), ('xy_seq', [(2, 3), (0, 1), (2, 0)], {'cartesian_grid': False})):
            desc = {'wl': 'containers', 'fn': fn, 'terms_as': lab, 'class': f'{fn}:terms-as-{lab}'}
            ctx.case(desc)
            seq_call(ctx, fn, desc, lambda: getattr(P, fn)(mk(L), r, t, **kw), None, [('term', lambda e=e: ORIG[fn]([e], r, t, **kw)) for e in L])


CFG_FAMS = ALIAS_FAMS + [('jacobi', (-0.5, 0.5)), ('jacobi', (0.0, 4.0)), ('laguerre', (-0.875,)), ('dickson1', (-1.0,))]


def cfg32_unit(ctx, P, rng, part, nparts):
    """Class C: everything under config.precision = 32 - float32 coordinates, float64 coordinates (mixed) and 0-D - judged at the
    single-precision tolerance (orders <= 12: float32 recurrences lose digits with the order)."""
    orders = (0, 1, 2, 3, 5, 8, 12)
    with precision(32):
        for i, (fam, params) in enumerate(CFG_FAMS):
            if i % nparts != part:
                continue
            lo, hi = domain(fam)
            lo = max(lo, 0.0) if fam in ('Qbfs', 'Qcon', 'laguerre') else lo
            xs = [('f32-1d', dyadic(rng, lo, hi, (5,), den=64).astype(np.float32)), ('f64-1d', dyadic(rng, lo, hi, (5,), den=64)),
                  ('f32-0d', np.asarray(dyadic(rng, lo, hi, (), den=64), dtype=np.float32)), ('f32-2d', dyadic(rng, lo, hi, (2, 3), den=64).astype(np.float32))]
            for n in orders:
                for cls, x in xs:
                    desc = {'wl': 'cfg32', 'fn': fam, 'params': list(params), 'n': n, 'xcls': cls, 'class': f'{fam}:precision=32:{cls}'}
                    ctx.case(desc, nontrivial=n >= 1)
                    with ctx.guard(f'C07/{fam}/precision=32/x={cls}', desc):
                        call_1d(P, fam, n, params, x)
            fn = fam + '_seq'
            for ns in ([0, 1, 2, 3, 5, 8, 12], [3, 9], [0], [12], [1, 2]):
                for cls, x in xs:
                    desc = {'wl': 'cfg32', 'fn': fn, 'params': list(params), 'ns': ns, 'xcls': cls, 'class': f'{fn}:precision=32:{cls}'}
                    ctx.case(desc, nontrivial=ns[-1] >= 1)
                    seq_call(ctx, fn, desc, lambda: getattr(P, fn)(ns, *params, x), None, [(nclass(n), lambda n=n: ORIG[fn]([n], *params, x)) for n in ns])
        if part == 0:
            coords = [('f32-1d', dyadic(rng, 0, 1, (5,), den=64).astype(np.float32), rng.uniform(0, 6.28, 5).astype(np.float32)),
                      ('f64-1d', dyadic(rng, 0, 1, (5,), den=64), rng.uniform(0, 6.28, 5)),
                      ('f32-2d', dyadic(rng, 0, 1, (2, 3), den=64).astype(np.float32), rng.uniform(0, 6.28, (2, 3)).astype(np.float32)),
                      ('f32-0d', np.asarray(0.40625, dtype=np.float32), np.asarray(1.25, dtype=np.float32))]
            for cls, r, t in coords:
                for n in range(0, 9):
                    for m in range(-n, n + 1, 2):
                        desc = {'wl': 'cfg32', 'fn': 'zernike_nm', 'n': n, 'm': m, 'xcls': cls, 'class': f'zernike_nm:precision=32:{cls}'}
                        ctx.case(desc, nontrivial=n >= 1)
                        with ctx.guard(f'C07/zernike_nm/precision=32/x={cls}', desc):
                            P.zernike_nm(n, m, r, t, norm=bool((n + m) % 4))
                for n in range(0, 7):
                    for m in range(-4, 5):
                        desc = {'wl': 'cfg32', 'fn': 'Q2d', 'n': n, 'm': m, 'xcls': cls, 'class': f'Q2d:precision=32:{cls}'}
                        ctx.case(desc)
                        with ctx.guard(f'C07/Q2d/precision=32/x={cls}', desc):
                            P.Q2d(n, m, r, t)
                for fn, L, kw in (('zernike_nm_seq', [(n, m) for n in range(7) for m in range(-n, n + 1, 2)], {}), ('zernike_nm_seq', [(4, 2), (4, -2), (2, 0), (8, 0)], {'norm': False}),
                                  ('Q2d_seq', [(n, m) for n in range(5) for m in range(-3, 4)], {}), ('xy_seq', [(2, 3), (0, 1), (2, 0), (5, 5)], {'cartesian_grid': False})):
                    desc = {'wl': 'cfg32', 'fn': fn, 'xcls': cls, 'opt': str(kw), 'class': f'{fn}:precision=32:{cls}'}
                    ctx.case(desc)
                    seq_call(ctx, fn, desc, lambda: getattr(P, fn)(L, r, t, **kw), None, [('term', lambda e=e: ORIG[fn]([e], r, t, **kw)) for e in L[:12]])
                desc = {'wl': 'cfg32', 'fn': 'xy/hopkins', 'xcls': cls, 'class': f'xy-hopkins:precision=32:{cls}'}
                ctx.case(desc)
                with ctx.guard(f'C07/xy/precision=32/x={cls}', desc):
                    for m_, n_ in ((0, 0), (2, 3), (5, 0), (0, 4)):
                        P.xy(m_, n_, r, t, cartesian_grid=False)
                    for a_, b_, c_ in ((0, 2, 0), (1, 3, 1), (-2, 2, 2)):
                        P.hopkins(a_, b_, c_, r, t, r)


HIST_ORDERS = [2, 5, 3, 17, 18, 19, 16, 41, 40, 7, 0, 1, 4]
HIST_VARIANTS = ('f32-low-orders-then-f64', 'f32-high-orders-then-f64', 'f64-low-then-high', 'f64-high-then-low')


def hist_prologue(variant, low, high):
    """Start of a history: memo tables emptied (where possible), then the optional single-precision session."""
    clear_caches()
    if variant == 'f32-low-orders-then-f64':
        low()
    elif variant == 'f32-high-orders-then-f64':
        high()


def hist_order_list(variant, top):
    o = [v for v in HIST_ORDERS if v <= top] + [top, top - 1]
    if variant == 'f64-high-then-low':
        o = [top, 41, 18, 40, 17, 5, 2, 19, 3, 0, 1, top - 1]
        o = [v for v in o if v <= top]
    return o


def history_1d_unit(ctx, P, fam, plist, top, variant):
    """Class B/C for one family: parameter sets that share alpha, beta or alpha+beta are interleaved order by order, so a table
    keyed without one of them, grown in steps, or filled during the float32 session is read back by a judged float64 call."""
    lo, hi = domain(fam)
    lo = max(lo, 0.0) if fam in ('Qbfs', 'Qcon', 'laguerre') else lo
    x = np.array([lo, lo + (hi - lo) * 0.40625, lo + (hi - lo) * 0.8125, hi])
    x32 = pts32(fam)
    f, fs = getattr(P, fam), getattr(P, fam + '_seq')
    HISTORY[0] = variant
    try:
        hist_prologue(variant, lambda: warm32(*[lambda p=p: (f(5, *p, x32), fs([0, 1, 2, 3, 4, 5], *p, x32)) for p in plist]),
                      lambda: warm32(*[lambda p=p: (f(top, *p, x32), fs([top], *p, x32)) for p in plist]))
        orders = hist_order_list(variant, top)
        for step, n in enumerate(orders):
            for p in plist:
                desc = {'wl': 'history', 'fn': fam, 'params': list(p), 'n': n, 'step': step, 'variant': variant, 'class': f'{fam}:history:{variant}'}
                ctx.case(desc, nontrivial=n >= 1)
                with ctx.guard(f'C07/{fam}/history', desc):
                    f(n, *p, x)
            if step % 3 == 2:
                ns = sorted(set(orders[max(0, step - 3):step + 1]))
                for p in plist:
                    desc = {'wl': 'history', 'fn': fam + '_seq', 'params': list(p), 'ns': ns, 'step': step, 'variant': variant, 'class': f'{fam}_seq:history:{variant}'}
                    ctx.case(desc)
                    seq_call(ctx, fam + '_seq', desc, lambda: fs(ns, *p, x), None, [(nclass(v), lambda v=v: ORIG[fam + '_seq']([v], *p, x)) for v in ns])
        # descending sweep on two points (every table entry is read again after the tables are complete)
        for n in range(min(top, 45), -1, -1):
            p = plist[n % len(plist)]
            desc = {'wl': 'history', 'fn': fam, 'params': list(p), 'n': n, 'variant': variant, 'sweep': 'descending', 'class': f'{fam}:history:descending'}
            ctx.case(desc, nontrivial=n >= 1)
            with ctx.guard(f'C07/{fam}/history', desc):
                f(n, *p, x[1:3])
    finally:
        HISTORY[0] = None


def history_shared_unit(ctx, P, variant):
    """Class B across the families that share the Jacobi recurrence table: cheby1..4 <-> jacobi(+-1/2, +-1/2), legendre <-> jacobi(0,0)
    <-> zernike m=0, Qcon <-> jacobi(0,4) <-> zernike |m|=4, in alternation, low orders then >= 18 / >= 40 then descending."""
    x = np.array([-1.0, -0.34375, 0.40625, 1.0])
    u = np.array([0.0, 0.34375, 0.8125, 1.0])
    tt = np.array([0.5, 1.75, 3.0, 5.5])
    x32, u32, t32 = x[1:3].astype(np.float32), u[1:3].astype(np.float32), tt[1:3].astype(np.float32)
    groups = [('cheby1', (-.5, -.5)), ('cheby2', (.5, .5)), ('cheby3', (-.5, .5)), ('cheby4', (.5, -.5)), ('legendre', (0.0, 0.0))]

    def session(n, xx, uu, t_, judged):
        for fam, ab in groups:
            calls = [(fam, lambda: getattr(P, fam)(n, xx)), ('jacobi', lambda: P.jacobi(n, *ab, xx)),
                     (fam + '_seq', lambda: getattr(P, fam + '_seq')([max(n - 1, 0), n] if n else [0], xx)),
                     ('jacobi_seq', lambda: P.jacobi_seq([n], *ab, xx))]
            for fn, c in calls:
                if judged:
                    desc = {'wl': 'history', 'fn': fn, 'shares-table-with': fam, 'n': n, 'variant': variant, 'class': f'{fn}:history-shared-jacobi-table:{variant}'}
                    ctx.case(desc, nontrivial=n >= 1)
                    with ctx.guard(f'C07/{fn}/history', desc):
                        c()
                else:
                    c()
        calls = [('zernike_nm', lambda: P.zernike_nm(2 * n, 0, uu, t_)), ('legendre', lambda: P.legendre(n, xx)),
                 ('Qcon', lambda: P.Qcon(n, uu)), ('zernike_nm', lambda: P.zernike_nm(2 * n + 4, 4, uu, t_)), ('jacobi', lambda: P.jacobi(n, 0, 4, xx)),
                 ('zernike_nm', lambda: P.zernike_nm(2 * n + 4, -4, uu, t_, norm=False)), ('Qcon_seq', lambda: P.Qcon_seq([n], uu)),
                 ('zernike_nm_seq', lambda: P.zernike_nm_seq([(2 * n + 4, 4), (2 * n, 0), (2 * n + 1, 1)], uu, t_)), ('jacobi_seq', lambda: P.jacobi_seq([n], 0, 4, xx)),
                 ('jacobi', lambda: P.jacobi(n, 0, 1, xx)), ('zernike_nm', lambda: P.zernike_nm(2 * n + 1, -1, uu, t_))]
        for fn, c in calls:
            if judged:
                desc = {'wl': 'history', 'fn': fn, 'n': n, 'variant': variant, 'class': f'{fn}:history-shared-jacobi-table:{variant}'}
                ctx.case(desc)
                with ctx.guard(f'C07/{fn}/history', desc):
                    c()
            else:
                c()
    HISTORY[0] = variant
    try:
        hist_prologue(variant, lambda: warm32(lambda: session(5, x32, u32, t32, False)), lambda: warm32(lambda: session(41, x32, u32, t32, False)))
        for n in hist_order_list(variant, 41)[:-2]:
            session(n, x, u, tt, True)
    finally:
        HISTORY[0] = None


def history_q_unit(ctx, P, variant, ms):
    """Class B/C for the Forbes families: Qbfs f/g/h tables (keyed by n) and the 2D-Q tables (keyed by n, |m|)."""
    u = np.array([0.0, 0.34375, 0.8125, 1.0])
    tt = np.array([0.5, 1.75, 3.0, 5.5])
    u32, t32 = u[1:3].astype(np.float32), tt[1:3].astype(np.float32)

    def session(n, uu, t_, judged):
        calls = [('Qbfs', lambda: P.Qbfs(n, uu)), ('Q2d', lambda: P.Q2d(n, 0, uu, t_)), ('Qbfs_seq', lambda: P.Qbfs_seq([max(n - 1, 0), n] if n else [0], uu)),
                 ('Q2d_seq', lambda: P.Q2d_seq([(n, 0), (max(n - 2, 0), 0)], uu, t_))]
        for m in ms:
            calls += [('Q2d', lambda m=m: P.Q2d(n, m, uu, t_)), ('Q2d', lambda m=m: P.Q2d(n, -m, uu, t_)),
                      ('Q2d_seq', lambda m=m: P.Q2d_seq([(n, m), (max(n - 2, 0), -m), (n, 0)], uu, t_))]
        for fn, c in calls:
            if judged:
                desc = {'wl': 'history', 'fn': fn, 'n': n, 'ms': list(ms), 'variant': variant, 'class': f'{fn}:history:{variant}'}
                ctx.case(desc)
                with ctx.guard(f'C07/{fn}/history', desc):
                    c()
            else:
                c()
    HISTORY[0] = variant
    try:
        hist_prologue(variant, lambda: warm32(lambda: session(5, u32, t32, False)), lambda: warm32(lambda: session(41, u32, t32, False)))
        for n in hist_order_list(variant, 41)[:-2]:
            session(n, u, tt, True)
    finally:
        HISTORY[0] = None


def typed_parameter_unit(ctx, P):
    """Class A/C: shape parameters handed over as numpy float32 scalars in a single-precision call, then the same VALUES as python
    floats in a double-precision call (dyadic values: np.float32(0.5) == 0.5 and both hash alike, so a memo table keyed by value
    serves the second call from the entry the first one made).  Bracketed by cache resets; runs last on its shard."""
    x = np.array([-1.0, -0.34375, 0.40625, 1.0])
    x32 = x[1:3].astype(np.float32)
    HISTORY[0] = 'after-call-with-float32-typed-parameters'
    try:
        for fam, p in (('jacobi', (0.5, -0.5)), ('jacobi', (0.25, 1.5)), ('laguerre', (0.5,)), ('dickson1', (0.75,)), ('dickson2', (0.75,))):
            clear_caches()
            lo, hi = domain(fam)
            xx = x if lo < 0 else np.array([0.0, 0.34375, 0.8125, 1.0])
            p32 = tuple(np.float32(v) for v in p)
            with quiet(), np.errstate(all='ignore'):
                try:
                    getattr(P, fam)(20, *p32, xx[1:3].astype(np.float32))
                    getattr(P, fam + '_seq')([3, 20], *p32, xx[1:3].astype(np.float32))
                except Exception:  # noqa
                    ctx.event('float32-typed-parameter-call-raised')
            for n in (2, 3, 7, 20, 12):
                desc = {'wl': 'history', 'fn': fam, 'params': list(p), 'n': n, 'variant': HISTORY[0], 'class': f'{fam}:history:{HISTORY[0]}'}
                ctx.case(desc)
                with ctx.guard(f'C07/{fam}/history', desc):
                    getattr(P, fam)(n, *p, xx)
            desc = {'wl': 'history', 'fn': fam + '_seq', 'params': list(p), 'ns': [2, 7, 20], 'variant': HISTORY[0], 'class': f'{fam}_seq:history:{HISTORY[0]}'}
            ctx.case(desc)
            seq_call(ctx, fam + '_seq', desc, lambda: getattr(P, fam + '_seq')([2, 7, 20], *p, xx), None, [])
    finally:
        HISTORY[0] = None
        clear_caches()


def high_order_unit(ctx, P, rng):
    """Class D in the quick tier too: orders >= 18 and >= 40 for the two-index families, the monomials and Hopkins terms."""
    r = np.concatenate([[0.0, 1.0], dyadic(rng, 0, 1, (3,), den=32)])
    t = rng.uniform(0, 2 * np.pi, 5)
    warm_nm(P, 'zernike', 44, 44)
    for n, m in ((18, 0), (18, 2), (19, -1), (20, 20), (21, -21), (40, 0), (41, 1), (41, -3), (44, 4), (42, -42), (43, 17), (60, 0), (60, -2)):
        for norm in (True, False):
            desc = {'wl': 'high-order', 'fn': 'zernike_nm', 'n': n, 'm': m, 'norm': norm, 'class': f'zernike_nm:high-order:{zmclass(m)}'}
            ctx.case(desc)
            with ctx.guard('C07/zernike_nm/high-order', desc):
                P.zernike_nm(n, m, r, t, norm=norm)
    for lst in ([(18, 0), (19, 1), (41, -3), (44, 4)], [(41, 1)], [(60, 0), (2, 0), (40, 0)], [(43, 17), (43, -17), (17, 17)]):
        desc = {'wl': 'high-order', 'fn': 'zernike_nm_seq', 'nms': lst, 'class': 'zernike_nm_seq:high-order'}
        ctx.case(desc)
        seq_call(ctx, 'zernike_nm_seq', desc, lambda: P.zernike_nm_seq(lst, r, t, norm=len(lst) % 2 == 0), None, [(zmclass(e[1]), lambda e=e: ORIG['zernike_nm_seq']([e], r, t)) for e in lst])
    warm_nm(P, 'q2d', 41, 20)
    for n, m in ((18, 0), (18, 1), (19, -1), (18, 2), (20, -3), (5, 18), (3, -20), (40, 0), (41, 1), (40, -1), (41, 2), (40, -5), (41, 12)):
        desc = {'wl': 'high-order', 'fn': 'Q2d', 'n': n, 'm': m, 'class': f'Q2d:high-order:{q2d_mclass(m)}'}
        ctx.case(desc)
        with ctx.guard('C07/Q2d/high-order', desc):
            P.Q2d(n, m, r, t)
    for lst in ([(18, 0), (19, 1), (41, -1), (40, 2)], [(41, 1)], [(40, 0), (2, 0), (18, 0)], [(20, 3), (41, -3), (4, 3)]):
        desc = {'wl': 'high-order', 'fn': 'Q2d_seq', 'nms': lst, 'class': 'Q2d_seq:high-order'}
        ctx.case(desc)
        seq_call(ctx, 'Q2d_seq', desc, lambda: P.Q2d_seq(lst, r, t), None, [(q2d_mclass(e[1]), lambda e=e: ORIG['Q2d_seq']([e], r, t)) for e in lst])
    x = dyadic(rng, -1, 1, (4,), den=16)
    y = dyadic(rng, -1, 1, (4,), den=16)
    X, Y = np.meshgrid(x, y[:3])
    for m_, n_ in ((18, 0), (0, 19), (18, 19), (40, 3), (2, 41), (41, 40)):
        desc = {'wl': 'high-order', 'fn': 'xy', 'm': m_, 'n': n_, 'class': 'xy:high-order'}
        ctx.case(desc)
        with ctx.guard('C07/xy/high-order', desc):
            P.xy(m_, n_, x, y, cartesian_grid=False)
            P.xy(m_, n_, X, Y)
    for lst in ([(18, 0), (0, 19), (2, 41), (1, 1)], [(41, 40)], [(40, 3), (3, 40), (0, 0)]):
        desc = {'wl': 'high-order', 'fn': 'xy_seq', 'mns': lst, 'class': 'xy_seq:high-order'}
        ctx.case(desc)
        seq_call(ctx, 'xy_seq', desc, lambda: P.xy_seq(lst, x, y, cartesian_grid=False), None, [('general', lambda e=e: ORIG['xy_seq']([e], x, y, cartesian_grid=False)) for e in lst])
        seq_call(ctx, 'xy_seq', desc, lambda: P.xy_seq(lst, X, Y), None, [('cartesian', lambda e=e: ORIG['xy_seq']([e], X, Y)) for e in lst])
    H = dyadic(rng, 0, 1, (5,), den=32)
    for a_, b_, c_ in ((18, 18, 0), (-19, 19, 2), (0, 40, 1), (41, 41, 18), (-40, 2, 41)):
        desc = {'wl': 'high-order', 'fn': 'hopkins', 'a': a_, 'b': b_, 'c': c_, 'class': 'hopkins:high-order'}
        ctx.case(desc)
        with ctx.guard('C07/hopkins/high-order', desc):
            P.hopkins(a_, b_, c_, r, t, H)


# ------------------------------------------------------------------------------------------ hardening pass 2 (HARDENING2.md D in the quick tier, E, F)
def dom01(fam):
    lo, hi = domain(fam)
    return (max(lo, 0.0) if fam in ('Qbfs', 'Qcon', 'laguerre') else lo), hi


def very_high_unit(ctx, P, fam, params):
    """Class D in the quick tier too: orders 171, 172, 200, 256, 400 (171! leaves double precision: a closed form built from factorials / Pochhammer
    symbols overflows there although the values stay moderate), single-order and sequence forms on the same three cheap points, each judged against
    the exact definition (the Fraction oracle does not care about the order; a reference beyond the double range is excluded and counted)."""
    lo, hi = dom01(fam)
    x = np.array([lo, lo + (hi - lo) * 0.40625, hi])
    f, fs = getattr(P, fam), getattr(P, fam + '_seq')
    for n in high_orders(fam, not ctx.quick):
        desc = {'wl': 'very-high-order', 'fn': fam, 'params': list(params), 'n': n, 'class': f'{fam}:very-high-order'}
        ctx.case(desc)
        ctx.observe('classD.very-high-orders')
        with ctx.guard(f'C07/{fam}/very-high-order', desc):
            f(n, *params, x)
        for ns in ([n], [0, n - 1, n]) + (([1, 170, 171, 172],) if n == 172 else ()):
            desc = {'wl': 'very-high-order', 'fn': fam + '_seq', 'params': list(params), 'ns': ns, 'class': f'{fam}_seq:very-high-order'}
            ctx.case(desc)
            seq_call(ctx, fam + '_seq', desc, lambda: fs(ns if n % 2 else np.array(ns), *params, x), None, [(nclass(v), lambda v=v: ORIG[fam + '_seq']([v], *params, x)) for v in ns])


def coord_form_unit(ctx, P, fam, params):
    """Class E, forms of the evaluation points: python int / float / complex, int64 / int32 ndarrays (1-D, 2-D, 0-D), numpy int64 scalars, bool
    ndarrays, complex128 ndarrays (1-D, 2-D, 0-D, real-valued), complex64 (single-precision class).  The contracts judge every call against the
    exact definition at the very points passed (integers exactly; complex points as Gaussian rationals)."""
    lo, hi = dom01(fam)
    f, fs = getattr(P, fam), getattr(P, fam + '_seq')
    for lab, kind, xv, xf in coord_forms(lo, hi):
        for n in ctx.pick((0, 1, 2, 3, 5, 8, 12), tuple(range(13)) + (15, 19, 25, 40)) if lab != 'complex64-1d' else ctx.pick((0, 1, 2, 3, 5, 8), tuple(range(9))):
            desc = {'wl': 'coordinate-forms', 'fn': fam, 'params': list(params), 'n': n, 'x_as': lab, 'class': f'{fam}:x-as-{lab.split(":")[0]}'}
            ctx.case(desc, nontrivial=n >= 1)
            ctx.observe('classE.argument-forms')
            with ctx.guard(f'C07/{fam}/x-as-{form_class(lab)}', desc):
                f(n, *params, xv)
    for lab, kind, xv, xf in coord_forms(lo, hi, seq=True):
        if not seq_coord_kind_ok(fam + '_seq', kind):
            ctx.skip(f'*_seq with integer / bool coordinates truncates into the coordinate dtype today (class E table): excluded')
            continue
        for ns in ([0, 1, 2, 3], [2, 5], [1], [0, 3, 8, 12], [7], [0]) + ctx.pick((), ([0, 1, 2, 3, 4, 5, 6, 7, 8], [3, 4], [2], [1, 2, 19], [4, 9, 25, 40], [12], [0, 2])):
            if lab == 'complex64-1d' and ns[-1] > 8:
                continue
            desc = {'wl': 'coordinate-forms', 'fn': fam + '_seq', 'params': list(params), 'ns': ns, 'x_as': lab, 'class': f'{fam}_seq:x-as-{lab}'}
            ctx.case(desc, nontrivial=ns[-1] >= 1)
            seq_call(ctx, fam + '_seq', desc, lambda: fs(ns, *params, xv), None, [(nclass(v), lambda v=v: ORIG[fam + '_seq']([v], *params, xv)) for v in ns])


def coord_form_nm_unit(ctx, P, rng):
    """Class E for the two-coordinate routines: integer-typed radius / coordinates where the class E table lists the routine (zernike_nm for n > |m|,
    Q2d, xy, xy_seq, hopkins), complex coordinates for xy / xy_seq."""
    t = np.array([0.5, 1.75, 3.0, 5.5])
    for lab, r, tt in (('int64', np.array([0, 1, 1, 0]), t), ('int32', np.array([1, 0, 1, 1], dtype=np.int32), t), ('pyint:1', 1, 0.75), ('pyint:0', 0, 2.5),
                       ('int64-2d', np.array([[0, 1], [1, 1]]), t.reshape(2, 2)), ('bool', np.array([False, True, True, False]), t), ('int64+int-angle', np.array([0, 1, 1, 0]), np.array([0, 1, 2, 3]))):
        for n, m in ((3, 1), (3, -1), (4, 0), (2, 0), (5, 3), (4, -2), (6, 2), (19, 1)):
            desc = {'wl': 'coordinate-forms', 'fn': 'zernike_nm', 'n': n, 'm': m, 'r_as': lab, 'class': f'zernike_nm:r-as-{lab.split(":")[0]}'}
            ctx.case(desc)
            with ctx.guard('C07/zernike_nm/r-as-integer', desc):
                P.zernike_nm(n, m, r, tt, norm=bool((n + m) % 4))
        for n, m in ((3, 2), (5, -3), (6, 0), (0, 1), (0, 0), (2, -1), (19, 1)):
            desc = {'wl': 'coordinate-forms', 'fn': 'Q2d', 'n': n, 'm': m, 'r_as': lab, 'class': f'Q2d:r-as-{lab.split(":")[0]}'}
            ctx.case(desc)
            with ctx.guard('C07/Q2d/r-as-integer', desc):
                P.Q2d(n, m, r, tt)
    xi, yi = np.array([-2, -1, 0, 1, 2]), np.array([2, 0, 1, -1, 3])
    for lab, xa, ya in (('int64', xi, yi), ('int32', xi.astype(np.int32), yi.astype(np.int32)), ('pyint', 2, -1), ('complex128', xi * 0.25 + 0.5j, yi * 0.25 - 0.125j), ('pycomplex', 0.5 + 0.25j, -0.75j),
                        ('int64-2d', np.array([xi, yi]), np.array([yi, xi]))):
        for m_, n_ in ((2, 3), (0, 1), (0, 0), (3, 0), (1, 1), (7, 2)):
            desc = {'wl': 'coordinate-forms', 'fn': 'xy', 'm': m_, 'n': n_, 'x_as': lab, 'class': f'xy:x-as-{lab}'}
            ctx.case(desc)
            with ctx.guard(f'C07/xy/x-as-{form_class(lab)}', desc):
                P.xy(m_, n_, xa, ya, cartesian_grid=False)
        if isinstance(xa, np.ndarray):
            lst = [(2, 3), (0, 1), (0, 0), (3, 0), (1, 1)]
            desc = {'wl': 'coordinate-forms', 'fn': 'xy_seq', 'x_as': lab, 'class': f'xy_seq:x-as-{lab}'}
            ctx.case(desc)
            seq_call(ctx, 'xy_seq', desc, lambda: P.xy_seq(lst, xa, ya, cartesian_grid=False), None, [('general', lambda e=e: ORIG['xy_seq']([e], xa, ya, cartesian_grid=False)) for e in lst])
        if 'complex' not in lab:
            desc = {'wl': 'coordinate-forms', 'fn': 'hopkins', 'x_as': lab, 'class': f'hopkins:r-as-{lab}'}
            ctx.case(desc)
            with ctx.guard('C07/hopkins/r-as-integer', desc):
                ta = np.linspace(0.3, 5.0, np.size(xa)).reshape(np.shape(xa)) if isinstance(xa, np.ndarray) else 0.75
                P.hopkins(2, 3, 1, xa, ta, ya)
                P.hopkins(-1, 0, 2, xa, ta, ya)
    Xi, Yi = np.meshgrid(np.arange(-2, 3), np.arange(-1, 3))
    desc = {'wl': 'coordinate-forms', 'fn': 'xy', 'x_as': 'int64-meshgrid', 'class': 'xy:x-as-int64-meshgrid'}
    ctx.case(desc)
    with ctx.guard('C07/xy/x-as-integer', desc):
        P.xy(2, 3, Xi, Yi)
    seq_call(ctx, 'xy_seq', desc, lambda: P.xy_seq([(2, 3), (0, 1), (2, 0)], Xi, Yi), None, [('cartesian', lambda: ORIG['xy_seq']([(2, 3)], Xi, Yi))])


def judge_generator(ctx, fn, got, lst_call, desc, form):
    """A one-shot generator is consumed by the routine: the contract cannot read the request back.  The result must equal the one for the same orders
    in a list (requested through the monitored routine, so that one is judged against the definition)."""
    want = lst_call()
    ctx.observe('value.' + fn)
    ok = np.shape(got) == np.shape(want) and np.allclose(np.asarray(got), np.asarray(want), rtol=1e-13, atol=0)
    ctx.require('value.' + fn, bool(ok), f'C07/{fn}/value/form:{form}', f'{fn}: the result for the order list given as {form} differs from the result for the same orders in a list', desc)


def order_form_unit(ctx, P, rng):
    """Class E, forms of the orders: n as every ORDER_FORMS element type (python int, int64, int32, uint32, uint64, intp, 0-d arrays) for single-order
    and sequence forms; unsigned ndarrays, dict key views, generators / iterators where accepted; (n, m) / exponents as numpy integers (unsigned for n
    only); term lists in every accepted container."""
    for fam, params in ALIAS_FAMS:
        lo, hi = dom01(fam)
        x = dyadic(rng, lo, hi, (4,), den=32)
        f, fs = getattr(P, fam), getattr(P, fam + '_seq')
        for lab, mk in ORDER_FORMS:
            if lab in ('pyint', 'int64', 'int32', 'intp'):
                continue            # driven by container_unit
            for n in (0, 1, 2, 5, 19):
                desc = {'wl': 'order-forms', 'fn': fam, 'n': n, 'n_as': lab, 'params': list(params), 'class': f'{fam}:n-as-{lab}'}
                ctx.case(desc, nontrivial=n >= 1)
                with ctx.guard(f'C07/{fam}/n-as-{lab}', desc):
                    f(mk(n), *params, x)
            for ns in ([0, 1, 2, 3], [2, 5, 19], [1]):
                desc = {'wl': 'order-forms', 'fn': fam + '_seq', 'ns': ns, 'orders_as': 'list-of-' + lab, 'params': list(params), 'class': f'{fam}_seq:orders-as-list-of-{lab}'}
                ctx.case(desc)
                seq_call(ctx, fam + '_seq', desc, lambda: fs([mk(n) for n in ns], *params, x), None, [(nclass(n), lambda n=n: ORIG[fam + '_seq']([n], *params, x)) for n in ns])
        for ns in ([0, 1, 2, 3], [2, 5, 19], [1]):
            for lab, mk in more_order_containers(ns, fam + '_seq'):
                desc = {'wl': 'order-forms', 'fn': fam + '_seq', 'ns': ns, 'orders_as': lab, 'params': list(params), 'class': f'{fam}_seq:orders-as-{lab}'}
                ctx.case(desc)
                box = []
                seq_call(ctx, fam + '_seq', desc, lambda: box.append(fs(mk(), *params, x)), None, [(nclass(n), lambda n=n: ORIG[fam + '_seq']([n], *params, x)) for n in ns])
                if box and lab in ('generator', 'iterator'):
                    judge_generator(ctx, fam + '_seq', box[0], lambda: fs(list(ns), *params, x), desc, 'orders=' + lab)
    r = dyadic(rng, 0, 1, (4,), den=32)
    t = rng.uniform(0, 2 * np.pi, 4)
    for lab, mk, both in [(l, f_, False) for l, f_ in N_ONLY_FORMS]:
        desc = {'wl': 'order-forms', 'fn': 'zernike_nm/Q2d/xy/hopkins', 'nm_as': lab, 'class': f'two-index:{"n-m" if both else "n"}-as-{lab}'}
        ctx.case(desc)
        with ctx.guard(f'C07/two-index/n-as-{lab}', desc):
            for n, m in ((4, 2), (5, -3), (19, 1), (6, 0), (3, 3)):
                P.zernike_nm(mk(n), mk(m) if both else m, r, t, norm=bool(n % 2))
            for n, m in ((3, 2), (5, -3), (19, 1), (6, 0), (0, 2)):
                P.Q2d(mk(n), mk(m) if both else m, r, t)
            P.xy(mk(2), mk(3), r, t, cartesian_grid=False)
            P.hopkins(mk(2), mk(3), mk(1), r, t, r)
    for fn, L, kw in (('zernike_nm_seq', [(4, 2), (4, -2), (2, 0), (19, 1), (3, 3)], {}), ('zernike_nm_seq', [(5, 3), (3, -1)], {'norm': False}),
                      ('Q2d_seq', [(3, 2), (3, -2), (2, 0), (19, 1)], {}), ('xy_seq', [(2, 3), (0, 1), (2, 0), (0, 0)], {'cartesian_grid': False})):
        conts = [c for c in term_containers(L, fn) if c[0] in ('list-of-numpy-int-pairs', 'dict-keys')] + \
                [('list-of-' + lab, [(mk(a), mk(b)) for a, b in L]) for lab, mk in NM_FORMS]
        for lab, cont in conts:
            desc = {'wl': 'order-forms', 'fn': fn, 'terms_as': lab, 'class': f'{fn}:terms-as-{lab}'}
            ctx.case(desc)
            seq_call(ctx, fn, desc, lambda: getattr(P, fn)(cont, r, t, **kw), None, [('term', lambda e=e: ORIG[fn]([e], r, t, **kw)) for e in L])


def param_form_unit(ctx, P, rng):
    """Class E, forms of the shape parameters: numpy float64, numpy float32 (single-precision class, orders <= 12), python int / numpy int64 for
    integer values - incl. the parameter lines alpha + beta = -1 and = 0 with alpha != beta - for jacobi, laguerre, dickson1/2, single and sequence."""
    table = [('jacobi', [(0.25, -0.25), (-0.25, -0.75), (-0.75, -0.25), (0.75, -0.75), (1.5, 0.5), (-0.5, 0.5)], [(0, 4), (1, 0), (2, 1), (0, 0)]),
             ('laguerre', [(0.5,), (-0.75,), (1.5,)], [(0,), (2,), (1,)]), ('dickson1', [(0.75,), (-0.625,)], [(0,), (1,), (-1,)]), ('dickson2', [(0.75,), (-0.625,)], [(0,), (1,), (-1,)])]
    for fam, plist, ilist in table:
        lo, hi = dom01(fam)
        x = dyadic(rng, lo, hi, (4,), den=32)
        f, fs = getattr(P, fam), getattr(P, fam + '_seq')
        for pars, forms in ((plist, PARAM_FORMS[1:]), (ilist, INT_PARAM_FORMS)):
            for par in pars:
                for lab, mk, exact in forms:
                    pp = tuple(mk(v) for v in par)
                    for n in (0, 1, 2, 3, 7, 12):
                        desc = {'wl': 'parameter-forms', 'fn': fam, 'n': n, 'params': list(par), 'params_as': lab, 'class': f'{fam}:params-as-{lab}'}
                        ctx.case(desc, nontrivial=n >= 1)
                        with ctx.guard(f'C07/{fam}/params-as-{lab}', desc):
                            f(n, *pp, x)
                    for ns in ([0, 1, 2, 3], [2, 7, 12], [1]):
                        desc = {'wl': 'parameter-forms', 'fn': fam + '_seq', 'ns': ns, 'params': list(par), 'params_as': lab, 'class': f'{fam}_seq:params-as-{lab}'}
                        ctx.case(desc)
                        seq_call(ctx, fam + '_seq', desc, lambda: fs(ns, *pp, x), None, [(nclass(n), lambda n=n: ORIG[fam + '_seq']([n], *pp, x)) for n in ns])


def option_form_unit(ctx, P, rng):
    """Class E, optional arguments omitted vs the documented default passed explicitly, also right after a call that passed the other explicit value
    (norm of zernike_nm / zernike_nm_seq, cartesian_grid of xy / xy_seq; keyword vs positional)."""
    r = np.concatenate([[0.0, 1.0], dyadic(rng, 0, 1, (3,), den=32)])
    t = rng.uniform(0, 2 * np.pi, 5)
    nms = [(4, 2), (3, -1), (2, 0), (5, 5), (6, 0)]
    for step, kw in enumerate(({'norm': False}, {}, {'norm': True}, {}, {'norm': False}, {}, 'positional-True', {})):
        for n, m in nms:
            desc = {'wl': 'option-forms', 'fn': 'zernike_nm', 'n': n, 'm': m, 'opt': str(kw) or 'norm-omitted', 'step': step, 'class': f'zernike_nm:{"norm-omitted" if not kw else "norm-explicit"}'}
            ctx.case(desc)
            with ctx.guard('C07/zernike_nm/norm-omitted-vs-explicit', desc):
                P.zernike_nm(n, m, r, t, True) if kw == 'positional-True' else P.zernike_nm(n, m, r, t, **kw)
        desc = {'wl': 'option-forms', 'fn': 'zernike_nm_seq', 'opt': str(kw) or 'norm-omitted', 'step': step, 'class': f'zernike_nm_seq:{"norm-omitted" if not kw else "norm-explicit"}'}
        ctx.case(desc)
        kk = {} if kw == 'positional-True' else kw
        seq_call(ctx, 'zernike_nm_seq', desc, (lambda: P.zernike_nm_seq(nms, r, t, True)) if kw == 'positional-True' else (lambda: P.zernike_nm_seq(nms, r, t, **kw)), None,
                 [(zmclass(e[1]), lambda e=e: ORIG['zernike_nm_seq']([e], r, t, **kk)) for e in nms])
    xv, yv = dyadic(rng, -1, 1, (4,), den=16), dyadic(rng, -1, 1, (3,), den=16)
    X, Y = np.meshgrid(xv, yv)
    lst = [(2, 1), (0, 3), (1, 0), (0, 0)]
    for step, kw in enumerate(({'cartesian_grid': False}, {}, {'cartesian_grid': True}, {}, {'cartesian_grid': False}, {})):
        desc = {'wl': 'option-forms', 'fn': 'xy', 'opt': str(kw) or 'cartesian_grid-omitted', 'step': step, 'class': f'xy:{"cartesian_grid-omitted" if not kw else "cartesian_grid-explicit"}'}
        ctx.case(desc)
        with ctx.guard('C07/xy/cartesian_grid-omitted-vs-explicit', desc):
            for m_, n_ in lst:
                P.xy(m_, n_, X, Y, **kw)
        seq_call(ctx, 'xy_seq', desc, lambda: P.xy_seq(lst, X, Y, **kw), None, [('cartesian' if kw.get('cartesian_grid', True) else 'general', lambda e=e: ORIG['xy_seq']([e], X, Y, **kw)) for e in lst])


def foreign_unit(ctx, P, rng, rep):
    """Class F: the other public consumers of the helpers the value routines share (recurrence_abc, the Qbfs / 2D-Q coefficient tables): derivative and
    Clenshaw routines, sag-and-slope evaluators, change-of-basis helpers, the fit - with numpy-typed orders, ndarray coefficient vectors, precision 32,
    explicit non-default keywords - run first, unmonitored and unjudged; then every value routine is judged as usual."""
    ctx.event('foreign-traffic-raised', foreign_traffic(P, rep))
    ctx.observe('classF.foreign-traffic')
    orders = [(0, 1, 2, 3, 7), (18, 5, 41), (19, 2, 40), (1, 17, 3)][rep % 4]
    for fam, params in ALIAS_FAMS:
        lo, hi = dom01(fam)
        x = np.array([lo, lo + (hi - lo) * 0.34375, lo + (hi - lo) * 0.8125, hi])
        for n in orders:
            n = min(n, 40) if fam in ('hermite_He', 'hermite_H', 'laguerre', 'dickson1', 'dickson2') else n
            desc = {'wl': 'foreign-traffic', 'fn': fam, 'params': list(params), 'n': n, 'class': f'{fam}:after-foreign-traffic'}
            ctx.case(desc, nontrivial=n >= 1)
            with ctx.guard(f'C07/{fam}/after-foreign-traffic', desc):
                getattr(P, fam)(n, *params, x)
        ns = sorted(set(min(n, 40) for n in orders))
        desc = {'wl': 'foreign-traffic', 'fn': fam + '_seq', 'params': list(params), 'ns': ns, 'class': f'{fam}_seq:after-foreign-traffic'}
        ctx.case(desc)
        seq_call(ctx, fam + '_seq', desc, lambda: getattr(P, fam + '_seq')(ns, *params, x), None, [(nclass(v), lambda v=v: ORIG[fam + '_seq']([v], *params, x)) for v in ns])
    r = np.array([0.0, 0.34375, 0.8125, 1.0])
    t = rng.uniform(0, 2 * np.pi, 4)
    top = max(orders)
    zl = [(2 * top + 4, 4), (2 * top + 4, -4), (2 * top, 0), (2 * top + 1, 1), (3, -1)]
    ql = [(top, 0), (top, 2), (top, -2), (top, 1), (2, -7)]
    for n, m in zl:
        desc = {'wl': 'foreign-traffic', 'fn': 'zernike_nm', 'n': n, 'm': m, 'class': 'zernike_nm:after-foreign-traffic'}
        ctx.case(desc)
        with ctx.guard('C07/zernike_nm/after-foreign-traffic', desc):
            P.zernike_nm(n, m, r, t, norm=bool(rep % 2))
    for n, m in ql:
        desc = {'wl': 'foreign-traffic', 'fn': 'Q2d', 'n': n, 'm': m, 'class': 'Q2d:after-foreign-traffic'}
        ctx.case(desc)
        with ctx.guard('C07/Q2d/after-foreign-traffic', desc):
            P.Q2d(n, m, r, t)
    for fn, lst, kw in (('zernike_nm_seq', zl, {'norm': not rep % 2}), ('Q2d_seq', ql, {}), ('xy_seq', [(top % 9, 2), (0, 1), (3, 0)], {'cartesian_grid': False})):
        desc = {'wl': 'foreign-traffic', 'fn': fn, 'class': f'{fn}:after-foreign-traffic'}
        ctx.case(desc)
        seq_call(ctx, fn, desc, lambda: getattr(P, fn)(lst, r, t, **kw), None, [('term', lambda e=e: ORIG[fn]([e], r, t, **kw)) for e in lst])


# ------------------------------------------------------------------------------------------ hardening pass 3 (HARDENING3.md G, H, I)
H_POINTS = {   # evaluation points exactly at 0, +-1, the ends of the family's domain and one ulp inside them
    'jacobi-like': [-1.0, 1.0, 0.0, -0.0, ulps(-1.0, 1), ulps(1.0, -1), 0.5, -0.28125],
    'hermite': [0.0, -0.0, 1.0, -1.0, 3.0, -3.0, 0.5],
    'laguerre': [0.0, 1.0, ulps(0.0, 1), 10.0, 0.5],
    'dickson': [0.0, -0.0, 1.0, -1.0, 2.0, -2.0, 0.5],
    'unit': [0.0, 1.0, ulps(1.0, -1), 2.0 ** -30, 0.5, 0.28125],
}


def h_points(fam):
    if fam.startswith('hermite'):
        return H_POINTS['hermite']
    if fam == 'laguerre':
        return H_POINTS['laguerre']
    if fam.startswith('dickson'):
        return H_POINTS['dickson']
    if fam in ('Qbfs', 'Qcon'):
        return H_POINTS['unit']
    return H_POINTS['jacobi-like']


def special_parameter_unit(ctx, P, part, nparts):
    """Class H, parameters that are special only UP TO ROUNDING (alpha = 0.1 + 0.2, beta = -0.3; alpha + beta = -1 +- 1 ulp; a parameter one ulp from 0, +-1/2, an
    integer; alpha -> -1), the exactly special ones (alpha or beta exactly 0, -1/2, 1/2; alpha + beta exactly 0 / -1 with alpha != beta) and clearly generic neighbours,
    for every family that takes shape parameters, single-order and sequence form, at points that include 0 and both ends of the domain.  The contracts judge each call
    against the exact definition evaluated at the EXACT RATIONAL VALUE of the floats that were passed (the function is smooth in its parameters: nothing is lost to
    conditioning, so the ordinary tolerance applies)."""
    x = np.array([-1.0, -0.4375, 0.0, 0.28125, 1.0])
    cases = [('special:' + c, ab) for c, ab, nb in near_special_jacobi(not ctx.quick)] + [('exactly-special', ab) for ab in EXACT_SPECIAL_JACOBI] + \
            [('generic-neighbour', ab) for ab in GENERIC_NEIGHBOURS_JACOBI]
    orders = ctx.pick((0, 1, 2, 3, 4, 5, 8, 12), tuple(range(13)) + (19, 25))
    for i, (cls, ab) in enumerate(cases):
        if i % nparts != part:
            continue
        tiny = any(0 < abs(v) < 1e-200 for v in ab)          # denormal parameters: the exact model stays cheap for moderate orders
        for n in orders:
            if tiny and n > 8:
                continue
            desc = {'wl': 'special-parameters', 'fn': 'jacobi', 'params': [repr(v) for v in ab], 'n': n, 'pclass': cls, 'class': f'jacobi:{cls}'}
            ctx.case(desc, nontrivial=n >= 1)
            ctx.observe('classH.special-parameters')
            with ctx.guard(f'C07/jacobi/{cls}', desc):
                P.jacobi(n, ab[0], ab[1], x if n % 3 else x[1:4].reshape(1, 3))
        for ns in ([0, 1, 2, 3], [1], [2, 5], [6], [0], [0, 1, 2, 3, 4, 5, 6, 7, 8], [3, 8, 12]):
            if tiny and ns[-1] > 8:
                continue
            desc = {'wl': 'special-parameters', 'fn': 'jacobi_seq', 'params': [repr(v) for v in ab], 'ns': ns, 'pclass': cls, 'class': f'jacobi_seq:{cls}'}
            ctx.case(desc, nontrivial=ns[-1] >= 1)
            seq_call(ctx, 'jacobi_seq', desc, lambda: P.jacobi_seq(ns, ab[0], ab[1], x), None, [(nclass(v), lambda v=v: ORIG['jacobi_seq']([v], ab[0], ab[1], x)) for v in ns])
    table = [('laguerre', near_special_scalar([0.0, 0.5, -0.5, 1.0, 2.0], lower=-1.0, thorough=not ctx.quick), [0.0, 0.5, -0.5, 1.0]),
             ('dickson1', near_special_scalar([0.0, 1.0, -1.0, 0.5], thorough=not ctx.quick), [0.0, 1.0, -1.0, 0.5, -0.5]),
             ('dickson2', near_special_scalar([0.0, 1.0, -1.0, 0.5], thorough=not ctx.quick), [0.0, 1.0, -1.0, 0.5, -0.5])]
    i = -1
    for fam, near, exact_ in table:
        lo, hi = dom01(fam)
        xx = np.array([lo, lo + (hi - lo) * 0.28125, 0.0 if lo < 0 else lo + (hi - lo) * 0.5, hi])
        for cls, a in [('special:alpha~k/2', v) for c, v, sp in near] + [('exactly-special', v) for v in exact_]:
            i += 1
            if i % nparts != part:
                continue
            tiny = 0 < abs(a) < 1e-200
            for n in orders:
                if n > (8 if tiny else 12):
                    continue
                desc = {'wl': 'special-parameters', 'fn': fam, 'params': [repr(a)], 'n': n, 'pclass': cls, 'class': f'{fam}:{cls}'}
                ctx.case(desc, nontrivial=n >= 1)
                ctx.observe('classH.special-parameters')
                with ctx.guard(f'C07/{fam}/{cls}', desc):
                    getattr(P, fam)(n, a, xx)
            for ns in ([0, 1, 2, 3], [1], [2, 5], [0], [0, 1, 2, 3, 4, 5, 6, 7, 8]):
                desc = {'wl': 'special-parameters', 'fn': fam + '_seq', 'params': [repr(a)], 'ns': ns, 'pclass': cls, 'class': f'{fam}_seq:{cls}'}
                ctx.case(desc, nontrivial=ns[-1] >= 1)
                seq_call(ctx, fam + '_seq', desc, lambda: getattr(P, fam + '_seq')(ns, a, xx), None, [(nclass(v), lambda v=v: ORIG[fam + '_seq']([v], a, xx)) for v in ns])


def special_points_unit(ctx, P, rng):
    """Class H, evaluation points exactly at 0 / -0.0 / +-1 / the ends of each family's domain and one ulp inside them: as arrays (all points; each point alone as a
    length-1 array and 0-d array) and - single-order form - as python floats; order lists containing only order 0; the two-index families on the axis (r = 0 with
    |m| = 0, 1, 2) and on the rim (r = 1); monomials with a zero base and a zero exponent (0^0 = 1); Hopkins terms at r = 0 / H = 0; angles at exact multiples of pi/2."""
    for fam, params in ALIAS_FAMS + [('jacobi', (0.0, 0.5)), ('jacobi', (-0.5, 0.0)), ('laguerre', (0.0,)), ('dickson1', (0.0,)), ('dickson2', (1.0,))]:
        pts = h_points(fam)
        f, fs = getattr(P, fam), getattr(P, fam + '_seq')
        xa = np.array(pts)
        cheap = [v for v in pts if v == 0 or abs(v) > 1e-300]
        for n in ctx.pick((0, 1, 2, 3, 4, 7, 12, 19, 41), tuple(range(13)) + (19, 25, 41, 60)):
            if fam in ('hermite_He', 'hermite_H', 'laguerre', 'dickson1', 'dickson2') and n > 40:
                continue
            xs = xa if n <= 12 else np.array(cheap)
            desc = {'wl': 'special-points', 'fn': fam, 'params': list(params), 'n': n, 'x': 'array-of-special-points', 'class': f'{fam}:special-points:array'}
            ctx.case(desc, nontrivial=n >= 1)
            ctx.observe('classH.special-points')
            with ctx.guard(f'C07/{fam}/special-points', desc):
                f(n, *params, xs)
            if n <= 7:
                for v in pts:
                    for form, xv in (('pyfloat', float(v)), ('0d', np.array(float(v))), ('len1', np.array([float(v)]))):
                        desc = {'wl': 'special-points', 'fn': fam, 'params': list(params), 'n': n, 'x': repr(v), 'x_as': form, 'class': f'{fam}:special-points:{form}'}
                        ctx.case(desc, nontrivial=n >= 1)
                        with ctx.guard(f'C07/{fam}/special-points', desc):
                            f(n, *params, xv)
        for ns in ([0], [0, 1], [1], [0, 1, 2, 3], [2, 5, 12], [0, 7]):
            for form, xv in (('array', xa), ('len1:first', xa[:1]), ('0d:first', np.array(pts[0])), ('len1:zero', np.array([0.0])), ('2d', xa[:4].reshape(2, 2))):
                desc = {'wl': 'special-points', 'fn': fam + '_seq', 'params': list(params), 'ns': ns, 'x_as': form, 'class': f'{fam}_seq:special-points:{form}'}
                ctx.case(desc, nontrivial=ns[-1] >= 1)
                seq_call(ctx, fam + '_seq', desc, lambda: fs(ns, *params, xv), None, [(nclass(v), lambda v=v: ORIG[fam + '_seq']([v], *params, xv)) for v in ns])
    # two-index families: on the axis, on the rim, angles at exact multiples of pi/2
    r = np.array([0.0, 0.0, 0.0, 1.0, 1.0, ulps(1.0, -1), 2.0 ** -30, 0.5])
    t = np.array([0.0, np.pi / 2, 1.25, 0.0, np.pi, 3 * np.pi / 2, 2 * np.pi, -np.pi / 2])
    znm = [(n, m) for n in range(0, ctx.pick(8, 13)) for m in range(-n, n + 1, 2) if abs(m) <= 3] + [(19, 1), (19, -1), (20, 0), (41, 1), (40, 2)]
    for n, m in znm:
        for norm in (True, False):
            desc = {'wl': 'special-points', 'fn': 'zernike_nm', 'n': n, 'm': m, 'norm': norm, 'class': f'zernike_nm:special-points:{zmclass(m)}'}
            ctx.case(desc, nontrivial=n >= 1)
            ctx.observe('classH.special-points')
            with ctx.guard('C07/zernike_nm/special-points', desc):
                P.zernike_nm(n, m, r, t, norm=norm)
                if n <= 5:
                    P.zernike_nm(n, m, 0.0, 1.25, norm=norm)
                    P.zernike_nm(n, m, np.array(0.0), np.array(0.5), norm=norm)
                    P.zernike_nm(n, m, np.array([0.0]), np.array([2.0]), norm=norm)
                    P.zernike_nm(n, m, 1.0, 0.0, norm=norm)
    qnm = [(n, m) for n in range(0, ctx.pick(5, 9)) for m in range(-3, 4)] + [(19, 1), (19, -1), (18, 0), (12, 2)]
    for n, m in qnm:
        desc = {'wl': 'special-points', 'fn': 'Q2d', 'n': n, 'm': m, 'class': f'Q2d:special-points:{q2d_mclass(m)}'}
        ctx.case(desc)
        with ctx.guard('C07/Q2d/special-points', desc):
            P.Q2d(n, m, r, t)
            if n <= 3:
                P.Q2d(n, m, 0.0, 1.25)
                P.Q2d(n, m, np.array(0.0), np.array(0.5))
                P.Q2d(n, m, np.array([0.0]), np.array([2.0]))
                P.Q2d(n, m, 1.0, 0.0)
    for fn, lst, kws in (('zernike_nm_seq', [(0, 0)], [{}, {'norm': False}]), ('zernike_nm_seq', [(0, 0), (0, 0)], [{}]), ('zernike_nm_seq', [(1, 1), (1, -1), (3, 1), (3, -1), (2, 0), (5, 1)], [{}, {'norm': False}]),
                     ('zernike_nm_seq', znm[:20], [{}]), ('Q2d_seq', [(0, 0)], [{}]), ('Q2d_seq', [(0, 1), (0, -1), (1, 1), (2, -1), (0, 0), (3, 1)], [{}]), ('Q2d_seq', qnm[:21], [{}])):
        for kw in kws:
            for form, rv, tv in (('array', r, t), ('len1:axis', r[:1], t[2:3]), ('0d:axis', np.array(0.0), np.array(1.25)), ('2d', r.reshape(2, 4), t.reshape(2, 4))):
                desc = {'wl': 'special-points', 'fn': fn, 'terms': short(lst), 'opt': str(kw), 'x_as': form, 'class': f'{fn}:special-points:{form}'}
                ctx.case(desc, nontrivial=max(a for a, b in lst) >= 1)
                seq_call(ctx, fn, desc, lambda: getattr(P, fn)(lst, rv, tv, **kw), None, [('term', lambda e=e: ORIG[fn]([e], rv, tv, **kw)) for e in lst[:12]])
    # monomials: zero base, zero exponent; Hopkins: r = 0 / H = 0 with b = 0 / c = 0
    x0 = np.array([0.0, 0.0, 1.0, -1.0, 0.5, -0.0])
    y0 = np.array([0.0, 0.75, 0.0, -1.0, 0.0, 1.0])
    X0, Y0 = np.meshgrid(np.array([0.0, -1.0, 1.0, 0.5]), np.array([0.0, 1.0, -0.25]))
    exps = [(m, n) for m in range(0, 4) for n in range(0, 4)] + [(7, 0), (0, 7), (12, 1)]
    for m, n in exps:
        desc = {'wl': 'special-points', 'fn': 'xy', 'm': m, 'n': n, 'class': 'xy:special-points'}
        ctx.case(desc, nontrivial=m + n >= 1)
        with ctx.guard('C07/xy/special-points', desc):
            P.xy(m, n, x0, y0, cartesian_grid=False)
            P.xy(m, n, X0, Y0)
            P.xy(m, n, np.array(0.0), np.array(0.0), cartesian_grid=False)
            P.xy(m, n, 0.0, 1.0, cartesian_grid=False)
    for lst in ([(0, 0)], exps, exps[::-1], [(0, 3), (3, 0), (0, 0), (1, 1)]):
        desc = {'wl': 'special-points', 'fn': 'xy_seq', 'mns': short(lst), 'class': 'xy_seq:special-points'}
        ctx.case(desc)
        seq_call(ctx, 'xy_seq', desc, lambda: P.xy_seq(lst, x0, y0, cartesian_grid=False), None, [('general', lambda e=e: ORIG['xy_seq']([e], x0, y0, cartesian_grid=False)) for e in lst[:12]])
        seq_call(ctx, 'xy_seq', desc, lambda: P.xy_seq(lst, X0, Y0), None, [('cartesian', lambda e=e: ORIG['xy_seq']([e], X0, Y0)) for e in lst[:12]])
    rh = np.array([0.0, 0.0, 1.0, 0.5, 0.0, 1.0])
    Hh = np.array([0.0, 1.0, 0.0, 0.0, 0.5, 1.0])
    th = np.array([0.0, np.pi / 2, np.pi, 1.25, 2 * np.pi, -np.pi / 2])
    for a in (-3, -1, 0, 1, 2):
        for b in (0, 1, 2, 5):
            for c in (0, 1, 3):
                desc = {'wl': 'special-points', 'fn': 'hopkins', 'a': a, 'b': b, 'c': c, 'class': 'hopkins:special-points'}
                ctx.case(desc, nontrivial=abs(a) + b + c >= 1)
                with ctx.guard('C07/hopkins/special-points', desc):
                    P.hopkins(a, b, c, rh, th, Hh)
                    P.hopkins(a, b, c, 0.0, 0.0, 0.0)
                    P.hopkins(a, b, c, np.array(0.0), np.array(1.25), np.array(1.0))


def rel_judge(ctx, mon, got, ref, key, what, desc, rtol=1e-10):
    """Relative comparison (scale = sup |reference|, NO absolute floor): the magnitude regimes of class G are invisible to a tolerance floored at 1."""
    ref = np.asarray(ref)
    sc = float(np.max(np.abs(ref))) if ref.size else 0.0
    return ctx.close(mon, np.asarray(got), ref, key, what, desc, rtol=rtol, atol=1e-300, scale=sc)


def scale_unit(ctx, P, rng):
    """Class G for the routines whose definition is homogeneous in the coordinates: x^m y^n (degree m in x, n in y) and cos(a t) r^b H^c (degree b in r, c in H) with
    the coordinates scaled by 1e-12 ... 1e12, judged against the exact definition at the very points passed, RELATIVE to the size of the reference (the contracts'
    tolerance has an absolute floor of 1 and cannot see a tiny regime), while the result stays inside the double range."""
    x0 = np.array([0.75, -0.4375, 0.15625, -1.0, 0.0, 0.59375])
    y0 = np.array([-0.3125, 0.875, 1.0, 0.21875, 0.65625, 0.0])
    xg, yg = np.array([0.75, -0.4375, 0.15625, 1.0]), np.array([-0.3125, 0.875, 0.46875])
    exps = [(0, 0), (1, 0), (0, 1), (2, 3), (3, 0), (1, 4), (5, 5), (0, 7), (8, 2)] + ctx.pick([], [(12, 0), (3, 9), (1, 1), (6, 6)])
    for s in scales(ctx.quick) + (1.0,):
        reg = 'tiny' if s < 1 else ('huge' if s > 1 else 'unit')
        for sx, sy, lab in ((s, s, 'both'), (s, 1.0, 'x-only'), (1.0, s, 'y-only')):
            if s == 1.0 and lab != 'both':
                continue
            ok = [(m, n) for m, n in exps if abs(m * math.log10(sx) + n * math.log10(sy)) <= 250]
            X, Y = np.meshgrid(sx * xg, sy * yg)
            for m, n in ok:
                desc = {'wl': 'scale', 'fn': 'xy', 'm': m, 'n': n, 'scale': s, 'scaled': lab, 'class': f'xy:scale:{reg}:{lab}'}
                ctx.case(desc, nontrivial=m + n >= 1)
                with ctx.guard(f'C07/xy/scale:{reg}', desc):
                    xs, ys = sx * x0, sy * y0
                    ref = np.array([E.to_number(E.monomial_xy(m, n, a, b)) for a, b in zip(xs, ys)])
                    rel_judge(ctx, 'classG.scale-laws', P.xy(m, n, xs, ys, cartesian_grid=False), ref, f'C07/xy/scale:{reg}', 'xy(m, n, s x, s y) is not (s x)^m (s y)^n relative to its own size', desc)
                    refg = np.array([[E.to_number(E.monomial_xy(m, n, a, b)) for a in X[0]] for b in Y[:, 0]])
                    rel_judge(ctx, 'classG.scale-laws', P.xy(m, n, X, Y), refg, f'C07/xy/scale:{reg}', 'xy(m, n, X, Y) on a scaled cartesian grid is not X^m Y^n relative to its own size', desc)
            desc = {'wl': 'scale', 'fn': 'xy_seq', 'mns': short(ok), 'scale': s, 'scaled': lab, 'class': f'xy_seq:scale:{reg}:{lab}'}
            ctx.case(desc)
            with ctx.guard(f'C07/xy_seq/scale:{reg}', desc):
                xs, ys = sx * x0, sy * y0
                for form, modes, pts in (('general', P.xy_seq(ok, xs, ys, cartesian_grid=False), None), ('cartesian', P.xy_seq(ok, X, Y), True)):
                    for (m, n), mode in zip(ok, modes):
                        ref = np.array([E.to_number(E.monomial_xy(m, n, a, b)) for a, b in zip(xs, ys)]) if pts is None else \
                            np.array([[E.to_number(E.monomial_xy(m, n, a, b)) for a in X[0]] for b in Y[:, 0]])
                        rel_judge(ctx, 'classG.scale-laws', mode, ref, f'C07/xy_seq/scale:{reg}', 'a mode of xy_seq at scaled coordinates is not x^m y^n relative to its own size', dict(desc, term=[m, n], grid=form))
        r0 = np.array([0.75, 0.4375, 0.15625, 1.0, 0.59375])
        H0 = np.array([0.3125, 0.875, 1.0, 0.21875, 0.65625])
        t0 = np.array([0.5, 1.75, 3.0, 5.5, 0.0])
        for sr, sh, lab in ((s, s, 'both'), (s, 1.0, 'r-only'), (1.0, s, 'H-only')):
            if s == 1.0 and lab != 'both':
                continue
            for a, b, c in ((0, 0, 0), (1, 1, 0), (-1, 1, 1), (2, 3, 1), (0, 2, 2), (-3, 5, 0), (4, 0, 6), (1, 7, 3)):
                if abs(b * math.log10(sr) + c * math.log10(sh)) > 250:
                    continue
                desc = {'wl': 'scale', 'fn': 'hopkins', 'a': a, 'b': b, 'c': c, 'scale': s, 'scaled': lab, 'class': f'hopkins:scale:{reg}:{lab}'}
                ctx.case(desc, nontrivial=abs(a) + b + c >= 1)
                with ctx.guard(f'C07/hopkins/scale:{reg}', desc):
                    rr, hh = sr * r0, sh * H0
                    ref = np.array([float(E.hopkins_radial(b, c, u, v)) * _trig(a, float(w)) for u, v, w in zip(rr, hh, t0)])
                    rel_judge(ctx, 'classG.scale-laws', P.hopkins(a, b, c, rr, t0, hh), ref, f'C07/hopkins/scale:{reg}', 'hopkins(a, b, c, s r, t, s H) is not cos(a t) (s r)^b (s H)^c relative to its own size', desc)


def ordering_unit(ctx, P, rng, part, nparts):
    """Class I, every ordering of a two-index term list: ascending, descending, grouped by |m| (n ascending / descending), m-major, sine terms first, the radial
    orders NON-ascending inside each |m| group with the groups interleaved, shuffles - for the full low-order sets - and ALL permutations of small same-|m| groups
    (three radial orders, both signs).  The contracts judge every row against the definition of the term requested at that position."""
    import itertools
    zset = [(n, m) for n in range(ctx.pick(6, 9)) for m in range(-n, n + 1, 2)]
    qset = [(n, m) for n in range(ctx.pick(4, 6)) for m in range(-3, 4)]
    xset = [(a, b) for a in range(4) for b in range(4)]
    r = np.concatenate([[0.0, 1.0], dyadic(rng, 0, 1, (3,), den=32)])
    t = rng.uniform(0, 2 * np.pi, 5)
    xv, yv = dyadic(rng, -1, 1, (5,), den=16), dyadic(rng, -1, 1, (5,), den=16)
    jobs = []
    for lab, o in term_orderings(zset, rng, ctx.pick(2, 8)):
        jobs += [('zernike_nm_seq', lab, o, {'norm': True}), ('zernike_nm_seq', lab, o, {'norm': False})]
    for lab, o in term_orderings(qset, rng, ctx.pick(2, 8)):
        jobs.append(('Q2d_seq', lab, o, {}))
    for lab, o in term_orderings(xset, rng, ctx.pick(2, 8)):
        jobs.append(('xy_seq', lab, o, {'cartesian_grid': False}))
    for am in (0, 1, 2, 3):
        grp = [(am + 2 * j, am) for j in range(3)]
        for perm in itertools.permutations(grp):
            jobs.append(('zernike_nm_seq', 'permutation-of-one-|m|-group', list(perm), {'norm': bool(am % 2)}))
            if am:
                mixed = [(n, m if i % 2 else -m) for i, (n, m) in enumerate(perm)] + [(perm[0][0], -am)]
                jobs.append(('zernike_nm_seq', 'permutation-of-one-|m|-group-mixed-signs', mixed, {'norm': not am % 2}))
        grp = [(j, am) for j in (0, 1, 3)]
        for perm in itertools.permutations(grp):
            jobs.append(('Q2d_seq', 'permutation-of-one-|m|-group', list(perm), {}))
            if am:
                jobs.append(('Q2d_seq', 'permutation-of-one-|m|-group-mixed-signs', [(n, m if i % 2 else -m) for i, (n, m) in enumerate(perm)] + [(perm[0][0], -am)], {}))
    for i, (fn, lab, lst, kw) in enumerate(jobs):
        if i % nparts != part:
            continue
        c0, c1 = (xv, yv) if fn == 'xy_seq' else (r, t)
        desc = {'wl': 'orderings', 'fn': fn, 'ordering': lab, 'terms': short(lst), 'opt': str(kw), 'class': f'{fn}:ordering:{lab}'}
        ctx.case(desc)
        ctx.observe('classI.orderings')
        seq_call(ctx, fn, desc, lambda: getattr(P, fn)(lst if i % 3 else np.array(lst), c0, c1, **kw), None, [('term', lambda e=e: ORIG[fn]([e], c0, c1, **kw)) for e in lst[:12]])


def pass3_units(ctx, P):
    units = []
    sp = ctx.pick(4, 16)
    for part in range(sp):
        units.append((lambda part=part: special_parameter_unit(ctx, P, part, sp), 2))
    units.append((lambda: special_points_unit(ctx, P, ctx.rng('special-points')), 3))
    units.append((lambda: scale_unit(ctx, P, ctx.rng('scale')), 2))
    op = ctx.pick(2, 4)
    for part in range(op):
        units.append((lambda part=part: ordering_unit(ctx, P, np.random.default_rng([ctx.seed, 7107]), part, op), 1))
    return units


def hardening_units(ctx, P):
    """(callable, weight) units of the hardening classes; the list `last` must run after everything else on its shard."""
    units, last = [], []
    for i, (fam, params) in enumerate(ALIAS_FAMS):
        units.append((lambda fam=fam, params=params, i=i: alias_unit(ctx, P, fam, params, ctx.rng('alias', fam, i)), 1))
    units.append((lambda: alias_nm_unit(ctx, P, ctx.rng('alias-nm')), 1))
    lp = ctx.pick(2, 4)
    for part in range(lp):
        units.append((lambda part=part: layout_unit(ctx, P, ctx.rng('layout', part), part, lp), 1))
    units.append((lambda: container_unit(ctx, P, ctx.rng('containers')), 1))
    cp = ctx.pick(3, 6)
    for part in range(cp):
        units.append((lambda part=part: cfg32_unit(ctx, P, ctx.rng('cfg32', part), part, cp), 1))
    units.append((lambda: high_order_unit(ctx, P, ctx.rng('high-order')), 1))
    top = ctx.pick(45, 200)
    toph = ctx.pick(41, 60)
    hist = [('jacobi', [(0.25, -0.25), (0.25, 0.75), (-0.25, 0.25), (0.75, 0.25)], top), ('jacobi', [(0.0, 4.0), (0.0, 0.0), (4.0, 0.0), (2.0, 2.0)], top),
            ('jacobi', [(-0.5, 0.5), (0.5, -0.5), (-0.5, -0.5), (0.5, 0.5)], top), ('legendre', [()], top), ('cheby1', [()], top), ('cheby2', [()], top),
            ('cheby3', [()], top), ('cheby4', [()], top), ('Qcon', [()], top), ('Qbfs', [()], ctx.pick(41, 60)),
            ('hermite_He', [()], toph), ('hermite_H', [()], toph), ('laguerre', [(0.5,), (-0.5,), (1.5,)], toph),
            ('dickson1', [(0.75,), (-0.75,), (0.0,)], toph), ('dickson2', [(0.75,), (-0.75,), (1.0,)], toph)]
    for hi_, (fam, plist, tp) in enumerate(hist):
        variants = HIST_VARIANTS if not ctx.quick else [HIST_VARIANTS[hi_ % 2], HIST_VARIANTS[2 + hi_ % 2]]
        for v in variants:
            units.append((lambda fam=fam, plist=plist, tp=tp, v=v: history_1d_unit(ctx, P, fam, plist, tp, v), 1))
    for v in HIST_VARIANTS:
        units.append((lambda v=v: history_shared_unit(ctx, P, v), 1))
        units.append((lambda v=v: history_q_unit(ctx, P, v, (1, 2, 3) if v.startswith('f32') else (1, 2, 7)), 2))
    # hardening pass 2: class D (very high orders) per family, class E (argument forms), class F (foreign traffic)
    for i, (fam, params) in enumerate(ALIAS_FAMS):
        units.append((lambda fam=fam, params=params: very_high_unit(ctx, P, fam, params), 2))
        units.append((lambda fam=fam, params=params: coord_form_unit(ctx, P, fam, params), 1))
    units.append((lambda: coord_form_nm_unit(ctx, P, ctx.rng('coord-forms-nm')), 1))
    units.append((lambda: order_form_unit(ctx, P, ctx.rng('order-forms')), 2))
    units.append((lambda: param_form_unit(ctx, P, ctx.rng('param-forms')), 1))
    units.append((lambda: option_form_unit(ctx, P, ctx.rng('option-forms')), 1))
    for rep in range(ctx.pick(4, 8)):
        units.append((lambda rep=rep: foreign_unit(ctx, P, ctx.rng('foreign', rep), rep), 1))
    units.extend(pass3_units(ctx, P))          # hardening pass 3: classes G, H, I
    last.append((lambda: typed_parameter_unit(ctx, P), 1))
    return units, last


# ------------------------------------------------------------------------------------------ driver
def run(ctx):
    global CTX
    CTX = ctx
    WORST.clear()
    install()
    try:
        _run(ctx)
    finally:
        detach_all()
        ctx.note('worst_err_over_tol', {k: float('%.3g' % v) for k, v in sorted(WORST.items())})


def _run(ctx):
    import prysm.polynomials as P
    if ctx.shard == 0:
        E.selftest()
        ctx.note('refmodel_selftest', 'poly_exact.selftest() passed (two textbook forms, trig forms, Jacobi relations, Forbes closed forms n<=5 == exact Gram-Schmidt)')
    rng = ctx.rng('c07')
    NJ = ctx.pick(40, 200)        # Jacobi-family orders (value sweeps)
    NG = ctx.pick(40, 150)        # Jacobi-family orders of the Gram matrices (quadrature round-off grows with the order)
    NH = ctx.pick(40, 60)         # Hermite / Laguerre / Dickson
    NQ = ctx.pick(40, QBFS_EXACT_MAX)
    units = []   # (callable, weight)

    def add(fn, weight=1):
        units.append((fn, weight))

    chunks = ctx.pick(2, 4)

    def add_sweeps(fam, params, nmax, weight):
        g = grid_for(fam)
        for c in range(chunks):
            xs = g[c::chunks]
            add(lambda fam=fam, params=params, nmax=nmax, xs=xs, c=c: sweep_unit(ctx, P, fam, params, nmax, xs, f'grid[{c}::{chunks}]'), weight)

    shape_orders = [0, 1, 2, 3, 4, 7, 12, 25] if ctx.quick else [0, 1, 2, 3, 4, 5, 7, 12, 25, 40]
    for ab in JAC_PARAMS:
        add_sweeps('jacobi', ab, NJ, 3)
    for ab in JAC_NONDYADIC:
        add_sweeps('jacobi', ab, ctx.pick(24, 40), 2)
    extra = [(float(a), float(b)) for a, b in dyadic(rng, -0.9375, 5.0, (ctx.pick(2, 24), 2), den=16)]
    for ab in extra:
        add_sweeps('jacobi', ab, ctx.pick(30, 100), 2)
    for ab in JAC_PARAMS[:8] + extra[:2]:
        add(lambda ab=ab: shapes_unit(ctx, P, 'jacobi', ab, shape_orders, ctx.rng('shapes', 'jacobi', ab)), 1)
    for fam in ('legendre', 'cheby1', 'cheby2', 'cheby3', 'cheby4'):
        add_sweeps(fam, (), NJ, 3)
        add(lambda fam=fam: shapes_unit(ctx, P, fam, (), shape_orders, ctx.rng('shapes', fam)), 1)
    for fam in ('hermite_He', 'hermite_H'):
        add_sweeps(fam, (), NH, 2)
        add(lambda fam=fam: shapes_unit(ctx, P, fam, (), shape_orders, ctx.rng('shapes', fam)), 1)
    for a in LAG_PARAMS:
        add_sweeps('laguerre', (a,), NH, 2)
    add(lambda: shapes_unit(ctx, P, 'laguerre', (0.5,), shape_orders, ctx.rng('shapes', 'laguerre')), 1)
    add(lambda: shapes_unit(ctx, P, 'laguerre', (-0.875,), shape_orders[:6], ctx.rng('shapes', 'laguerre2')), 1)
    for fam in ('dickson1', 'dickson2'):
        for a in DICK_PARAMS:
            add_sweeps(fam, (a,), NH, 1)
        add(lambda fam=fam: shapes_unit(ctx, P, fam, (0.75,), shape_orders, ctx.rng('shapes', fam)), 1)
    add_sweeps('Qbfs', (), NQ, 3)
    add_sweeps('Qcon', (), NJ, 3)
    for fam in ('Qbfs', 'Qcon'):
        add(lambda fam=fam: shapes_unit(ctx, P, fam, (), shape_orders, ctx.rng('shapes', fam)), 1)

    # ---- M2: Gram matrices of the 1-D families
    # tolerance on |G - I|: quadrature-side round-off (scipy Gauss-Jacobi nodes/weights, lgamma norms) measured in recon:
    # classical parameters 4e-14 (n<=40) / 1.2e-12 (n<=150); general parameters 3e-11 / 9e-11  ->  >= 3 decades below
    def GT(nmax):
        return 1e-9 if nmax <= 40 else 1e-8
    for ab in JAC_PARAMS + JAC_NONDYADIC + extra[:2]:
        classical = jac_pclass(*ab) in ('a=b=0', 'half-integer') or ab in ((0.0, 4.0), (0.0, 1.0), (0.0, 7.0))
        nm = NG if ab in JAC_PARAMS else ctx.pick(30, 60)
        add(lambda ab=ab, nm=nm, classical=classical: gram_1d_unit(
            ctx, P, 'jacobi', ab, nm, E.gauss_jacobi(nm + 2, *ab), lambda n: math.log(E.jacobi_h(n, *ab)),
            GT(nm) if classical else 100 * GT(nm), 'gram.jacobi'), 2)
    add(lambda: gram_1d_unit(ctx, P, 'legendre', (), NG, E.gauss_jacobi(NG + 2, 0, 0), lambda n: math.log(2 / (2 * n + 1)), GT(NG), 'gram.legendre'), 2)
    for kind, (a, b) in ((1, (-.5, -.5)), (2, (.5, .5)), (3, (-.5, .5)), (4, (.5, -.5))):
        add(lambda kind=kind, a=a, b=b: gram_1d_unit(ctx, P, f'cheby{kind}', (), NG, E.gauss_jacobi(NG + 2, a, b),
                                                     lambda n: math.log(E.cheby_h(kind, n)), GT(NG), 'gram.cheby'), 2)
    for kind, fam in (('He', 'hermite_He'), ('H', 'hermite_H')):
        add(lambda kind=kind, fam=fam: gram_1d_unit(ctx, P, fam, (), NH, E.gauss_hermite(kind, NH + 2),
                                                    lambda n: E.log_hermite_h(kind, n), 1e-9, 'gram.hermite'), 1)
    for a in LAG_PARAMS:
        add(lambda a=a: gram_1d_unit(ctx, P, 'laguerre', (a,), NH, E.gauss_laguerre(NH + 2, a),
                                     lambda n: E.log_laguerre_h(n, a), 1e-9, 'gram.laguerre'), 1)

    units.extend(zernike_units(ctx, P, ctx.rng('zernike')))
    units.extend(q_units(ctx, P, ctx.rng('q')))
    add(lambda: xy_hopkins_unit(ctx, P, ctx.rng('xy')), 1)
    units.extend(seq_units(ctx, P))
    hard, last = hardening_units(ctx, P)
    units.extend(hard)

    # heaviest first, dealt round-robin: deterministic and reasonably balanced
    order = sorted(range(len(units)), key=lambda i: (-units[i][1], i))
    for pos, i in enumerate(order):
        if ctx.mine(pos):
            units[i][0]()
    # units that deliberately leave hostile entries in the memo tables run after everything else, on the last shard only
    if ctx.shard == ctx.nshards - 1:
        for fn, _ in last:
            fn()
    ctx.note('orders', {'jacobi_family': NJ, 'jacobi_family_gram': NG, 'hermite_laguerre_dickson': NH, 'qbfs_exact': NQ, 'qbfs_gram': ctx.pick(40, 150),
                        'zernike_n': ctx.pick(12, 40), 'zernike_gram_n': ctx.pick(12, 30), 'q2d_value_nm': list(ctx.pick((10, 10), (40, 40))),
                        'q2d_gram_nm': list(ctx.pick((8, 8), (24, 24)))})


def replay(ctx, rec):
    run(ctx)
