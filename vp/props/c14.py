"""C14 — writing then reading an instrument file returns the same map; truncated files are rejected or marked.

Monitors
  roundtrip.zygo / roundtrip.codev / roundtrip.ifg   write with the real writer, read with the real reader, compare with
        the map that was written: shape, NaN mask element-wise, values within one quantisation step of the format
        (step taken from the *file* by an independent decoder), dx and wavelength to float32 resolution.  A
        mismatch is classified by mechanism (orientation candidate that does match, transposed shape, int16
        overflow of the declared scale, ...) and the class is the violation key.
  truncation.zygo / truncation.codev                 fault enumeration: for EVERY prefix length 0..len-1 of a written
        file the reader must raise, or return the untruncated result when no sample lost a byte, or return the map
        with NaN at every sample that lost a byte together with a warning.
  reader.contract                                    post-condition on every read_zygo_dat call (also the ones made by
        Interferogram.from_zygo_dat): phase is 2-D with the shape the header declares.
All files live in one tempfile.TemporaryDirectory removed at exit.
"""
import contextlib
import io as _io
import os
import pathlib
import tempfile
import warnings

import numpy as np

from ..contracts import attach, detach_all
from ..core import shape_class
from ..refmodels import instrfile as ref

RULE = ('round trips: shape classes (1xN, Nx1, square, non-square, odd/even; enumerated smallest first, then random) x '
        'value classes (mixed, all-positive small/large, all-negative, non-negative with zeros, constant +/-, all-zero, '
        'tiny, huge) x NaN patterns (none, corner, asymmetric blob, whole row) x writer argument forms, random fill, dx and '
        'wavelength log-uniform; a case is non-trivial when the map has >= 2 samples; distinct = distinct descriptor. '
        'truncation: every prefix length 0..len-1 of each written file is one case')
ASSUMPTIONS = ['the map handed to the writer is the reference; one quantisation step is lambda/32768 (Zygo, phase_res 1) and '
               '1000*WVL/|SSZ| nm as declared in the written Code V header, decoded by an independent parser',
               'a sample is "missing" in a prefix when not all of its bytes (Zygo: 4 bytes, Code V: its decimal token) are '
               'inside the prefix; sample order in the file is row-major from the top row (MetroPro / Code V convention)',
               'all-NaN maps and Code V FIL (intensity) files are outside the domain (height maps with >= 1 finite sample)']
REQUIRED = ['roundtrip.zygo', 'roundtrip.codev', 'roundtrip.ifg', 'truncation.zygo', 'truncation.codev']

CTX = None
F32 = 2.0 ** -23


# ---------------------------------------------------------------------------------------------- comparison
def _match(got, orig, tol):
    """True when got has orig's shape, the same NaN mask and all finite values within tol (array)."""
    if got.shape != orig.shape:
        return False
    gn, on = np.isnan(got), np.isnan(orig)
    if not np.array_equal(gn, on):
        return False
    ok = ~on
    if not np.isfinite(got[ok]).all():
        return False
    return bool((np.abs(got[ok] - orig[ok]) <= tol[ok]).all())


def _hdr_swapped(t, shape):
    # the samples in file order are intact but the two GRD sizes were exchanged
    return t[::-1].reshape(shape)[::-1]


CANDIDATES = [
    ('fliplr', lambda t, s: t[:, ::-1]),
    ('flipud', lambda t, s: t[::-1, :]),
    ('rot180', lambda t, s: t[::-1, ::-1]),
    ('transpose', lambda t, s: t.T),
]


def classify(got, orig, tol):
    """('ok', None) or (class label, function mapping a reader result into the frame of `orig`)."""
    got = np.asarray(got)
    if got.ndim != 2:
        return 'not-2d', None
    if _match(got, orig, tol):
        return 'ok', (lambda t: t)
    if got.shape != orig.shape:
        if got.shape == orig.shape[::-1]:
            if _match(_hdr_swapped(got, orig.shape), orig, tol):
                return 'shape-transposed', (lambda t: _hdr_swapped(t, orig.shape))
            if _match(got.T, orig, tol):
                return 'orientation:transpose', (lambda t: t.T)
            return 'shape-transposed', None
        return 'shape', None
    for name, f in CANDIDATES:
        if name == 'transpose' and orig.shape[0] != orig.shape[1]:
            continue
        if _match(f(got, orig.shape), orig, tol):
            return 'orientation:' + name, (lambda t, f=f: f(t, orig.shape))
    if not np.array_equal(np.isnan(got), np.isnan(orig)):
        return 'nan-mask', None
    return 'value>1step', None


# ---------------------------------------------------------------------------------------------- generators
SHAPES_ENUM = [(1, 2), (2, 1), (2, 2), (1, 5), (4, 1), (2, 3), (3, 2), (3, 3), (3, 4), (4, 3), (4, 4), (1, 8), (7, 1),
               (5, 5), (4, 7), (7, 4), (5, 8), (6, 6), (9, 5), (8, 8)]
VALUE_CLASSES = ['mixed', 'pos-small', 'pos-large', 'neg', 'neg-small', 'nonneg-zero', 'const+', 'const-', 'zero', 'tiny', 'huge']
NAN_CLASSES = ['none', 'corner', 'blob', 'row']


def make_values(vcls, shape, rng, fmt, wavelength):
    n = int(np.prod(shape))
    u = rng.random(shape)
    g = rng.standard_normal(shape)
    if vcls == 'mixed':
        z = g * 10 ** rng.uniform(0, 4)
        if n >= 2:  # make sure both signs are present
            z.flat[0], z.flat[-1] = abs(z.flat[0]) + 1, -abs(z.flat[-1]) - 1
    elif vcls == 'pos-small':
        z = u * 900 + 1                                # nm, < 1 um
    elif vcls == 'pos-large':
        z = u * 10 ** rng.uniform(3.3, 5) + 1100       # nm, > 1 um
    elif vcls == 'neg':
        z = -(u * 10 ** rng.uniform(2, 4.5)) - 1
    elif vcls == 'neg-small':
        z = -(u * 50) - 0.5
    elif vcls == 'nonneg-zero':
        z = u * 10 ** rng.uniform(1, 4.5)
        z.flat[int(rng.integers(n))] = 0.0
    elif vcls == 'const+':
        z = np.full(shape, float(10 ** rng.uniform(-1, 4)))
    elif vcls == 'const-':
        z = np.full(shape, -float(10 ** rng.uniform(-1, 4)))
    elif vcls == 'zero':
        z = np.zeros(shape)
    elif vcls == 'tiny':
        z = g * 1e-6
    elif vcls == 'huge':
        if fmt == 'codev':
            z = (2 * u - 1) * 1e7                      # any finite range fits: the writer picks the scale
        else:
            z = (2 * u - 1) * 0.9 * 2 ** 31 * (wavelength * 1e3 / 32768)
    else:
        raise AssertionError(vcls)
    return np.asarray(z, dtype=float)


def put_nans(ncls, z, rng):
    """NaN pattern; falls back to a smaller pattern when the shape cannot hold it.  Always leaves >= 1 finite sample."""
    H, W = z.shape
    if ncls == 'none' or z.size < 2:
        return 'none'
    if ncls == 'row' and H >= 2:
        z[int(rng.integers(H)), :] = np.nan
        return 'row'
    if ncls == 'blob' and H >= 3 and W >= 3:
        # asymmetric under every flip/rotation: an L of three samples off-centre
        z[0, 1] = np.nan
        z[1, 0] = np.nan
        z[H - 1, W - 2 if W > 3 else 0] = np.nan
        if W >= 4:
            z[1, W - 1] = np.nan
            z[0, 0] = np.nan
        return 'blob'
    z[0, W - 1] = np.nan      # top-right corner (for Nx1 maps: the first sample)
    return 'corner'


# ---------------------------------------------------------------------------------------------- round trips
def rt_zygo(ctx, tmp, desc, z, dx, wl, form, route):
    from prysm import io as pio
    from prysm.interferogram import Interferogram
    path = os.path.join(tmp, f'z{ctx.shard}.dat')
    step = wl * 1e3 / 32768
    tol = step * (1 + 1e-9) + F32 * np.abs(np.nan_to_num(z))
    fmt = 'zygo' if route == 'io' else 'ifg'
    with ctx.guard(f'C14/{fmt}/roundtrip', desc):
        zin = z.copy()
        if route == 'io':
            if form == 'handle':
                pio.write_zygo_dat(open(path, 'wb'), zin, dx, wavelength=wl)
            elif form == 'pathlib':
                pio.write_zygo_dat(pathlib.Path(path), zin, dx, wavelength=wl)
            else:
                pio.write_zygo_dat(path, zin, dx, wavelength=wl)
            r = pio.read_zygo_dat(path)
            got, dx2, wl2 = r['phase'], r['meta']['lateral_resolution'] * 1e3, r['meta']['wavelength'] * 1e6
        else:
            Interferogram(zin, dx=dx, wavelength=wl).save_zygo_dat(path)
            j = Interferogram.from_zygo_dat(path)
            got, dx2, wl2 = j.data, j.dx, j.wavelength
        ctx.require('writer.input-untouched', np.array_equal(zin, z, equal_nan=True), f'C14/{fmt}/writer-mutates-input',
                    'the writer modified the caller\'s array', desc)
        cls, _ = classify(got, z, tol)
        mon = 'roundtrip.zygo' if route == 'io' else 'roundtrip.ifg'
        ctx.observe(mon)
        if cls != 'ok':
            key_fmt = fmt
            detail = {}
            raw = open(path, 'rb').read()
            try:
                rimg, _, _, _ = ref.zygo_read(raw)
                detail['file_decoded_independently'] = classify(rimg, z, tol)[0]
            except Exception as e:  # noqa
                detail['file_decoded_independently'] = 'undecodable: ' + repr(e)[:80]
            if route == 'ifg':
                # same mechanism as the io-level pair?  then it is the io-level defect, not one of the Interferogram layer
                with warnings.catch_warnings():
                    warnings.simplefilter('ignore')
                    cls_io, _ = classify(pio.read_zygo_dat(path)['phase'], z, tol)
                if cls_io == cls:
                    key_fmt = 'zygo'
            err = float(np.nanmax(np.abs(got - z))) if got.shape == z.shape and np.isfinite(got - z).any() else None
            ctx.violation(f'C14/{key_fmt}/{cls}', f'Zygo .dat write->read ({route}) does not return the map that was written: {cls}',
                          desc, got_shape=list(np.shape(got)), max_err_nm=err, step_nm=step, **detail)
        ok = abs(dx2 - dx) <= F32 * dx and abs(wl2 - wl) <= F32 * wl
        ctx.require(mon + '.dx-wavelength', ok, f'C14/{fmt}/dx-or-wavelength', 'dx / wavelength not returned to float32 resolution',
                    desc, dx=[dx, dx2], wavelength=[wl, wl2])


def rt_codev(ctx, tmp, desc, z, form):
    from prysm import io as pio
    path = os.path.join(tmp, f'c{ctx.shard}.int')
    with ctx.guard('C14/codev/roundtrip', desc):
        zin = z.copy()
        kw = {}
        if form == 'wfr-nnb':
            kw = {'typ': 'WFR', 'nnb': True, 'comment': 'verif map'}
        elif form == 'lower-typ':
            kw = {'typ': 'sur'}
        pio.write_codev_gridint(zin, pathlib.Path(path) if form == 'pathlib' else path, **kw)
        got, meta = pio.read_codev_gridint(path)
        ctx.require('writer.input-untouched', np.array_equal(zin, z, equal_nan=True), 'C14/codev/writer-mutates-input',
                    'the writer modified the caller\'s array', desc)
        text = open(path).read()
        detail = {}
        try:
            _, hdr, start = ref.codev_split(text)
            h = ref.codev_header(hdr)
            step = 1000.0 * h['wvl'] / abs(h['ssz'])
            want = np.rint(np.nan_to_num(z[::-1].ravel() / 1e3 / h['wvl'] * h['ssz']))
            overflow = bool((np.abs(want) > 32767).any())
            detail = {'header': hdr, 'int16_range_used': float(np.abs(want).max() / 32767)}
            if np.abs(want).max() < 16384 and np.nanmax(np.abs(z)) > 0:
                ctx.event('codev: less than half of the int16 range used (reported, not asserted)')
        except Exception as e:  # noqa
            ctx.violation('C14/codev/written-header-undecodable', f'independent decoder cannot parse the written header: {e!r}', desc)
            return
        if not np.isfinite(step):
            ctx.skip('codev: declared step not finite')
            return
        tol = step * (1 + 1e-9) + 1e-12 * np.abs(np.nan_to_num(z))
        cls, _ = classify(got, z, tol)
        ctx.observe('roundtrip.codev')
        if cls != 'ok':
            if cls in ('value>1step', 'nan-mask') and overflow:
                # |value * declared SSZ| exceeds int16: wrapped samples are wrong, and the ones that wrap onto the
                # NDA sentinel -32768 come back as NaN
                cls = 'scale-overflows-int16'
            try:
                rimg, _, _ = ref.codev_read(text)
                detail['file_decoded_independently'] = classify(rimg, z, tol)[0]
            except Exception as e:  # noqa
                detail['file_decoded_independently'] = 'undecodable: ' + repr(e)[:80]
            err = float(np.nanmax(np.abs(got - z))) if got.shape == z.shape and np.isfinite(got - z).any() else None
            ctx.violation(f'C14/codev/{cls}', f'Code V grid INT write->read does not return the map that was written: {cls}',
                          desc, got_shape=list(np.shape(got)), max_err_nm=err, step_nm=step, **detail)


def roundtrips(ctx, tmp):
    cases = []
    for shape in SHAPES_ENUM[:ctx.pick(14, len(SHAPES_ENUM))]:
        for v in VALUE_CLASSES:
            for n in NAN_CLASSES:
                cases.append((shape, v, n))
    nrand = ctx.pick(200, 6000)
    rs = np.random.default_rng([ctx.seed, 14014])
    hi = ctx.pick(24, 72)
    for _ in range(nrand):
        kind = int(rs.integers(4))
        a, b = int(rs.integers(1, hi + 1)), int(rs.integers(1, hi + 1))
        shape = [(a, b), (a, a), (1, b + 1), (a + 1, 1)][kind]
        cases.append((shape, VALUE_CLASSES[int(rs.integers(len(VALUE_CLASSES)))], NAN_CLASSES[int(rs.integers(len(NAN_CLASSES)))]))
    zforms = ['path', 'path', 'handle', 'pathlib']
    cforms = ['path', 'path', 'wfr-nnb', 'pathlib', 'lower-typ']
    for k, (shape, vcls, ncls) in enumerate(cases):
        if not ctx.mine(k):
            continue
        rng = np.random.default_rng([ctx.seed, 14, k])
        dx = float(10 ** rng.uniform(-4, 2))
        wl = float(10 ** rng.uniform(np.log10(0.2), np.log10(12)))
        for route in ('zygo', 'ifg', 'codev'):
            fmt = 'codev' if route == 'codev' else 'zygo'
            z = make_values(vcls, shape, rng, fmt, wl)
            ncls_eff = put_nans(ncls, z, rng)
            if not np.isfinite(z).any():
                ctx.skip('all-NaN map (outside the domain)')
                continue
            form = (cforms[k % len(cforms)] if route == 'codev' else zforms[k % len(zforms)])
            layout = 'F' if k % 5 == 0 else 'C'
            if layout == 'F':
                z = np.asfortranarray(z)        # same map, column-major memory: the file must not depend on strides
            desc = {'wl': 'roundtrip', 'route': route, 'shape': shape, 'values': vcls, 'nan': ncls_eff, 'form': form, 'k': k,
                    'layout': layout, 'class': f'rt:{route}:{shape_class(shape)}:{vcls}:{ncls_eff}'}
            if route != 'codev':
                desc['dx'], desc['wavelength'] = dx, wl
            ctx.case(desc, nontrivial=z.size >= 2)
            if route == 'codev':
                rt_codev(ctx, tmp, desc, z, form)
            else:
                rt_zygo(ctx, tmp, desc, z, dx, wl, form, 'io' if route == 'zygo' else 'ifg')


# ---------------------------------------------------------------------------------------------- truncation
def _read_with_warnings(fn, path):
    """('exc', type name, None) or ('ret', array, [warning categories])."""
    with warnings.catch_warnings(record=True) as w:
        warnings.simplefilter('always')
        try:
            with contextlib.redirect_stdout(_io.StringIO()):
                out = fn(path)
        except Exception as e:  # noqa  (rejection)
            return 'exc', type(e).__name__, None
    real = [x for x in w if not issubclass(x.category, (DeprecationWarning, PendingDeprecationWarning))]
    return 'ret', out, real


TRUNC_FILES = [
    # (shape, values, nan) — smallest first; content is deterministic in (seed, index)
    ((4, 5), 'mixed', 'none'), ((6, 7), 'mixed', 'blob'), ((3, 3), 'neg-small', 'none'), ((1, 6), 'mixed', 'none'),
    ((5, 1), 'mixed', 'corner'), ((2, 2), 'pos-small', 'none'), ((6, 6), 'mixed', 'row'), ((5, 4), 'huge', 'none'),
    ((3, 7), 'pos-small', 'corner'), ((6, 5), 'mixed', 'blob'),
]
TRUNC_CODEV_FIRST = [((6, 6), 'mixed', 'none'), ((5, 5), 'mixed', 'blob')]


def truncation(ctx, tmp):
    from prysm import io as pio
    nfiles = ctx.pick(2, 40)
    k = -1
    for fmt in ('zygo', 'codev'):
        for fi in range(nfiles):
            rng = np.random.default_rng([ctx.seed, 1414, fi, 0 if fmt == 'zygo' else 1])
            if fmt == 'codev' and fi < len(TRUNC_CODEV_FIRST):
                shape, vcls, ncls = TRUNC_CODEV_FIRST[fi]
            elif fi < len(TRUNC_FILES):
                shape, vcls, ncls = TRUNC_FILES[fi]
            else:
                shape = (int(rng.integers(1, 7)), int(rng.integers(1, 8)))
                if shape == (1, 1):
                    shape = (1, 2)
                vcls = ['mixed', 'pos-small', 'neg-small', 'huge'][int(rng.integers(4))]
                ncls = NAN_CLASSES[int(rng.integers(4))]
            wl = 0.6328
            z = make_values(vcls, shape, rng, fmt, wl)
            # distinct, non-zero samples so that a zero-extended or mis-parsed sample can never equal the true one
            z = np.where(np.abs(z) < 1.0, z + np.sign(z + 1e-30) * 1.0, z) if vcls != 'huge' else z
            ncls = put_nans(ncls, z, rng)
            full = os.path.join(tmp, f't{ctx.shard}.{fmt}')
            cutp = os.path.join(tmp, f'u{ctx.shard}.{fmt}')
            fdesc = {'wl': 'truncation', 'fmt': fmt, 'file': fi, 'shape': shape, 'values': vcls, 'nan': ncls}
            try:
                with warnings.catch_warnings():
                    warnings.simplefilter('ignore')
                    if fmt == 'zygo':
                        pio.write_zygo_dat(full, z.copy(), 0.5, wavelength=wl)
                        reader = lambda p: pio.read_zygo_dat(p)['phase']     # noqa
                        step = wl * 1e3 / 32768
                        tol = step * (1 + 1e-9) + F32 * np.abs(np.nan_to_num(z))
                    else:
                        pio.write_codev_gridint(z.copy(), full)
                        reader = lambda p: pio.read_codev_gridint(p)[0]      # noqa
                        _, hdr, start = ref.codev_split(open(full).read())
                        h = ref.codev_header(hdr)
                        tol = (1000.0 * h['wvl'] / abs(h['ssz'])) * (1 + 1e-9) + 1e-12 * np.abs(np.nan_to_num(z))
                    whole = reader(full)
            except Exception as e:  # noqa  (the round-trip monitor reports these)
                ctx.skip(f'truncation file not usable: write/read raises {type(e).__name__}')
                continue
            cls, to_orig = classify(whole, z, tol)
            if to_orig is None:
                # the untruncated round trip is itself broken in a way that cannot be calibrated out; the round-trip
                # monitor reports it, the truncation monitor cannot decide on this file
                ctx.skip(f'truncation file skipped: untruncated round trip is {cls}')
                continue
            if cls != 'ok':
                ctx.event(f'truncation calibrated through round-trip defect {fmt}/{cls}')
            raw = open(full, 'rb').read()
            text = raw.decode('ascii') if fmt == 'codev' else None
            whole_o = to_orig(whole)
            off = ref.zygo_layout(raw)[1] if fmt == 'zygo' else None
            for cut in range(len(raw)):
                k += 1
                if not ctx.mine(k):
                    continue
                if fmt == 'zygo':
                    miss = ref.zygo_missing(raw, cut)
                    where = 'header' if cut < off else ('inside-sample' if (cut - off) % 4 else 'between-samples')
                else:
                    miss, where = ref.codev_missing(text, cut, z.shape)
                desc = dict(fdesc, cut=cut, of=len(raw), where=where, **{'class': f'trunc:{fmt}:{where}'})
                ctx.case(desc)
                with open(cutp, 'wb') as f:
                    f.write(raw[:cut])
                kind, out, warns = _read_with_warnings(reader, cutp)
                ctx.observe(f'truncation.{fmt}')
                if kind == 'exc':
                    ctx.event(f'{fmt} truncated read rejected:{out}')
                    continue
                key = f'C14/{fmt}/truncate-{where}'
                t = np.asarray(out)
                if t.shape != whole.shape:
                    # a smaller array is not "a full-size array of plausible numbers", but the lost samples are not marked
                    ctx.violation(key + '/short-array', 'truncated file is read as a smaller array without an exception', desc,
                                  got_shape=list(t.shape))
                    continue
                t_o = to_orig(t)
                if not miss.any():
                    ok = np.array_equal(t_o, whole_o, equal_nan=True)
                    ctx.require('truncation.nothing-lost', ok, key + '/present-samples-changed',
                                'no sample lost a byte, but the prefix reads differently from the whole file', desc)
                    continue
                unmarked = miss & ~np.isnan(t_o)
                if unmarked.any():
                    ctx.violation(key, f'{fmt}: file cut {where.replace("-", " ")} is returned as a full-size array with finite values '
                                  'where the data is missing' + ('' if warns else ' and no warning'), desc,
                                  n_missing=int(miss.sum()), n_unmarked=int(unmarked.sum()), warned=bool(warns),
                                  got=t_o[unmarked][:4], true=whole_o[unmarked][:4])
                    continue
                present = ~miss
                same = np.array_equal(t_o[present], whole_o[present], equal_nan=True)
                over = present & np.isnan(t_o) & ~np.isnan(whole_o)
                if not same and not (over.any() and np.array_equal(t_o[present & ~over], whole_o[present & ~over], equal_nan=True)):
                    ctx.violation(key + '/present-samples-changed', 'samples whose bytes are all present read differently from the whole file',
                                  desc)
                    continue
                if over.any():
                    ctx.event(f'{fmt} truncated read marks more samples invalid than were lost')
                if not warns:
                    ctx.violation(key + '/no-warning', 'missing samples are marked invalid but no warning is issued', desc)
    ctx.note('truncation', f'{nfiles} written files per format (Zygo .dat, Code V grid INT); every prefix length 0..len-1 enumerated')


# ---------------------------------------------------------------------------------------------- contract
def post_read_zygo_dat(token, args, kwargs, result):
    CTX.observe('reader.contract')
    p, m = result['phase'], result['meta']
    if p.ndim != 2 or p.shape != (m['cn_height'], m['cn_width']):
        CTX.violation('C14/zygo/reader-shape-vs-header', 'read_zygo_dat phase shape differs from the header (cn_height, cn_width)',
                      {'shape': list(p.shape), 'header': [m['cn_height'], m['cn_width']]})


def run(ctx):
    global CTX
    CTX = ctx
    from prysm import io as pio
    attach(pio, 'read_zygo_dat', post=post_read_zygo_dat)
    try:
        with tempfile.TemporaryDirectory(prefix='vp-c14-') as tmp:
            roundtrips(ctx, tmp)
            truncation(ctx, tmp)
    finally:
        detach_all()


def replay(ctx, rec):
    run(ctx)
