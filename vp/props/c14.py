"""C14 — writing then reading an instrument file returns the same map; truncated files are rejected or marked.

Monitors
  roundtrip.zygo / roundtrip.codev / roundtrip.ifg   write with the real writer, read with the real reader, compare with
        the map that was written: shape, NaN mask element-wise, values within one quantisation step of the format
        (step taken from the *file* by an independent decoder), dx and wavelength to float32 resolution.  A
        mismatch is classified by mechanism (orientation candidate that does match, transposed shape, int16
        overflow of the declared scale, ...) and the class is the violation key.  Every map class is run in the four
        data-dtype x config.precision combinations (float64/float32 data, precision 64/32) plus integer containers,
        with python / numpy.float64 / numpy.float32 scalars for dx and wavelength, C / Fortran / transposed-view /
        strided-slice memory layouts, and a *re-save* of what the reader returned (read -> write -> read).
  history.*                                          sequences of writes in one process (calibrated then dx == 0, the
        Interferogram default dx, changing dx / wavelength / shape / NaN pattern / dtype / precision, the same array
        object twice, Zygo and Code V interleaved), every file judged on its own against the map and scalars *it*
        was written with, then all files re-read in reverse order and once more after the caller scribbled over the
        arrays the first read returned.
  writer.contract.* / reader.contract.*              call-level contracts on write_zygo_dat, write_codev_gridint,
        read_zygo_dat, read_codev_gridint (also on the calls made by Interferogram.save_zygo_dat / from_zygo_dat): the
        bytes on disk, decoded by the independent decoder (vp/refmodels/instrfile.py), are the map / spacing /
        wavelength the writer was given; what the reader returns is what the independent decoder reads.  These judge
        each call on its own, so they are independent of whatever was written or read before in the process.
  layout.*                                           every writer sees every memory layout of the same asymmetric map (C, Fortran,
        transposed / rot90 views, strided and reversed slices); a failure the C-ordered copy does not show is keyed
        `C14/<fmt>/[writer/]form:layout=column-major|non-contiguous`.
  defaults.*                                         omitted vs explicitly passed documented defaults of every optional argument
        of the writers / readers, after earlier calls with other explicit values; key `C14/<fmt>/form:<argument>=omitted`.
  counts.*                                           class I (structural sweep): every sample count 1 .. 1400 (thorough 5000) is written and read at
        least once per format -- as 1 x n / n x 1 and as the most nearly square factorisation r x c -- plus shapes whose count is a
        multiple of 585 (the record width of the Code V writer: 13 x 45, 39 x 15, 45 x 52, ...); thorough: every (rows, cols) up to
        64 x 64 as well.  Keys `C14/<fmt>/size:count<585|count=k*585|count>585/...` unless the plain round trips showed the failure.
  scales.*                                           class G (magnitudes / units): one base map with its heights scaled by 1e-9 .. 1e6 (Code V also
        1e-12, 1e9, 1e12), Zygo wavelengths 1e-3 .. 1e4 um and spacings 1e-9 .. 1e10 mm (random mantissas), judged as every round
        trip; plus the scale law of the Code V pair: the step declared for s * z must be s x the step declared for z to within a
        factor 4 either way (`C14/codev/scale:<regime>/step-not-proportional-to-heights`).
  specials.*                                         class H (special values): constant, all-zero, single-valid-sample (+, -, exactly 0), constant /
        zero with one invalid sample, one non-zero sample among zeros; dx exactly 0 for half of the cases and through the
        Interferogram default; the Code V step law for every non-zero special map.
  optargs.*                                          class M (optional arguments in hostile states): write_zygo_dat `intensity=` in every dtype (uint8 .. float64,
        bool), with the shape of the map and with other shapes, other memory layouts, non-finite, empty, None, positional and keyword; Interferogram
        objects carrying an `intensity` attribute (constructor, assigned later, or loaded from a file WITH a camera block of 1-3 buckets and re-typed
        by the caller) and a `meta` dictionary of another file, saved with save_zygo_dat; write_codev_gridint with hostile `comment=` strings.
        Judged as every round trip; keys `C14/<fmt>/[writer/]arg:<name>=<state>/...`.
  truncation.zygo / truncation.codev                 fault enumeration: for EVERY prefix length 0..len-1 of a written
        file the reader must raise, or return the untruncated result when no sample lost a byte, or return the map
        with NaN at every sample that lost a byte together with a warning (both precisions).
All files live in one tempfile.TemporaryDirectory removed at exit.
"""
import contextlib
import io as _io
import os
import pathlib
import tempfile
import warnings

import numpy as np

from ..contracts import attach, detach_all
from ..core import shape_class
from ..refmodels import instrfile as ref
from ..util import precision

RULE = ('round trips: shape classes (1xN, Nx1, square, non-square, odd/even; enumerated smallest first, then random, incl. '
        'extreme aspect ratios) x value classes (mixed, all-positive small/large, all-negative, non-negative with zeros, '
        'constant +/-, all-zero, tiny, huge) x NaN patterns (none, corner, asymmetric blob, whole row) x configuration '
        '(float64 / float32 / integer data x config.precision 64 / 32) x writer argument forms x scalar types of dx and '
        'wavelength x memory layouts, random fill, dx and wavelength log-uniform, each followed for a part of the cases by a '
        're-save of the array the reader returned; histories: scripted and random sequences of writes (dx == 0 after a '
        'calibrated write, Interferogram default dx, changing dx / wavelength / shape / NaN pattern / dtype / precision, the '
        'same object twice, both formats interleaved) then reads in reverse order; a case is non-trivial when the map has '
        '>= 2 samples; distinct = distinct descriptor.  memory layouts: every writer (function forms and Interferogram.save_zygo_dat) x '
        'C / Fortran / transposed view / rot90 view / strided slice / negative strides / strided slice of a Fortran block x non-square '
        'and square shapes with both dimensions > 1 and content asymmetric under every flip and transposition x all dtype / precision '
        'configurations.  omitted vs explicit defaults (class E x B): wavelength / intensity of write_zygo_dat, dx / wavelength of '
        'Interferogram, comment / typ / nnb of write_codev_gridint, multi_intensity_action of the readers, each omitted and passed as '
        'the documented default (positional and keyword) after earlier calls with other explicit values; dx / wavelength as python and '
        'numpy integers; typ in any letter case.  truncation: every prefix length 0..len-1 of each written file is one case.  '
        'STRUCTURAL SWEEP (class I): every sample count 1..1400 (thorough 5000) per format as 1xn / nx1 and as its most nearly square '
        'factorisation, multiples of 585 (13x45, 39x15, 45x52, 2x585 ...), thorough also every (rows, cols) <= 64x64.  MAGNITUDES (class G): '
        'one base map x height scales 1e-9..1e6 nm (Code V also 1e-12, 1e9, 1e12) x wavelengths 1e-3..1e4 um x spacings 1e-9..1e10 mm with '
        'random mantissas x all configurations; Code V step law step(s z) = s step(z) within a factor 4.  SPECIAL VALUES (class H): constant / '
        'all-zero / single-valid-sample (+, -, 0) / constant-or-zero with one NaN / one non-zero among zeros x dx exactly 0 or calibrated x routes'
        '.  OPTIONAL ARGUMENTS (class M): intensity= of write_zygo_dat / Interferogram in 8 dtypes x same / other shapes x layouts x non-finite / '
        'empty / None, meta= of another file, frames handed out by the reader of a file with 1-3 camera buckets (first / avg / last, re-typed), '
        'comment= of write_codev_gridint (empty, blank, 80 characters, header keywords, digits, punctuation).  OBJECT HISTORIES (class B, pass 5): '
        'Interferogram built with dx calibrated / 0 / 1 / omitted, then scripted and random sequences (<= 6) of strip_latcal / latcal / pad / crop / '
        'fill / mask / recenter / coordinate access / str / copy / wavelength assignment / earlier saves, then save_zygo_dat, read back by both readers')
ASSUMPTIONS = ['the map handed to the writer is the reference; one quantisation step is lambda/32768 (Zygo, phase_res 1) and '
               '1000*WVL/|SSZ| nm as declared in the written Code V header, decoded by an independent parser',
               'single-precision allowance: when the data are float32, config.precision is 32 or the wavelength is a '
               'numpy.float32, values may additionally differ by 1e-4 relative (measured round-off of the float32 '
               'chain <= 1.7e-7 relative); float64 / integer data under precision 64 get 2^-23 relative (the float32 header field)',
               'a sample is "missing" in a prefix when not all of its bytes (Zygo: 4 bytes, Code V: its decimal token) are '
               'inside the prefix; sample order in the file is row-major from the top row (MetroPro / Code V convention)',
               'all-NaN maps, maps beyond the int32 range of the Zygo format and Code V FIL (intensity) files are outside the '
               'domain (height maps with >= 1 finite sample); dx == 0 means "no lateral calibration" and must read back as 0',
               'scale law (Code V only): the text format carries no unit and the writer derives the step (WVL / SSZ) from the data, so the step '
               'declared for s * z is s times the step declared for z; demanded to a factor 4 in either direction (a writer may round its scale); '
               'all-zero maps are exempt (any step represents them).  Zygo: the step is lambda / 32768 whatever the data, nothing beyond the ordinary '
               'oracle is demanded',
               'optional blocks (class M): the documented optional arguments intensity= (ndarray), meta= (dict) and comment= (str, <= 80 characters) are not '
               'part of the map / dx / wavelength triple: whatever is passed for them, the triple must come back (on the tree this was established on '
               'the writer ignores intensity and meta); an Interferogram whose constructor resolves dx / wavelength differently from the explicit '
               'arguments is not judged; files with a camera block are made by inserting 16-bit frames and the ac_* header fields into a written file',
               'documented defaults (table DEFAULTS, from the signatures and docstrings of the current tree): wavelength = 0.6328 um '
               '(HeNe), intensity = None, typ = SUR, nnb = False, dx = 0; a call that omits an argument must write a file that decodes '
               '(independent decoder) to the same fields as the call that passes the default explicitly; the Zygo time stamp is not compared',
               'object histories: the reference of Interferogram.save_zygo_dat is the object\'s public data / dx / wavelength at the moment of the save (after '
               'strip_latcal() that is dx = 1, pixel units); private flags are not consulted; objects left without a finite sample are excluded and counted']
REQUIRED = ['roundtrip.zygo', 'roundtrip.codev', 'roundtrip.ifg', 'truncation.zygo', 'truncation.codev',
            'roundtrip.zygo.resave', 'roundtrip.ifg.resave', 'roundtrip.codev.resave',
            'history.zygo', 'history.ifg', 'history.codev', 'history.re-read',
            'writer.contract.zygo', 'writer.contract.codev', 'reader.contract', 'reader.contract.zygo-eq-decoder',
            'reader.contract.codev-eq-decoder', 'layout.zygo', 'layout.ifg', 'layout.codev', 'defaults.zygo', 'defaults.codev',
            'defaults.readers', 'defaults.omitted-eq-explicit', 'counts.codev', 'counts.zygo', 'counts.ifg', 'scales.codev', 'scales.zygo',
            'scales.ifg', 'scales.codev.step-law', 'specials.codev', 'specials.zygo', 'specials.ifg', 'optargs.zygo', 'optargs.ifg', 'optargs.codev',
            'objhistory.ifg', 'objhistory.ifg.dx-wavelength', 'objhistory.ifg.object-untouched']

CTX = None
F32 = 2.0 ** -23
LOWPREC_RTOL = 1e-4


# ---------------------------------------------------------------------------------------------- tolerance
def _is32():
    from prysm.conf import config
    return config.precision is np.float32


def lowprec(z, wl=None):
    """True when single-precision arithmetic is legitimately part of the chain for this call."""
    dt = getattr(z, 'dtype', None)
    return (dt is not None and dt.kind == 'f' and dt.itemsize < 8) or _is32() or isinstance(wl, np.float32)


def tolerance(z, step, low):
    z = np.abs(np.nan_to_num(np.asarray(z, dtype=float)))
    return step * (1 + 1e-9) + (LOWPREC_RTOL if low else F32) * z


def scalar_tol(v, low):
    return (8 * F32 if low else F32) * abs(float(v))


# ---------------------------------------------------------------------------------------------- comparison
def _match(got, orig, tol):
    """True when got has orig's shape, the same NaN mask and all finite values within tol (array)."""
    if got.shape != orig.shape:
        return False
    gn, on = np.isnan(got), np.isnan(orig)
    if not np.array_equal(gn, on):
        return False
    ok = ~on
    if not np.isfinite(got[ok]).all():
        return False
    return bool((np.abs(got[ok] - orig[ok]) <= tol[ok]).all())


def _hdr_swapped(t, shape):
    # the samples in file order are intact but the two GRD sizes were exchanged
    return t[::-1].reshape(shape)[::-1]


CANDIDATES = [
    ('fliplr', lambda t, s: t[:, ::-1]),
    ('flipud', lambda t, s: t[::-1, :]),
    ('rot180', lambda t, s: t[::-1, ::-1]),
    ('transpose', lambda t, s: t.T),
]


def classify(got, orig, tol):
    """('ok', None) or (class label, function mapping a reader result into the frame of `orig`)."""
    got = np.asarray(got)
    if got.ndim != 2:
        return 'not-2d', None
    got = got.astype(float)
    orig = np.asarray(orig, dtype=float)
    if _match(got, orig, tol):
        return 'ok', (lambda t: t)
    if got.shape != orig.shape:
        if got.shape == orig.shape[::-1]:
            if _match(_hdr_swapped(got, orig.shape), orig, tol):
                return 'shape-transposed', (lambda t: _hdr_swapped(t, orig.shape))
            if _match(got.T, orig, tol):
                return 'orientation:transpose', (lambda t: t.T)
            return 'shape-transposed', None
        return 'shape', None
    for name, f in CANDIDATES:
        if name == 'transpose' and orig.shape[0] != orig.shape[1]:
            continue
        if _match(f(got, orig.shape), orig, tol):
            return 'orientation:' + name, (lambda t, f=f: f(t, orig.shape))
    if not np.array_equal(np.isnan(got), np.isnan(orig)):
        return 'nan-mask', None
    return 'value>1step', None


def _maxerr(got, z):
    got = np.asarray(got, dtype=float)
    z = np.asarray(z, dtype=float)
    if got.shape != z.shape:
        return None
    d = got - z
    return float(np.nanmax(np.abs(d))) if np.isfinite(d).any() else None


# ---------------------------------------------------------------------------------------------- generators
SHAPES_ENUM = [(1, 2), (2, 1), (2, 2), (1, 5), (4, 1), (2, 3), (3, 2), (3, 3), (3, 4), (4, 3), (4, 4), (1, 8), (7, 1),
               (5, 5), (4, 7), (7, 4), (5, 8), (6, 6), (9, 5), (8, 8), (1, 64), (97, 1), (2, 50), (33, 3), (16, 16)]
VALUE_CLASSES = ['mixed', 'pos-small', 'pos-large', 'neg', 'neg-small', 'nonneg-zero', 'const+', 'const-', 'zero', 'tiny', 'huge']
NAN_CLASSES = ['none', 'corner', 'blob', 'row']
# (data dtype, config.precision); integer containers only make sense for maps without invalid samples
CFGS = [('float64', 64), ('float32', 64), ('float64', 32), ('float32', 32)]
INT_CFGS = [('int32', 64), ('int16', 32), ('int64', 64)]
SCALARS = ['py', 'np64', 'np32']
LAYOUTS = ['C', 'F', 'T', 'S']


def make_values(vcls, shape, rng, fmt, wavelength):
    n = int(np.prod(shape))
    u = rng.random(shape)
    g = rng.standard_normal(shape)
    if vcls == 'mixed':
        z = g * 10 ** rng.uniform(0, 4)
        if n >= 2:  # make sure both signs are present
            z.flat[0], z.flat[-1] = abs(z.flat[0]) + 1, -abs(z.flat[-1]) - 1
    elif vcls == 'pos-small':
        z = u * 900 + 1                                # nm, < 1 um
    elif vcls == 'pos-large':
        z = u * 10 ** rng.uniform(3.3, 5) + 1100       # nm, > 1 um
    elif vcls == 'neg':
        z = -(u * 10 ** rng.uniform(2, 4.5)) - 1
    elif vcls == 'neg-small':
        z = -(u * 50) - 0.5
    elif vcls == 'nonneg-zero':
        z = u * 10 ** rng.uniform(1, 4.5)
        z.flat[int(rng.integers(n))] = 0.0
    elif vcls == 'const+':
        z = np.full(shape, float(10 ** rng.uniform(-1, 4)))
    elif vcls == 'const-':
        z = np.full(shape, -float(10 ** rng.uniform(-1, 4)))
    elif vcls == 'zero':
        z = np.zeros(shape)
    elif vcls == 'tiny':
        z = g * 1e-6
    elif vcls == 'huge':
        if fmt == 'codev':
            z = (2 * u - 1) * 1e7                      # any finite range fits: the writer picks the scale
        else:
            z = (2 * u - 1) * 0.9 * 2 ** 31 * (wavelength * 1e3 / 32768)
    else:
        raise AssertionError(vcls)
    return np.asarray(z, dtype=float)


def put_nans(ncls, z, rng):
    """NaN pattern; falls back to a smaller pattern when the shape cannot hold it.  Always leaves >= 1 finite sample."""
    H, W = z.shape
    if ncls == 'none' or z.size < 2:
        return 'none'
    if ncls == 'row' and H >= 2:
        z[int(rng.integers(H)), :] = np.nan
        return 'row'
    if ncls == 'blob' and H >= 3 and W >= 3:
        # asymmetric under every flip/rotation: an L of three samples off-centre
        z[0, 1] = np.nan
        z[1, 0] = np.nan
        z[H - 1, W - 2 if W > 3 else 0] = np.nan
        if W >= 4:
            z[1, W - 1] = np.nan
            z[0, 0] = np.nan
        return 'blob'
    z[0, W - 1] = np.nan      # top-right corner (for Nx1 maps: the first sample)
    return 'corner'


def as_layout(z, layout):
    """The same map in another memory layout (the file must not depend on strides)."""
    if layout == 'F':
        return np.asfortranarray(z)
    if layout == 'T':
        return np.ascontiguousarray(z.T).T                      # transposed view of a C array
    if layout == 'S':
        big = np.full((2 * z.shape[0] + 1, 3 * z.shape[1] + 2), -777.0).astype(z.dtype)
        v = big[1::2, 2::3]                                     # non-contiguous strided slice
        v[...] = z
        return v
    if layout == 'R':
        return np.rot90(np.ascontiguousarray(np.rot90(z, -1)))  # rot90 view of a C array (column-major with a negative stride)
    if layout == 'N':
        return np.ascontiguousarray(z[::-1, ::-1])[::-1, ::-1]  # both strides negative
    if layout == 'FS':
        big = np.asfortranarray(np.full((2 * z.shape[0] + 1, z.shape[1] + 2), -777.0).astype(z.dtype))
        v = big[1::2, 1:-1]                                     # strided slice of a Fortran array
        v[...] = z
        return v
    return z


def as_dtype(z, dt):
    """Cast the float64 master map to the container of the case; integer containers hold the rounded map."""
    if np.dtype(dt).kind in 'iu':
        info = np.iinfo(dt)
        return np.clip(np.rint(z), info.min + 1, info.max - 1).astype(dt)
    return z.astype(dt)


def as_scalar(v, kind):
    return {'py': float, 'np64': np.float64, 'np32': np.float32}[kind](v)


# ---------------------------------------------------------------------------------------------- attribution helpers
def layout_class(z):
    """'' for a C-contiguous (or 1xN / Nx1 / non-array) map, else the class of its memory layout."""
    if not isinstance(z, np.ndarray) or z.ndim != 2 or min(z.shape) < 2 or z.flags.c_contiguous:
        return ''
    # the axis that varies fastest in memory decides: Fortran arrays, transposed / rot90 views and slices of them are
    # column-major, strided or reversed slices of C arrays are row-major but not contiguous
    return 'column-major-layout' if abs(z.strides[0]) < abs(z.strides[1]) else 'non-contiguous-layout'


def cfg_parts(z, wl=None, orig=None):
    """The non-default (single precision / integer / memory layout) ingredients of a call.  `orig`: the array object the
    caller handed over when `z` is a copy of it (a copy of a strided view is contiguous)."""
    parts = []
    lc = layout_class(orig if orig is not None else z)
    if lc:
        parts.append(lc)
    dt = getattr(z, 'dtype', None)
    if dt is not None and dt.kind == 'f' and dt.itemsize < 8:
        parts.append('float32-data')
    if dt is not None and dt.kind in 'iu':
        parts.append('integer-data')
    if isinstance(wl, np.float32):
        parts.append('float32-wavelength')
    if _is32():
        parts.append('precision32')
    return parts


def with_parts(z, wl, parts):
    """(map, wavelength, precision) of the same case with only `parts` non-default."""
    z2 = np.array(z, dtype=float, order='C')
    if 'float32-data' in parts:
        z2 = z2.astype(np.float32)
    if 'integer-data' in parts:
        z2 = np.array(z, copy=True, order='C')
    if 'column-major-layout' in parts:
        z2 = np.asfortranarray(z2)
    if 'non-contiguous-layout' in parts:
        z2 = as_layout(z2, 'S')
    w = None if wl is None else (np.float32(wl) if 'float32-wavelength' in parts else float(wl))
    return z2, w, 32 if 'precision32' in parts else 64


def attribute_cfg(parts, reproduces):
    """Key suffix naming the configuration a failure belongs to: '' when it also fails in the default configuration
    (float64 data, python scalars, precision 64), the single non-default ingredient that reproduces it alone, else all
    of them.  `reproduces(parts)` re-runs the failing call with only `parts` non-default (only ever called on a failure)."""
    if not parts:
        return ''
    try:
        if reproduces([]):
            return ''
        if len(parts) > 1:
            for p_ in parts:
                if reproduces([p_]):
                    return '/' + p_
    except Exception:  # noqa
        pass
    return '/' + '+'.join(parts)


def layout_key(key):
    """`C14/<fmt>/[writer/]<symptom>/<layout class>` -> `C14/<fmt>/[writer/]form:layout=<class>`: when the C-ordered copy of the
    same map is fine, the defect is the dependence on the strides, whatever the scrambled file looks like."""
    for lc in ('column-major-layout', 'non-contiguous-layout'):
        if key.endswith('/' + lc):
            head = key[:-len(lc) - 1].rsplit('/', 1)[0]
            return f'{head}/form:layout={lc[:-7]}'
    return key


def fired(ctx, prefix):
    """First violation key already recorded in this process that starts with `prefix` (plain, history-free key), or None."""
    for k in ctx.violations:
        if k == prefix or k.startswith(prefix + '/'):
            if '/history/' not in k and '/writer/' not in k and '/reader/' not in k:
                return k
    return None


def part_key(ctx, fmt, part, what):
    """`C14/<fmt>/<what>` for the plain round trips (part == ''); for a case of a structural / magnitude / special-value sweep
    `C14/<fmt>/<part>/<what>` unless a plain key for the same symptom already fired in this process (the defect is then not specific to
    the sweep and keeps its plain key)."""
    if callable(part):
        part = part(what)
    if not part:
        return f'C14/{fmt}/{what}'
    k0 = fired(ctx, f'C14/{fmt}/{what.split("/")[0]}')
    return k0 if k0 is not None else f'C14/{fmt}/{part}/{what}'


# ---------------------------------------------------------------------------------------------- contracts
_MEM = {'any_cal': False, 'last': None}     # the contracts' own memory of earlier Zygo writes in this process (labels only)


def _path_of(f):
    if isinstance(f, (str, os.PathLike)):
        return os.fspath(pathlib.Path(f).expanduser())
    name = getattr(f, 'name', None)
    return name if isinstance(name, str) else None


def _bind(names, args, kwargs, defaults=None):
    a = dict(defaults or {})
    a.update(zip(names, args))
    a.update(kwargs)
    return a


def dx_class(dx):
    """Label of a Zygo write by what this process wrote before it (header state is the only thing that could survive)."""
    last = _MEM['last']
    if dx == 0:
        return 'dx0-after-calibrated' if _MEM['any_cal'] else 'dx0'
    if last is None:
        return 'calibrated'
    if last[0] == 0:
        return 'calibrated-after-dx0'
    return 'calibrated' if last[0] == dx else 'dx-changed'


def _step_class(prev, dx, wl, shape):
    """Label of a history step relative to the previous write of the same format."""
    if prev is None:
        return 'first-write'
    pdx, pwl, pshape = prev
    if shape != pshape:
        return 'shape-changed'
    if wl != pwl:
        return 'wavelength-changed'
    if dx != pdx:
        return 'dx-changed'
    return 'same-args-again'


def pre_write_zygo(args, kwargs):
    a = _bind(['file', 'phase', 'dx', 'wavelength', 'intensity'], args, kwargs, {'wavelength': 0.6328})
    try:
        return np.array(a['phase'], copy=True)
    except Exception:  # noqa
        return None


def post_write_zygo(z, args, kwargs, result):
    from prysm import io as pio
    a = _bind(['file', 'phase', 'dx', 'wavelength', 'intensity'], args, kwargs, {'wavelength': 0.6328})
    dx, wl = a['dx'], a['wavelength']
    try:
        cur = (float(dx), float(wl), tuple(np.shape(z)))
    except Exception:  # noqa
        return
    hist = dx_class(cur[0])
    prev = _MEM['last']
    wl_hist = 'changed' if prev is not None and prev[1] != cur[1] else 'first-or-same'
    if 'wavelength' not in kwargs and len(args) < 4:
        wl_hist = 'omitted/' + wl_hist          # the documented default (HeNe) applies
    _MEM['last'] = cur
    _MEM['any_cal'] = _MEM['any_cal'] or cur[0] != 0
    path = _path_of(a['file'])
    if z is None or z.ndim != 2 or z.size == 0 or not np.isfinite(z).any() or path is None or not os.path.exists(path) \
            or not (np.isfinite(cur[0]) and cur[0] >= 0 and np.isfinite(cur[1]) and cur[1] > 0):
        CTX.skip('writer.contract.zygo: outside the domain (not a 2-D map with a finite sample / no file name / dx, wavelength)')
        return
    step = cur[1] * 1e3 / 32768
    if np.nanmax(np.abs(z.astype(float))) / step > 0.95 * 2 ** 31:
        CTX.skip('writer.contract.zygo: map beyond the int32 range of the format')
        return
    low = lowprec(z, wl)
    desc = {'fn': 'write_zygo_dat', 'shape': list(z.shape), 'dtype': str(z.dtype), 'dx': cur[0], 'wavelength': cur[1],
            'precision': 32 if _is32() else 64, 'after': hist, 'class': 'contract'}
    CTX.observe('writer.contract.zygo')
    raw = open(path, 'rb').read()

    def blame_intensity():
        """'arg:intensity=array/' when the call carried a non-empty optional intensity block and the same call without it writes a file
        that encodes the map (only ever evaluated on a failure); else ''."""
        inten = a.get('intensity')
        try:
            if inten is None or not np.size(inten):
                return ''
            with tempfile.TemporaryDirectory(prefix='vp-c14c-') as td:
                f = os.path.join(td, 'a.dat')
                pio.write_zygo_dat(f, z, dx, wavelength=wl)                 # monitors are bypassed inside a contract
                im2 = ref.zygo_read(open(f, 'rb').read())[0]
                return 'arg:intensity=array/' if classify(im2, z, tolerance(z, step, low))[0] == 'ok' else ''
        except Exception:  # noqa
            return ''
    try:
        img, fdx, fwl, _ = ref.zygo_read(raw)
    except Exception as e:  # noqa
        CTX.violation(f'C14/zygo/writer/{blame_intensity()}file-undecodable',
                      f'the file written by write_zygo_dat cannot be decoded independently: {e!r}'[:200], desc)
        return
    if abs(fdx - cur[0]) > scalar_tol(cur[0], low):
        CTX.violation(f'C14/zygo/writer/header-dx/{hist}', 'the lateral spacing in the written Zygo header is not the dx the writer was '
                      f'given ({hist.replace("-", " ")})', desc, written_mm=fdx, given_mm=cur[0], previous_write=prev)
    if abs(fwl - cur[1]) > scalar_tol(cur[1], low):
        CTX.violation(f'C14/zygo/writer/header-wavelength/{wl_hist}', 'the wavelength in the written Zygo header is not the one the writer '
                      'was given' + (' (omitted: the documented default 0.6328 um)' if wl_hist.startswith('omitted') else ''), desc,
                      written_um=fwl, given_um=cur[1], previous_write=prev)
        return      # the quantisation step of the file is not the one the caller asked for: the map comparison would only repeat this
    cls, _ = classify(img, z, tolerance(z, step, low))
    if cls != 'ok' and blame_intensity():
        CTX.violation(f'C14/zygo/writer/arg:intensity=array/{cls}', 'the file written by write_zygo_dat does not encode the map it was given when the '
                      f'optional intensity block is passed (it does without it): {cls}', dict(desc, intensity_dtype=str(getattr(a['intensity'], 'dtype', None)),
                                                                                            intensity_shape=list(np.shape(a['intensity']))),
                      decoded_shape=list(img.shape), max_err_nm=_maxerr(img, z), step_nm=step)
        return
    if cls != 'ok':
        def reproduces(parts):
            z2, w2, prec = with_parts(z, wl, parts)
            with precision(prec), tempfile.TemporaryDirectory(prefix='vp-c14c-') as td:
                f = os.path.join(td, 'a.dat')
                pio.write_zygo_dat(f, z2, cur[0], wavelength=w2)           # monitors are bypassed inside a contract
                im2 = ref.zygo_read(open(f, 'rb').read())[0]
                return classify(im2, z2, tolerance(z2, step, lowprec(z2, w2)))[0] != 'ok'
        cfg = attribute_cfg(cfg_parts(z, wl, orig=a['phase']), reproduces)
        CTX.violation(layout_key(f'C14/zygo/writer/{cls}{cfg}'), f'the file written by write_zygo_dat does not encode the map it was given: {cls}',
                      desc, decoded_shape=list(img.shape), max_err_nm=_maxerr(img, z), step_nm=step)


def pre_write_codev(args, kwargs):
    a = _bind(['array', 'filename', 'comment', 'typ', 'nnb'], args, kwargs)
    try:
        return np.array(a['array'], copy=True)
    except Exception:  # noqa
        return None


def _codev_tol(z, step):
    zf = np.abs(np.nan_to_num(np.asarray(z, dtype=float)))
    return tolerance(z, step, True) if lowprec(z) else step * (1 + 1e-9) + 1e-12 * zf


def post_write_codev(z, args, kwargs, result):
    from prysm import io as pio
    a = _bind(['array', 'filename', 'comment', 'typ', 'nnb'], args, kwargs, {'typ': 'SUR'})
    path = _path_of(a['filename'])
    if z is None or z.ndim != 2 or z.size == 0 or not np.isfinite(z).any() or np.isinf(z.astype(float)).any() or path is None \
            or not os.path.exists(path) or str(a['typ']).upper() not in ('SUR', 'WFR'):
        CTX.skip('writer.contract.codev: outside the domain (not a 2-D height map with a finite sample / FIL / no file name)')
        return
    desc = {'fn': 'write_codev_gridint', 'shape': list(z.shape), 'dtype': str(z.dtype), 'typ': str(a['typ']),
            'precision': 32 if _is32() else 64, 'class': 'contract'}
    CTX.observe('writer.contract.codev')

    def decode(path_, z_):
        img, h, ints = ref.codev_read(open(path_).read())
        step = 1000.0 * h['wvl'] / abs(h['ssz'])
        if not np.isfinite(step):
            return None, step, h
        cls, _ = classify(img, z_, _codev_tol(z_, step))
        if cls in ('value>1step', 'nan-mask'):
            want = np.rint(np.nan_to_num(np.asarray(z_, dtype=float)[::-1].ravel() / 1e3 / h['wvl'] * h['ssz']))
            if (np.abs(want) > 32767).any():
                cls = 'scale-overflows-int16'
        return cls, step, img

    try:
        cls, step, img = decode(path, z)
    except Exception as e:  # noqa
        CTX.violation('C14/codev/writer/file-undecodable', f'the file written by write_codev_gridint cannot be decoded independently: {e!r}'[:200], desc)
        return
    if cls is None:
        CTX.skip('codev: declared step not finite')
        return
    if cls != 'ok':
        def reproduces(parts):
            z2, _, prec = with_parts(z, None, parts)
            with precision(prec), tempfile.TemporaryDirectory(prefix='vp-c14c-') as td:
                f = os.path.join(td, 'a.int')
                pio.write_codev_gridint(z2, f)
                return decode(f, z2)[0] != 'ok'
        cfg = attribute_cfg(cfg_parts(z, orig=a['array']), reproduces)
        CTX.violation(layout_key(f'C14/codev/writer/{cls}{cfg}'), f'the file written by write_codev_gridint does not encode the map it was given: {cls}',
                      desc, decoded_shape=list(img.shape), max_err_nm=_maxerr(img, z), step_nm=step)


def post_read_zygo_dat(token, args, kwargs, result):
    CTX.observe('reader.contract')
    p, m = result['phase'], result['meta']
    if p.ndim != 2 or p.shape != (m['cn_height'], m['cn_width']):
        CTX.violation('C14/zygo/reader-shape-vs-header', 'read_zygo_dat phase shape differs from the header (cn_height, cn_width)',
                      {'shape': list(p.shape), 'header': [m['cn_height'], m['cn_width']]})
        return
    path = _path_of(args[0] if args else kwargs.get('file'))
    if path is None or not os.path.exists(path):
        return
    raw = open(path, 'rb').read()
    try:
        img, fdx, fwl, rawint = ref.zygo_read(raw)
    except Exception:  # noqa  (truncated or foreign file: the truncation monitor decides those)
        CTX.skip('reader.contract: file not decodable as a complete .dat by the independent decoder')
        return
    CTX.observe('reader.contract.zygo-eq-decoder')
    low = _is32()
    desc = {'fn': 'read_zygo_dat', 'shape': list(img.shape), 'precision': 32 if low else 64, 'class': 'contract'}
    want_dt = np.float32 if low else np.float64
    if p.dtype != np.dtype(want_dt):
        CTX.violation('C14/zygo/reader/dtype', f'read_zygo_dat returns {p.dtype} under config.precision = {32 if low else 64}', desc)
    scale = np.abs(np.nan_to_num(img))
    cls, _ = classify(p, img, (LOWPREC_RTOL if low else 1e-12) * scale + 1e-300)
    if cls != 'ok':
        CTX.violation(f'C14/zygo/reader/{cls}' + ('/precision32' if low else ''),
                      f'read_zygo_dat does not return what the file contains (independent decoder): {cls}', desc, max_err_nm=_maxerr(p, img))
    if abs(m['lateral_resolution'] * 1e3 - fdx) > 1e-12 * abs(fdx) or abs(m['wavelength'] * 1e6 - fwl) > 1e-12 * abs(fwl):
        CTX.violation('C14/zygo/reader/header-dx-or-wavelength', 'read_zygo_dat meta differs from the header fields of the file', desc,
                      meta=[m['lateral_resolution'], m['wavelength']], file=[fdx / 1e3, fwl / 1e6])


def post_read_codev(token, args, kwargs, result):
    path = _path_of(args[0] if args else kwargs.get('file'))
    if path is None or not os.path.exists(path):
        return
    try:
        img, h, ints = ref.codev_read(open(path).read())
    except Exception:  # noqa  (truncated / foreign file)
        CTX.skip('reader.contract: file not decodable as a complete grid INT by the independent decoder')
        return
    if h.get('typ') == 'FIL' or not np.isfinite(1000.0 * h['wvl'] / h['ssz']):
        return
    got = np.asarray(result[0])
    low = _is32()
    CTX.observe('reader.contract.codev-eq-decoder')
    desc = {'fn': 'read_codev_gridint', 'shape': list(img.shape), 'precision': 32 if low else 64, 'class': 'contract'}
    cls, _ = classify(got, img, (LOWPREC_RTOL if low else 1e-12) * np.abs(np.nan_to_num(img)) + 1e-300)
    if cls != 'ok':
        CTX.violation(f'C14/codev/reader/{cls}' + ('/precision32' if low else ''),
                      f'read_codev_gridint does not return what the file contains (independent decoder): {cls}', desc, max_err_nm=_maxerr(got, img))


def install():
    from prysm import io as pio
    attach(pio, 'read_zygo_dat', post=post_read_zygo_dat)
    attach(pio, 'read_codev_gridint', post=post_read_codev)
    attach(pio, 'write_zygo_dat', pre=pre_write_zygo, post=post_write_zygo)
    attach(pio, 'write_codev_gridint', pre=pre_write_codev, post=post_write_codev)


def install_monitors(ctx):
    global CTX
    CTX = ctx
    import prysm.interferogram  # noqa  (so that its aliases of the io functions are re-bound too)
    install()


# ---------------------------------------------------------------------------------------------- round trips
def write_zygo(path, zin, dx, wl, form, route):
    from prysm import io as pio
    from prysm.interferogram import Interferogram
    if route == 'io':
        if form == 'handle':
            pio.write_zygo_dat(open(path, 'wb'), zin, dx, wavelength=wl)
        elif form == 'pathlib':
            pio.write_zygo_dat(pathlib.Path(path), zin, dx, wavelength=wl)
        elif form == 'kw':
            pio.write_zygo_dat(file=path, phase=zin, dx=dx, wavelength=wl, intensity=None)
        else:
            pio.write_zygo_dat(path, zin, dx, wavelength=wl)
        return None
    if route == 'ifg-default-dx':
        ifg = Interferogram(zin, wavelength=wl)       # dx defaults to 0: no lateral calibration
    else:
        ifg = Interferogram(zin, dx=dx, wavelength=wl)
    ifg.save_zygo_dat(path)
    return ifg


def read_zygo(path, route):
    """(array, dx [mm], wavelength [um], object) through the io function or the Interferogram constructor."""
    from prysm import io as pio
    from prysm.interferogram import Interferogram
    if route == 'io':
        r = pio.read_zygo_dat(path)
        return r['phase'], r['meta']['lateral_resolution'] * 1e3, r['meta']['wavelength'] * 1e6, r
    j = Interferogram.from_zygo_dat(path)
    return j.data, j.dx, j.wavelength, j


def zygo_trip(tmp, tag, z, dx, wl, route, prec):
    """One plain write->read of (z, dx, wl) under `prec` -> class (used for attribution, only on failures)."""
    with precision(prec), warnings.catch_warnings():
        warnings.simplefilter('ignore')
        p2 = os.path.join(tmp, f'{tag}.dat')
        write_zygo(p2, z, dx, wl, 'path', route)
        g, _, _, _ = read_zygo(p2, route)
        return classify(g, z, tolerance(z, float(wl) * 1e3 / 32768, lowprec(z, wl)))[0]


_SCALAR_FAIL = {'dx': False, 'wl': False}


def judge_zygo(ctx, tmp, path, desc, z, dx, wl, got, dx2, wl2, route, mon, keyf, orig=None):
    """Compare what was read with what was written.  keyf(fmt, what) builds the violation key.  Returns the class."""
    from prysm import io as pio
    fmt = 'zygo' if route == 'io' else 'ifg'
    step = float(wl) * 1e3 / 32768
    low = lowprec(z, wl)
    tol = tolerance(z, step, low)
    cls, _ = classify(got, z, tol)
    ctx.observe(mon)
    if cls != 'ok':
        key_fmt = fmt
        detail = {}
        raw = open(path, 'rb').read()
        try:
            rimg, _, _, _ = ref.zygo_read(raw)
            detail['file_decoded_independently'] = classify(rimg, z, tol)[0]
        except Exception as e:  # noqa
            detail['file_decoded_independently'] = 'undecodable: ' + repr(e)[:80]
        if route != 'io':
            # same mechanism as the io-level pair?  then it is the io-level defect, not one of the Interferogram layer
            with warnings.catch_warnings():
                warnings.simplefilter('ignore')
                try:
                    cls_io, _ = classify(pio.read_zygo_dat(path)['phase'], z, tol)
                except Exception:  # noqa
                    cls_io = None
            if cls_io == cls:
                key_fmt = 'zygo'

        def reproduces(parts):
            z2, w2, prec = with_parts(z, wl, parts)
            return zygo_trip(tmp, f'attr{ctx.shard}', z2, float(dx), w2, route, prec) != 'ok'
        suffix = attribute_cfg(cfg_parts(z, wl, orig=orig), reproduces)
        ctx.violation(layout_key(keyf(key_fmt, cls + suffix)), f'Zygo .dat write->read ({route}) does not return the map that was written: {cls}',
                      desc, got_shape=list(np.shape(got)), max_err_nm=_maxerr(got, z), step_nm=step, **detail)
    ok_dx, ok_wl = abs(float(dx2) - float(dx)) <= scalar_tol(dx, low), abs(float(wl2) - float(wl)) <= scalar_tol(wl, low)
    _SCALAR_FAIL.update(dx=not ok_dx, wl=not ok_wl)       # read by key builders that name the regime of the scalar that failed
    ok = ok_dx and ok_wl
    ctx.require(mon + '.dx-wavelength', ok, keyf(fmt, 'dx-or-wavelength'), 'dx / wavelength not returned to float32 resolution',
                desc, dx=[float(dx), float(dx2)], wavelength=[float(wl), float(wl2)])
    return cls if ok else cls + '+dx-or-wavelength'


def rt_zygo(ctx, tmp, desc, z, dx, wl, form, route, resave=False, part=''):
    """`part`: class label of the structural / magnitude sweep the case belongs to (`size:...` / `scale:...` / `special:...`); it is
    put into the key only when the plain round trips of this process did not show the same failure (then it is not specific)."""
    path = os.path.join(tmp, f'z{ctx.shard}.dat')
    fmt = 'zygo' if route == 'io' else 'ifg'
    mon = 'roundtrip.zygo' if route == 'io' else 'roundtrip.ifg'
    plain = lambda f, w: part_key(ctx, f, part, w)     # noqa: E731
    with ctx.guard(part_key(ctx, fmt, part, 'roundtrip'), desc):
        zin = z.copy(order='K') if z.flags.c_contiguous or z.flags.f_contiguous else z
        keep = np.array(z, copy=True)
        write_zygo(path, zin, dx, wl, form, route)
        # reader argument form: the file name as str or as pathlib.Path (both accepted today), alternating
        got, dx2, wl2, obj = read_zygo(pathlib.Path(path) if desc.get('k', 0) % 2 else path, route)
        ctx.require('writer.input-untouched', np.array_equal(zin, keep, equal_nan=True), f'C14/{fmt}/writer-mutates-input',
                    'the writer modified the caller\'s array', desc)
        cls = judge_zygo(ctx, tmp, path, desc, keep, dx, wl, got, dx2, wl2, route, mon, plain, orig=zin)
        if resave and cls == 'ok':
            # write what the reader returned (its dtype, its NaNs, its strides, its scalars) and read that back: a plain
            # round trip whose input came from the reader, so it is keyed like one
            path2 = os.path.join(tmp, f'zr{ctx.shard}.dat')
            d2 = dict(desc, resave=True, dtype=str(got.dtype), **{'class': desc['class'] + ':resave'})
            again = np.array(got, copy=True)
            if route == 'io':
                write_zygo(path2, got, dx2, wl2, 'path', 'io')
            else:
                obj.save_zygo_dat(path2)
            ctx.require('writer.input-untouched', np.array_equal(got, again, equal_nan=True), f'C14/{fmt}/writer-mutates-input',
                        'the writer modified the caller\'s array', d2)
            got3, dx3, wl3, _ = read_zygo(path2, route)
            ctx.require('reader.earlier-result-untouched', np.array_equal(got, again, equal_nan=True), 'C14/zygo/reader-overwrites-earlier-result',
                        'a later read changed the array an earlier read had returned to the caller', d2)
            judge_zygo(ctx, tmp, path2, d2, again, dx2, wl2, got3, dx3, wl3, route, mon + '.resave', plain)


def codev_trip(tmp, tag, z, prec):
    from prysm import io as pio
    with precision(prec), warnings.catch_warnings():
        warnings.simplefilter('ignore')
        p2 = os.path.join(tmp, f'{tag}.int')
        write_codev(p2, z, 'path')
        g = pio.read_codev_gridint(p2)[0]
        _, hdr, _ = ref.codev_split(open(p2).read())
        h = ref.codev_header(hdr)
        return classify(g, z, _codev_tol(z, 1000.0 * h['wvl'] / abs(h['ssz'])))[0]


def judge_codev(ctx, tmp, path, desc, z, got, mon, keyf, orig=None):
    text = open(path).read()
    detail = {}
    try:
        _, hdr, start = ref.codev_split(text)
        h = ref.codev_header(hdr)
        step = 1000.0 * h['wvl'] / abs(h['ssz'])
        zf = np.asarray(z, dtype=float)
        want = np.rint(np.nan_to_num(zf[::-1].ravel() / 1e3 / h['wvl'] * h['ssz']))
        overflow = bool((np.abs(want) > 32767).any())
        detail = {'header': hdr, 'int16_range_used': float(np.abs(want).max() / 32767)}
        if np.abs(want).max() < 16384 and np.nanmax(np.abs(zf)) > 0:
            ctx.event('codev: less than half of the int16 range used (reported, not asserted)')
    except Exception as e:  # noqa
        ctx.violation(keyf('written-header-undecodable'), f'independent decoder cannot parse the written header: {e!r}', desc)
        return None
    if not np.isfinite(step):
        ctx.skip('codev: declared step not finite')
        return None
    tol = _codev_tol(z, step)
    cls, _ = classify(got, z, tol)
    ctx.observe(mon)
    if cls != 'ok':
        if cls in ('value>1step', 'nan-mask') and overflow:
            # |value * declared SSZ| exceeds int16: wrapped samples are wrong, and the ones that wrap onto the
            # NDA sentinel -32768 come back as NaN
            cls = 'scale-overflows-int16'
        try:
            rimg, _, _ = ref.codev_read(text)
            detail['file_decoded_independently'] = classify(rimg, z, tol)[0]
        except Exception as e:  # noqa
            detail['file_decoded_independently'] = 'undecodable: ' + repr(e)[:80]

        def reproduces(parts):
            z2, _, prec = with_parts(z, None, parts)
            return codev_trip(tmp, f'attr{ctx.shard}', z2, prec) != 'ok'
        suffix = attribute_cfg(cfg_parts(z, orig=orig), reproduces)
        ctx.violation(layout_key(keyf(cls + suffix)), f'Code V grid INT write->read does not return the map that was written: {cls}',
                      desc, got_shape=list(np.shape(got)), max_err_nm=_maxerr(got, z), step_nm=step, **detail)
    return cls


def write_codev(path, zin, form):
    from prysm import io as pio
    kw = {}
    if form == 'wfr-nnb':
        kw = {'typ': 'WFR', 'nnb': True, 'comment': 'verif map'}
    elif form == 'lower-typ':
        kw = {'typ': 'sur'}
    if form == 'kw':
        pio.write_codev_gridint(array=zin, filename=path, comment='kw form', typ='SUR', nnb=False)
    else:
        pio.write_codev_gridint(zin, pathlib.Path(path) if form == 'pathlib' else path, **kw)


def rt_codev(ctx, tmp, desc, z, form, resave=False, part=''):
    from prysm import io as pio
    path = os.path.join(tmp, f'c{ctx.shard}.int')
    plain = lambda w: part_key(ctx, 'codev', part, w)     # noqa: E731
    with ctx.guard(part_key(ctx, 'codev', part, 'roundtrip'), desc):
        zin = z.copy(order='K') if z.flags.c_contiguous or z.flags.f_contiguous else z
        keep = np.array(z, copy=True)
        write_codev(path, zin, form)
        got, meta = pio.read_codev_gridint(pathlib.Path(path) if desc.get('k', 0) % 2 else path)
        ctx.require('writer.input-untouched', np.array_equal(zin, keep, equal_nan=True), 'C14/codev/writer-mutates-input',
                    'the writer modified the caller\'s array', desc)
        cls = judge_codev(ctx, tmp, path, desc, keep, got, 'roundtrip.codev', plain, orig=zin)
        if resave and cls == 'ok':
            path2 = os.path.join(tmp, f'cr{ctx.shard}.int')
            d2 = dict(desc, resave=True, dtype=str(got.dtype), **{'class': desc['class'] + ':resave'})
            again = np.array(got, copy=True)
            write_codev(path2, got, 'path')
            ctx.require('writer.input-untouched', np.array_equal(got, again, equal_nan=True), 'C14/codev/writer-mutates-input',
                        'the writer modified the caller\'s array', d2)
            got3, _ = pio.read_codev_gridint(path2)
            ctx.require('reader.earlier-result-untouched', np.array_equal(got, again, equal_nan=True), 'C14/codev/reader-overwrites-earlier-result',
                        'a later read changed the array an earlier read had returned to the caller', d2)
            judge_codev(ctx, tmp, path2, d2, again, got3, 'roundtrip.codev.resave', plain)


ZFORMS = ['path', 'handle', 'pathlib', 'kw']
CFORMS = ['path', 'wfr-nnb', 'pathlib', 'lower-typ', 'kw']


def uncalibrated_first(ctx, tmp):
    """dx == 0 ("no lateral calibration", the Interferogram default) BEFORE this process has written any calibrated file:
    a wrong spacing here cannot be a left-over of an earlier write, so it is keyed as a plain round-trip failure."""
    shapes = [(2, 3), (4, 4), (1, 5), (6, 2)]
    k = -1
    for si, shape in enumerate(shapes):
        for route, zero in (('zygo', 0), ('ifg-default-dx', None), ('zygo', 0.0), ('ifg', 0), ('zygo', np.float64(0)), ('ifg', np.float32(0))):
            for ci, (dt, prec) in enumerate(CFGS):
                k += 1
                if not ctx.mine(si * len(CFGS) + ci):        # every shard starts with all six forms for some (shape, configuration)
                    continue
                rng = np.random.default_rng([ctx.seed, 140, k])
                wl = float(rng.uniform(0.4, 2.0))
                z = make_values('mixed', shape, rng, 'zygo', wl)
                ncls = put_nans(NAN_CLASSES[k % 4], z, rng)
                z = z.astype(dt)
                rname = 'zygo' if route == 'zygo' else 'ifg'
                desc = {'wl': 'roundtrip', 'route': route, 'shape': shape, 'values': 'mixed', 'nan': ncls, 'dx': 0.0, 'wavelength': wl,
                        'dx_arg': 'default' if zero is None else type(zero).__name__, 'dtype': dt, 'precision': prec, 'k': k,
                        'class': f'rt:{rname}:uncalibrated-before-any-calibrated-write:{dt}/p{prec}'}
                ctx.case(desc)
                path = os.path.join(tmp, f'z{ctx.shard}.dat')
                with precision(prec), ctx.guard(f'C14/{rname}/roundtrip', desc):
                    keep = np.array(z, copy=True)
                    write_zygo(path, z, zero, wl, 'path', 'io' if route == 'zygo' else route)
                    got, dx2, wl2, obj = read_zygo(path, 'io' if route == 'zygo' else 'ifg')
                    judge_zygo(ctx, tmp, path, desc, keep, 0.0, wl, got, dx2, wl2, 'io' if route == 'zygo' else 'ifg',
                               'roundtrip.' + rname, lambda f, w: f'C14/{f}/{w}')
                    if rname == 'ifg':
                        ctx.require('roundtrip.ifg.latcal-flag', not getattr(obj, '_latcaled', False), 'C14/ifg/latcal-flag',
                                    'an Interferogram loaded from a file written without lateral calibration claims to be calibrated', desc)


def roundtrips(ctx, tmp):
    uncalibrated_first(ctx, tmp)
    cases = []
    for shape in SHAPES_ENUM[:ctx.pick(14, len(SHAPES_ENUM))]:
        for v in VALUE_CLASSES:
            for n in NAN_CLASSES:
                cases.append((shape, v, n, None))
    nrand = ctx.pick(200, 40000)
    rs = np.random.default_rng([ctx.seed, 14014])
    hi = ctx.pick(24, 160)
    for _ in range(nrand):
        kind = int(rs.integers(6))
        a, b = int(rs.integers(1, hi + 1)), int(rs.integers(1, hi + 1))
        long = int(rs.integers(hi, 12 * hi))                     # extreme aspect ratios
        shape = [(a, b), (a, a), (1, b + 1), (a + 1, 1), (1 + a % 3, long), (long, 1 + b % 3)][kind]
        cases.append((shape, VALUE_CLASSES[int(rs.integers(len(VALUE_CLASSES)))], NAN_CLASSES[int(rs.integers(len(NAN_CLASSES)))],
                      int(rs.integers(len(CFGS) + 1))))
    n_enum = len(cases) - nrand
    for k, (shape, vcls, ncls, cfgpick) in enumerate(cases):
        if not ctx.mine(k):
            continue
        rng = np.random.default_rng([ctx.seed, 14, k])
        dx0 = float(10 ** rng.uniform(-4, 2))
        wl0 = float(10 ** rng.uniform(np.log10(0.2), np.log10(12)))
        int_ok = ncls == 'none' and vcls in ('mixed', 'pos-small', 'pos-large', 'neg', 'const+', 'const-', 'zero', 'nonneg-zero')
        if cfgpick is None:
            cfgs = list(CFGS)
            if int_ok:
                cfgs.append(INT_CFGS[(k // 4) % len(INT_CFGS)])
        elif cfgpick == len(CFGS):
            cfgs = [INT_CFGS[k % len(INT_CFGS)]] if int_ok else [CFGS[0]]
        else:
            cfgs = [CFGS[cfgpick]]
        for ci, (dt, prec) in enumerate(cfgs):
            for ri, route in enumerate(('zygo', 'ifg', 'codev')):
                # selectors of argument forms / scalar types / layouts / re-saves: each mixes the case number, the configuration
                # and the route differently, so that every writer meets every form (a single running counter tied them to the route)
                variant = k // ctx.nshards + ci + ri
                fmt = 'codev' if route == 'codev' else 'zygo'
                sk = SCALARS[variant % 3] if route != 'codev' else 'py'
                wl = as_scalar(wl0, sk)
                dx = as_scalar(dx0, SCALARS[(variant // 3 + ri) % 3]) if route != 'codev' else dx0
                zm = make_values(vcls, shape, rng, fmt, float(wl))
                ncls_eff = put_nans(ncls, zm, rng)
                if not np.isfinite(zm).any():
                    ctx.skip('all-NaN map (outside the domain)')
                    continue
                if dt == 'int16':
                    zm = np.clip(zm, -3e4, 3e4)
                z = as_dtype(zm, dt)
                if fmt == 'zygo' and dt == 'float32' and vcls == 'huge':
                    # float32 rounding of the map must not push it past the int32 range of the format
                    lim = 0.93 * 2 ** 31 * float(wl) * 1e3 / 32768
                    z = np.clip(z, -lim, lim).astype(dt)
                v2 = k // ctx.nshards + 2 * ci + ri
                layout = LAYOUTS[(v2 // 3 + ci) % 4] if (v2 % 3 == 0) else 'C'
                z = as_layout(z, layout)
                v3 = k // ctx.nshards + 3 * ci + 2 * ri
                form = (CFORMS[v3 % len(CFORMS)] if route == 'codev' else ZFORMS[v3 % len(ZFORMS)])
                resave = (variant % 4 == 1) or (ncls_eff != 'none' and v3 % 2 == 1)
                cfgname = f'{dt}/p{prec}'
                desc = {'wl': 'roundtrip', 'route': route, 'shape': shape, 'values': vcls, 'nan': ncls_eff, 'form': form, 'k': k,
                        'layout': layout, 'dtype': dt, 'precision': prec, 'resave': bool(resave),
                        'class': f'rt:{route}:{shape_class(shape)}:{vcls}:{ncls_eff}:{cfgname}'}
                if route != 'codev':
                    desc['dx'], desc['wavelength'], desc['scalars'] = float(dx), float(wl), sk
                ctx.case(desc, nontrivial=z.size >= 2)
                with precision(prec):
                    if route == 'codev':
                        rt_codev(ctx, tmp, desc, z, form, resave=resave)
                    else:
                        rt_zygo(ctx, tmp, desc, z, dx, wl, form, 'io' if route == 'zygo' else 'ifg', resave=resave)
    ctx.note('roundtrips', f'{n_enum} enumerated (shape, values, NaN) classes x {len(CFGS)} configurations (+ an integer container for '
             f'NaN-free maps) x 3 routes; {nrand} random; about a third re-saved from the reader\'s result')


# ---------------------------------------------------------------------------------------------- memory layouts (class A / E)
ALL_LAYOUTS = ['C', 'F', 'T', 'R', 'S', 'N', 'FS']
LAYOUT_SHAPES = [(2, 3), (3, 2), (5, 8), (8, 5), (4, 4), (7, 3), (2, 9), (6, 6), (3, 11), (12, 5)]


def layouts(ctx, tmp):
    """Every writer (io.write_zygo_dat in its argument forms, Interferogram.save_zygo_dat, io.write_codev_gridint in its
    argument forms) sees every memory layout of the same map: C, Fortran, transposed view, rot90 view, strided slice,
    negative strides, strided slice of a Fortran block -- non-square and square shapes with both dimensions > 1, content that
    is asymmetric under every flip / transposition (ramp + asymmetric NaN blob), all data dtype x precision configurations.
    The file must not depend on the strides; a failure that the C-ordered copy of the same map does not show is keyed
    `.../column-major-layout` or `.../non-contiguous-layout`."""
    shapes = LAYOUT_SHAPES[:ctx.pick(6, len(LAYOUT_SHAPES))]
    rs = np.random.default_rng([ctx.seed, 14140])
    for _ in range(ctx.pick(0, 1500)):
        shapes.append((int(rs.integers(2, 40)), int(rs.integers(2, 40))))
    k = -1
    for si, shape in enumerate(shapes):
        for layout in ALL_LAYOUTS:
            for ri, route in enumerate(('zygo', 'ifg', 'codev')):
                k += 1
                if not ctx.mine(k):
                    continue
                rng = np.random.default_rng([ctx.seed, 1415, k])
                ci = (si + ALL_LAYOUTS.index(layout) + ri) % (len(CFGS) + 1)
                dt, prec = CFGS[ci] if ci < len(CFGS) else INT_CFGS[k % len(INT_CFGS)]
                wl = float(rng.uniform(0.4, 2.0))
                dx = float(10 ** rng.uniform(-3, 1))
                H, W = shape
                # asymmetric content: a ramp that is different along the two axes plus noise; NaN blob for float containers
                zm = (np.arange(H)[:, None] * 37.0 - np.arange(W)[None, :] * 11.0) + rng.standard_normal(shape) * 3 + 5.0
                ncls = 'none'
                if np.dtype(dt).kind == 'f' and (k // 3) % 2 == 0:
                    ncls = put_nans('blob', zm, rng)
                z = as_layout(as_dtype(zm, dt), layout)
                form = (CFORMS if route == 'codev' else ZFORMS)[(k // 7) % (len(CFORMS) if route == 'codev' else len(ZFORMS))]
                desc = {'wl': 'layout', 'route': route, 'shape': shape, 'layout': layout, 'strides': list(z.strides), 'dtype': dt, 'precision': prec,
                        'nan': ncls, 'form': form, 'k': k, 'class': f'layout:{route}:{layout}:{shape_class(shape)}:{dt}/p{prec}'}
                if route != 'codev':
                    desc['dx'], desc['wavelength'] = dx, wl
                ctx.case(desc)
                ctx.observe('layout.' + route)
                with precision(prec):
                    if route == 'codev':
                        rt_codev(ctx, tmp, desc, z, form, resave=False)
                    else:
                        rt_zygo(ctx, tmp, desc, z, dx, wl, form, 'io' if route == 'zygo' else 'ifg', resave=False)
    ctx.note('layouts', f'{len(shapes)} shapes x {len(ALL_LAYOUTS)} memory layouts x 3 writers (argument forms rotating), asymmetric content')


# ---------------------------------------------------------------------------------------------- structural sweep (class I)
RECORD = 585          # values per record of a Code V grid INT file (4096 characters / 7): counts around its multiples are boundaries
COUNT_SHAPES_EXTRA = [(13, 45), (45, 13), (39, 15), (15, 39), (45, 52), (52, 45), (2, 585), (585, 2), (3, 390), (65, 27), (45, 65),
                      (24, 24), (25, 117), (584, 1), (1, 586), (2, 293), (293, 2), (7, 167), (1, 1171), (1169, 1)]


def _factor(n):
    """(r, c) with r * c == n and r the largest divisor <= sqrt(n)."""
    r = int(np.sqrt(n))
    while n % r:
        r -= 1
    return r, n // r


def size_class(n):
    return 'count=k*585' if n % RECORD == 0 else 'count<585' if n < RECORD else 'count>585'


def counts(ctx, tmp):
    """Class I.  Writers that pack samples into records (Code V: <= 585 values per line) or blocks depend on the *number of
    samples*, so every sample count 1 .. N is realised at least once per format instead of being sampled (N = 1400 quick, 5000
    thorough): as 1 x n or n x 1 and, when n is composite, as its most nearly square factorisation r x c (either orientation),
    plus shapes whose count is a multiple of 585 (13 x 45, 39 x 15, 45 x 52, ...).  thorough: every (rows, cols) up to 64 x 64 as
    well.  Content: mixed signs with an asymmetric ramp, NaN patterns rotating, data dtype / precision rotating; judged as every
    round trip.  A failure the plain round trips did not show is keyed `C14/<fmt>/size:<count class>/...`."""
    N = ctx.pick(1400, 5000)
    todo = []
    for n in range(1, N + 1):
        line = (1, n) if n % 2 else (n, 1)
        r, c = _factor(n)
        shapes = [line]
        if r > 1:
            shapes.append((r, c) if n % 4 < 2 else (c, r))
        if not ctx.quick:
            shapes.append(line[::-1])
            if r > 1:
                shapes.append((c, r) if n % 4 < 2 else (r, c))
        for sh in dict.fromkeys(shapes):
            todo.append(sh)
    todo += COUNT_SHAPES_EXTRA
    if not ctx.quick:
        todo += [(a, b) for a in range(1, 65) for b in range(1, 65)]
    k = -1
    for sh in todo:
        n = sh[0] * sh[1]
        for ri, route in enumerate(('codev', 'zygo', 'ifg')):
            k += 1
            if not ctx.mine(k // 3):       # the three routes of one shape on the same shard
                continue
            if route == 'ifg' and ctx.quick and n % 5 and n % RECORD:
                continue                    # the Interferogram pair shares the io writer: every 5th count in the quick tier
            rng = np.random.default_rng([ctx.seed, 1418, k])
            ci = (k // 3) % 8
            dt, prec = CFGS[ci - 4] if ci >= 4 else CFGS[0]          # half of the cases in the default configuration
            wl = float(rng.uniform(0.4, 2.0))
            dx = float(10 ** rng.uniform(-3, 1))
            H, W = sh
            zm = (np.arange(H)[:, None] * 3.0 - np.arange(W)[None, :] * 0.7) + rng.standard_normal(sh) * 40 + 1.5
            ncls = put_nans(NAN_CLASSES[(k // 3) % 4], zm, rng) if n > 1 else 'none'
            z = as_dtype(zm, dt)
            form = (CFORMS if route == 'codev' else ZFORMS)[(k // 5) % (len(CFORMS) if route == 'codev' else len(ZFORMS))]
            scls = size_class(n)
            desc = {'wl': 'count-sweep', 'route': route, 'shape': sh, 'count': n, 'nan': ncls, 'dtype': dt, 'precision': prec, 'form': form, 'k': k,
                    'class': f'count:{route}:{scls}:{shape_class(sh)}'}
            if route != 'codev':
                desc['dx'], desc['wavelength'] = dx, wl
            ctx.case(desc, nontrivial=n >= 2)
            ctx.observe('counts.' + route)
            with precision(prec):
                if route == 'codev':
                    rt_codev(ctx, tmp, desc, z, form, part='size:' + scls)
                else:
                    rt_zygo(ctx, tmp, desc, z, dx, wl, form, 'io' if route == 'zygo' else 'ifg', part='size:' + scls)
    ctx.note('count_sweep', f'every sample count 1..{N} per format (1xn / nx1 and the most nearly square factorisation), multiples of 585'
             + ('' if ctx.quick else ', every (rows, cols) up to 64 x 64'))


# ---------------------------------------------------------------------------------------------- magnitudes and units (class G)
HEIGHT_SCALES = [1e-9, 1e-7, 1e-5, 1e-3, 1e-1, 1.0, 1e2, 1e4, 1e6]       # nm per unit of the base map (base: |z| of order 1 .. 30)
CODEV_EXTRA_SCALES = [1e-12, 1e9, 1e12]                                     # the text format has no range limit: the writer picks SSZ
WAVELENGTHS = [1e-3, 0.05, 0.6328, 10.6, 1e3]                               # um
SPACINGS = [1e-9, 1e-6, 1e-3, 1.0, 1e3, 1e6, 1e9]                           # mm


def scale_regime(s):
    return 'tiny' if s < 1e-2 else 'huge' if s > 1e2 else 'unit'


def codev_step_law(ctx, tmp, desc, z, zs, s, part):
    """Class G scale law of the Code V pair.  The 16-bit text format carries no unit: the writer chooses the step (WVL / SSZ) from
    the data, so the step declared for `zs` = s * z must be s times the step declared for z -- required only to a factor 4 in either
    direction (a writer is free to round its scale).  A writer that takes a small map for an empty one, clamps a large one, or
    gives up on a flat one declares a step that does not follow the data and loses the content although every sample is still
    "within one declared step"."""
    from prysm import io as pio
    with ctx.guard(f'C14/codev/{part}/step-law', desc), warnings.catch_warnings():
        warnings.simplefilter('ignore')
        pb, ps = os.path.join(tmp, f'sb{ctx.shard}.int'), os.path.join(tmp, f'ss{ctx.shard}.int')
        pio.write_codev_gridint(z, pb)
        pio.write_codev_gridint(zs, ps)
        hb, hs_ = (ref.codev_header(ref.codev_split(open(f).read())[1]) for f in (pb, ps))
        st_b, st_s = 1000.0 * hb['wvl'] / abs(hb['ssz']), 1000.0 * hs_['wvl'] / abs(hs_['ssz'])
        ok = np.isfinite(st_s) and np.isfinite(st_b) and st_s <= 4.0 * s * st_b * (1 + 1e-6) and s * st_b <= 4.0 * st_s * (1 + 1e-6)
        ctx.require('scales.codev.step-law', ok, f'C14/codev/{part}/step-not-proportional-to-heights',
                    'Code V grid INT: the quantisation step declared for s * z is not s x the step declared for z to within a factor 4 '
                    '(the 16-bit range does not follow the magnitude of the map: its content is lost or clipped)', desc,
                    step_nm=st_b, step_scaled_nm=st_s, s=s)


def scales(ctx, tmp):
    """Class G.  The same base map (mixed signs, |z| of order 1 .. 30, asymmetric NaN blob) with its heights scaled by
    1e-9 .. 1e6 (Code V also 1e-12, 1e9, 1e12), the Zygo routes with wavelengths 1e-3 .. 1e3 um and spacings 1e-9 .. 1e9 mm,
    all configurations.  Every file is judged as every round trip (one step of the format as declared in the file, dx and
    wavelength to float32 resolution).  In addition the scale law of the Code V pair: the 16-bit format has no unit, so the
    round-trip error of s * z must be s times that of z -- the step declared for s * z may not exceed 4 x s x (step declared
    for z); a writer that treats a small map as empty, or clamps a large one, breaks exactly this.  Zygo maps beyond the int32
    range of the format are outside the domain (excluded and counted)."""
    from prysm import io as pio
    reps = ctx.pick(2, 200)
    k = -1
    for rep in range(reps):
        for si, hs in enumerate(HEIGHT_SCALES + CODEV_EXTRA_SCALES):
            for ri, route in enumerate(('codev', 'zygo', 'ifg')):
                for wi in range(len(WAVELENGTHS) if route != 'codev' else 1):
                    k += 1
                    if not ctx.mine(k):
                        continue
                    if route != 'codev' and hs in CODEV_EXTRA_SCALES:
                        continue
                    rng = np.random.default_rng([ctx.seed, 1419, k])
                    shape = [(4, 6), (5, 3), (1, 9), (8, 8), (7, 1), (3, 40)][(rep + si) % 6] if rep < 2 else (int(rng.integers(1, 24)), int(rng.integers(2, 24)))
                    dt, prec = CFGS[(rep + si + ri + wi) % 4] if (k % 3) else CFGS[0]
                    base = rng.standard_normal(shape) * 8 + np.arange(shape[1])[None, :] * 0.9
                    base.flat[0], base.flat[-1] = 25.0, -30.0
                    ncls = put_nans(NAN_CLASSES[(k // 2) % 4], base, rng)
                    zm = base * hs
                    reg = scale_regime(hs)
                    desc = {'wl': 'scales', 'route': route, 'shape': shape, 'height_scale_nm': hs, 'nan': ncls, 'dtype': dt, 'precision': prec, 'k': k,
                            'class': f'scale:{route}:{reg}:{dt}/p{prec}'}
                    if route == 'codev':
                        z = as_dtype(zm, dt)
                        ctx.case(desc)
                        ctx.observe('scales.codev')
                        with precision(prec):
                            rt_codev(ctx, tmp, desc, z, CFORMS[k % len(CFORMS)], part=f'scale:{reg}')
                            codev_step_law(ctx, tmp, desc, as_dtype(base, dt), z, hs, f'scale:{reg}')
                        continue
                    # decades from the tables, mantissas random (a spacing of exactly 1e-9 would survive a rounding to 9 decimals)
                    wl = WAVELENGTHS[wi] * (float(rng.uniform(1, 9.99)) if WAVELENGTHS[wi] not in (0.6328, 10.6) else 1.0)
                    dx = SPACINGS[(k // 5 + si + wi) % len(SPACINGS)] * float(rng.uniform(1, 9.99))
                    step = wl * 1e3 / 32768
                    if np.nanmax(np.abs(zm)) / step > 0.9 * 2 ** 31:
                        ctx.skip('scales: Zygo map beyond the int32 range of the format (outside the domain)')
                        continue
                    z = as_dtype(zm, dt)
                    sk = SCALARS[k % 3]
                    desc.update(dx=dx, wavelength=wl, scalars=sk, **{'class': f'scale:{route}:heights-{reg}:{dt}/p{prec}'})
                    ctx.case(desc)
                    ctx.observe('scales.' + route)
                    with precision(prec):
                        def sreg(dx=dx, wl=wl):
                            bad = ([f'dx-{scale_regime(dx)}'] if _SCALAR_FAIL['dx'] else []) + ([f'wavelength-{scale_regime(wl)}'] if _SCALAR_FAIL['wl'] else [])
                            return 'scale:' + '+'.join(bad)
                        rt_zygo(ctx, tmp, desc, z, as_scalar(dx, sk), as_scalar(wl, SCALARS[(k // 3) % 3]), ZFORMS[k % len(ZFORMS)],
                                'io' if route == 'zygo' else 'ifg',
                                part=lambda w, sreg=sreg, reg=reg: sreg() if w.startswith('dx-or-wavelength') else f'scale:heights-{reg}')
    ctx.note('scales', {'height_scales_nm': HEIGHT_SCALES, 'codev_extra': CODEV_EXTRA_SCALES, 'wavelengths_um': WAVELENGTHS, 'dx_mm': SPACINGS,
                        'repetitions': reps})


# ---------------------------------------------------------------------------------------------- special values (class H)
SPECIAL_MAPS = ['constant+', 'constant-', 'all-zero', 'single-valid+', 'single-valid-', 'single-valid-zero', 'constant-with-nan', 'zero-with-nan',
                'two-valid-equal', 'single-nonzero-among-zeros']
# key label of a special map: what the valid samples look like (one defect -> one key)
SPECIAL_GROUP = {'constant+': 'flat-map', 'constant-': 'flat-map', 'single-valid+': 'flat-map', 'single-valid-': 'flat-map', 'constant-with-nan': 'flat-map',
                 'two-valid-equal': 'flat-map', 'all-zero': 'zero-map', 'single-valid-zero': 'zero-map', 'zero-with-nan': 'zero-map',
                 'single-nonzero-among-zeros': 'one-nonzero-sample'}
SPECIAL_SHAPES = [(1, 2), (2, 1), (2, 2), (3, 4), (5, 3), (1, 7), (6, 1), (8, 8), (2, 9), (17, 5)]


def special_map(kind, shape, rng):
    n = int(np.prod(shape))
    v = float(10 ** rng.uniform(-2, 3.5))
    z = np.full(shape, np.nan)
    pos = int(rng.integers(n))
    if kind in ('constant+', 'constant-'):
        z[...] = v if kind.endswith('+') else -v
    elif kind == 'all-zero':
        z[...] = 0.0
    elif kind.startswith('single-valid'):
        z.flat[pos] = {'single-valid+': v, 'single-valid-': -v, 'single-valid-zero': 0.0}[kind]
    elif kind in ('constant-with-nan', 'zero-with-nan'):
        z[...] = v if kind.startswith('constant') else 0.0
        z.flat[pos] = np.nan
    elif kind == 'two-valid-equal':
        z.flat[pos] = -v
        z.flat[(pos + 1 + int(rng.integers(max(n - 1, 1)))) % n] = -v
    else:
        z[...] = 0.0
        z.flat[pos] = v * (1 if rng.random() < 0.5 else -1)
    return z


def specials(ctx, tmp):
    """Class H.  Maps at the values where a shortcut is tempting -- constant, all-zero, one single valid sample (positive,
    negative, exactly zero) in a field of NaN, constant or zero with one invalid sample, one non-zero sample among zeros -- written
    with dx exactly 0 and with a calibrated dx, through every route and configuration.  Judged as every round trip."""
    k = -1
    nrand = ctx.pick(0, 1500)
    rs = np.random.default_rng([ctx.seed, 14200])
    shapes = SPECIAL_SHAPES[:ctx.pick(7, len(SPECIAL_SHAPES))] + [(int(rs.integers(1, 30)), int(rs.integers(1, 30))) for _ in range(nrand)]
    for si, shape in enumerate(shapes):
        for mi, kind in enumerate(SPECIAL_MAPS):
            if int(np.prod(shape)) < 2 and kind in ('two-valid-equal', 'constant-with-nan', 'zero-with-nan'):
                continue
            for ri, route in enumerate(('codev', 'zygo', 'ifg', 'ifg-default-dx')):
                k += 1
                if not ctx.mine(k):
                    continue
                rng = np.random.default_rng([ctx.seed, 1420, k])
                dt, prec = CFGS[(si + mi + ri) % 4] if (k % 2) else CFGS[0]
                zm = special_map(kind, shape, rng)
                z = as_dtype(zm, dt)
                dx = 0.0 if (route == 'ifg-default-dx' or (si + mi) % 2 == 0) else float(10 ** rng.uniform(-3, 1))
                wl = float(rng.uniform(0.4, 2.0))
                rname = 'ifg' if route.startswith('ifg') else route
                desc = {'wl': 'special', 'route': route, 'shape': shape, 'map': kind, 'dtype': dt, 'precision': prec, 'k': k,
                        'class': f'special:{rname}:{kind}:{"dx0" if dx == 0 else "dx"}:{dt}/p{prec}'}
                if route != 'codev':
                    desc['dx'], desc['wavelength'] = dx, wl
                ctx.case(desc)
                ctx.observe('specials.' + rname)
                part = f'special:{SPECIAL_GROUP[kind]}'
                with precision(prec):
                    if route == 'codev':
                        rt_codev(ctx, tmp, desc, z, CFORMS[k % len(CFORMS)], resave=(k % 3 == 0), part=part)
                        if np.nanmax(np.abs(zm)) > 0:
                            s_ = [1e-3, 1e3, 1e-6, 7.0][k % 4]
                            codev_step_law(ctx, tmp, desc, z, as_dtype(zm * s_, dt), s_, part)
                    elif route == 'ifg-default-dx':
                        path = os.path.join(tmp, f'z{ctx.shard}.dat')
                        with ctx.guard(part_key(ctx, 'ifg', part, 'roundtrip'), desc):
                            keep = np.array(z, copy=True)
                            write_zygo(path, z, None, wl, 'path', route)
                            got, dx2, wl2, obj = read_zygo(path, 'ifg')
                            judge_zygo(ctx, tmp, path, desc, keep, 0.0, wl, got, dx2, wl2, 'ifg', 'roundtrip.ifg',
                                       lambda f, w: part_key(ctx, f, part, w))
                    else:
                        rt_zygo(ctx, tmp, desc, z, dx, wl, ZFORMS[k % len(ZFORMS)], 'io' if route == 'zygo' else 'ifg', resave=(k % 3 == 0), part=part)
    ctx.note('specials', {'maps': SPECIAL_MAPS, 'shapes': len(shapes), 'dx': 'exactly 0 for half of the cases and for the Interferogram default'})


# ---------------------------------------------------------------------------------------------- optional arguments in hostile states (class M)
# Every documented optional argument of the writers that is not part of the map / dx / wavelength triple, in the states the ordinary
# workloads never pass.  Established on the current tree (signatures + docstrings): write_zygo_dat(..., intensity=ndarray, optional),
# Interferogram(..., intensity=ndarray optional, meta=dict) -> save_zygo_dat, write_codev_gridint(..., comment=str up to 80 characters).
# The current tree accepts every state below (it ignores the intensity block and the meta dictionary when dx / wavelength are explicit).
INTENSITY_DTYPES = ['uint8', 'uint16', 'int16', 'int32', 'int64', 'float32', 'float64', 'bool']
OPT_SHAPES = [(3, 4), (5, 2), (1, 6), (7, 1), (6, 6), (2, 9), (16, 16), (9, 13)]
CODEV_COMMENTS = [('empty', ''), ('blank', ' '), ('80-characters', 'x' * 80), ('header-keywords', 'GRD 9 9 SUR WVL 2.0 SSZ 5 NDA 7'),
                  ('padded', '  padded  '), ('digits', '12345 678'), ('punctuation', "it's 50% done; #1")]


def intensity_states(shape, rng):
    """[(state label, detail, array or None)]: the optional camera frame in every dtype, with the shape of the map and with other
    shapes, in other memory layouts, with non-finite samples, empty, None."""
    H, W = shape
    out = [('None', 'None', None)]
    for dt in INTENSITY_DTYPES:
        frame = rng.random(shape) * (1.0 if dt == 'bool' else 200.0 if dt == 'uint8' else 4000.0)
        out.append(('array', f'{dt}/same-shape', (frame > 0.5) if dt == 'bool' else frame.astype(dt)))
    others = [(W, H) if H != W else (H, W + 1), (H + 1, W + 2), (1, 3), (2 * H, 2 * W), (max(H - 1, 1), W), (1, 1)]
    for i, sh in enumerate(others):
        dt = ['float64', 'uint16', 'uint8', 'float32', 'int64', 'int32'][i]
        out.append(('array', f'{dt}/other-shape', (rng.random(sh) * 3000).astype(dt)))
    f = rng.random(shape) * 1000
    out.append(('array', 'float64/column-major', np.asfortranarray(f)))
    out.append(('array', 'uint16/strided', as_layout(f.astype('uint16'), 'S')))
    out.append(('array', 'float32/strided', as_layout(f.astype('float32'), 'S')))
    g = f.copy()
    g.flat[0] = np.nan
    g.flat[-1] = np.inf
    out.append(('array', 'float64/non-finite', g))
    out.append(('array', 'float64/normalised', f / f.max()))
    out.append(('empty', 'uint16/(0,0)', np.zeros((0, 0), dtype='uint16')))        # what read_zygo_dat returns for a file without a frame
    out.append(('empty', 'float64/(0,0)', np.zeros((0, 0))))
    out.append(('empty', f'float32/(0,{W})', np.zeros((0, W), dtype='float32')))
    return out


def zygo_with_frames(raw, frames):
    """The bytes of a written .dat with a camera block (n_buckets, h, w) of 16-bit counts inserted between header and phase block and
    the acquisition fields of the header (ac_width 52, ac_height 54, ac_n_buckets 56, ac_range 58, ac_n_bytes 60; big-endian) set."""
    import struct
    hs = ref.zygo_header(raw)['header_size']
    nb, ih, iw = frames.shape
    head = bytearray(raw[:hs])
    struct.pack_into('>HHHH', head, 52, iw, ih, nb, 65535)
    struct.pack_into('>I', head, 60, frames.size * 2)
    return bytes(head) + frames.astype('<u2').tobytes(order='C') + raw[hs:]


def optargs(ctx, tmp):
    """Class M.  The map / dx / wavelength round trip must hold whatever optional blocks travel with the call: write_zygo_dat with
    `intensity=` in every dtype / shape / layout / empty / None (positional and keyword), Interferogram objects that carry an
    `intensity` attribute (given to the constructor, assigned afterwards, or loaded from a file that has a camera block -- as read,
    averaged over buckets, normalised by the caller) and a `meta` dictionary taken from ANOTHER file, saved with save_zygo_dat;
    write_codev_gridint with hostile `comment=` strings.  Judged as every round trip; a failure the plain round trips of this
    process did not show is keyed `C14/<fmt>/arg:<name>=<state>/<symptom>`."""
    from prysm import io as pio
    from prysm.interferogram import Interferogram
    shapes = OPT_SHAPES[:ctx.pick(5, len(OPT_SHAPES))]
    rs = np.random.default_rng([ctx.seed, 14210])
    shapes = shapes + [(int(rs.integers(1, 40)), int(rs.integers(1, 40))) for _ in range(ctx.pick(0, 400))]
    k = -1

    def judge(desc, path, keep, dx, wl, route, part):
        got, dx2, wl2, obj = read_zygo(path, route)
        judge_zygo(ctx, tmp, path, desc, keep, dx, wl, got, dx2, wl2, route, 'optargs.' + ('zygo' if route == 'io' else 'ifg'),
                   lambda f, w: part_key(ctx, f, part, w.split('/')[0]))
        return obj

    for si, shape in enumerate(shapes):
        n_states = len(intensity_states(shape, np.random.default_rng(0)))
        for ii in range(n_states):
            for ri, route in enumerate(('io', 'ifg')):
                k += 1
                if not ctx.mine(k):
                    continue
                rng = np.random.default_rng([ctx.seed, 1421, k])
                state, detail, inten = intensity_states(shape, rng)[ii]
                dt, prec = CFGS[(si + ii) % 4] if (k % 4 == 3) else CFGS[0]
                wl = float(rng.uniform(0.4, 2.0))
                dx = float(10 ** rng.uniform(-3, 1))
                zm = make_values(['mixed', 'pos-small', 'neg'][k % 3], shape, rng, 'zygo', wl)
                ncls = put_nans(NAN_CLASSES[(k // 2) % 4], zm, rng)
                z = as_dtype(zm, dt)
                rname = 'zygo' if route == 'io' else 'ifg'
                metacls = 'None'
                desc = {'wl': 'optargs', 'route': rname, 'shape': shape, 'arg': 'intensity', 'state': state, 'intensity': detail, 'nan': ncls, 'dtype': dt,
                        'precision': prec, 'dx': dx, 'wavelength': wl, 'k': k, 'class': f'optargs:{rname}:intensity={state}:{detail}:{dt}/p{prec}'}
                part = f'arg:intensity={state}'
                path = os.path.join(tmp, f'o{ctx.shard}.dat')
                with precision(prec), ctx.guard(f'C14/{rname}/arg:intensity={state}/roundtrip', desc), warnings.catch_warnings():
                    warnings.simplefilter('ignore')
                    keep = np.array(z, copy=True)
                    if route == 'io':
                        ctx.case(desc, nontrivial=z.size >= 2)
                        if k % 4 < 2:
                            pio.write_zygo_dat(path, z, dx, wl, inten)
                        else:
                            pio.write_zygo_dat(file=path, phase=z, dx=dx, intensity=inten, wavelength=wl)
                    else:
                        how = ['constructor', 'assigned-later', 'constructor+foreign-meta'][(k // 2) % 3]
                        meta = None
                        if how == 'constructor+foreign-meta':
                            # the meta dictionary of another file (other size, spacing, acquisition fields); its wavelength entry agrees
                            # with the explicit argument, which the constructor documents to win anyway
                            po = os.path.join(tmp, f'om{ctx.shard}.dat')
                            pio.write_zygo_dat(po, np.arange(6.0).reshape(2, 3), dx * 3, wavelength=wl)
                            with open(po, 'rb') as fh:
                                raw = fh.read()
                            with open(po, 'wb') as fh:
                                fh.write(zygo_with_frames(raw, (rng.random((2, 3, 2)) * 900).astype('uint16')))
                            meta = dict(pio.read_zygo_dat(po)['meta'])
                            metacls = 'foreign-file'
                            # label: the meta dictionary, unless the same intensity state already failed in this process without one
                            ipart = part
                            part = lambda w, ipart=ipart: ipart if any(k_.startswith(f'C14/ifg/{ipart}/') or k_.startswith(f'C14/zygo/{ipart}/')   # noqa: E731
                                                                       for k_ in ctx.violations) else 'arg:meta=foreign-file'
                        desc.update(how=how, meta=metacls)
                        ctx.case(desc, nontrivial=z.size >= 2)
                        if how == 'assigned-later':
                            ifg = Interferogram(z, dx=dx, wavelength=wl)
                            ifg.intensity = inten
                        else:
                            ifg = Interferogram(z, dx, wl, inten, meta) if k % 4 < 2 else Interferogram(z, dx=dx, wavelength=wl, intensity=inten, meta=meta)
                        if float(ifg.dx) != dx or float(ifg.wavelength) != wl:
                            ctx.skip('optargs: the constructor resolved dx / wavelength differently from the explicit arguments (not judged here)')
                            continue
                        ifg.save_zygo_dat(path)
                    judge(desc, path, keep, dx, wl, route, part)
                    ctx.require('writer.input-untouched', np.array_equal(z, keep, equal_nan=True), f'C14/{rname}/writer-mutates-input',
                                'the writer modified the caller\'s array', desc)

    # objects / dictionaries that come out of the reader of a file WITH a camera block, written again
    k = -1
    for si, shape in enumerate(shapes[:ctx.pick(4, 200)]):
        for bi, (nb, fshape) in enumerate(((1, shape), (3, shape), (2, (shape[0] + 1, shape[1] + 2)), (1, (2, 3)))):
            for ai, action in enumerate(('first', 'avg', 'last', 'first+normalised', 'first+float32', 'first+uint8')):
                for ri, route in enumerate(('io', 'ifg')):
                    k += 1
                    if not ctx.mine(k):
                        continue
                    rng = np.random.default_rng([ctx.seed, 1422, k])
                    dt, prec = CFGS[(si + bi + ai) % 4] if (k % 4 == 3) else CFGS[0]
                    wl = float(rng.uniform(0.4, 2.0))
                    dx = float(10 ** rng.uniform(-3, 1))
                    zm = make_values('mixed', shape, rng, 'zygo', wl)
                    ncls = put_nans(NAN_CLASSES[k % 4], zm, rng)
                    rname = 'zygo' if route == 'io' else 'ifg'
                    desc = {'wl': 'optargs', 'route': rname, 'shape': shape, 'arg': 'intensity', 'state': 'from-reader', 'buckets': nb, 'frame_shape': fshape,
                            'action': action, 'nan': ncls, 'dtype': dt, 'precision': prec, 'dx': dx, 'wavelength': wl, 'k': k,
                            'class': f'optargs:{rname}:intensity=from-reader:{action}:{nb}-buckets:{dt}/p{prec}'}
                    ctx.case(desc, nontrivial=zm.size >= 2)
                    part = 'arg:intensity=from-reader'
                    p0, p1, p2 = (os.path.join(tmp, f'or{ctx.shard}{c}.dat') for c in 'abc')
                    with precision(prec), ctx.guard(part_key(ctx, rname, part, 'roundtrip'), desc), warnings.catch_warnings():
                        warnings.simplefilter('ignore')
                        pio.write_zygo_dat(p0, as_dtype(zm, dt), dx, wavelength=wl)
                        with open(p0, 'rb') as fh:
                            raw = fh.read()
                        with open(p1, 'wb') as fh:
                            fh.write(zygo_with_frames(raw, (rng.random((nb,) + tuple(fshape)) * 4000).astype('uint16')))
                        act = action.split('+')[0]
                        if route == 'io':
                            r = pio.read_zygo_dat(p1, multi_intensity_action=act)
                            m, inten = r['phase'], r['intensity']
                            mdx, mwl = r['meta']['lateral_resolution'] * 1e3, r['meta']['wavelength'] * 1e6
                        else:
                            j = Interferogram.from_zygo_dat(p1, multi_intensity_action=act)
                            m, inten, mdx, mwl = j.data, j.intensity, j.dx, j.wavelength
                        if inten is None or np.shape(inten) != tuple(fshape):
                            ctx.skip('optargs: the reader does not hand out the camera frame of the file (nothing to pass on)')
                            continue
                        if action.endswith('normalised'):
                            inten = inten / max(float(np.max(inten)), 1.0)
                        elif action.endswith('float32'):
                            inten = inten.astype('float32')
                        elif action.endswith('uint8'):
                            inten = (inten // 16).astype('uint8')
                        keep = np.array(m, copy=True)
                        if route == 'io':
                            pio.write_zygo_dat(p2, m, mdx, wavelength=mwl, intensity=inten)
                        else:
                            j.intensity = inten
                            j.save_zygo_dat(p2)
                        judge(dict(desc, dtype=str(keep.dtype)), p2, keep, mdx, mwl, route, part)

    # Code V: hostile comment strings (documented: up to 80 characters)
    k = -1
    for si, shape in enumerate(shapes[:ctx.pick(3, 100)]):
        for ci, (ccls, comment) in enumerate(CODEV_COMMENTS):
            k += 1
            if not ctx.mine(k):
                continue
            rng = np.random.default_rng([ctx.seed, 1423, k])
            dt, prec = CFGS[(si + ci) % 4] if (k % 4 == 3) else CFGS[0]
            zm = make_values(['mixed', 'neg', 'pos-large'][k % 3], shape, rng, 'codev', 1.0)
            ncls = put_nans(NAN_CLASSES[k % 4], zm, rng)
            z = as_dtype(zm, dt)
            desc = {'wl': 'optargs', 'route': 'codev', 'shape': shape, 'arg': 'comment', 'state': ccls, 'nan': ncls, 'dtype': dt, 'precision': prec, 'k': k,
                    'class': f'optargs:codev:comment={ccls}:{dt}/p{prec}'}
            ctx.case(desc, nontrivial=z.size >= 2)
            part = f'arg:comment={ccls}'
            path = os.path.join(tmp, f'oc{ctx.shard}.int')
            with precision(prec), ctx.guard(part_key(ctx, 'codev', part, 'roundtrip'), desc), warnings.catch_warnings():
                warnings.simplefilter('ignore')
                keep = np.array(z, copy=True)
                if k % 2:
                    pio.write_codev_gridint(z, path, comment, ['SUR', 'WFR'][k % 4 // 2], bool(k % 3 == 0))
                else:
                    pio.write_codev_gridint(z, path, comment=comment)
                got, _ = pio.read_codev_gridint(path)
                judge_codev(ctx, tmp, path, desc, keep, got, 'optargs.codev', lambda w: part_key(ctx, 'codev', part, w.split('/')[0]))
    ctx.note('optargs', {'intensity_dtypes': INTENSITY_DTYPES, 'shapes': len(shapes), 'codev_comments': [c for c, _ in CODEV_COMMENTS],
                         'from_reader': 'files with 1-3 camera buckets (inserted by the harness) read with first / avg / last, frame re-typed by the caller'})


# ---------------------------------------------------------------------------------------------- omitted vs explicit defaults
# Documented defaults of the optional arguments (signatures and docstrings of the tree as it is now):
DEFAULTS = {
    'write_zygo_dat': {'wavelength': 0.6328, 'intensity': None},
    'write_codev_gridint': {'comment': 'CV GRD generated by prysm', 'typ': 'SUR', 'nnb': False},
    'Interferogram': {'dx': 0, 'wavelength': 0.6328, 'intensity': None, 'meta': None},
    'read_zygo_dat': {'multi_intensity_action': 'first'},
    'from_zygo_dat': {'multi_intensity_action': 'first'},
}
ZYGO_TIMESTAMP_BYTES = slice(76, 80)     # MetroPro header format 1: time_stamp (the only field that may differ between two writes)


def _zygo_fields(path):
    raw = open(path, 'rb').read()
    img, fdx, fwl, ints = ref.zygo_read(raw)
    return {'shape': list(img.shape), 'dx_mm': fdx, 'wavelength_um': fwl, 'ints': ints, 'phase_res': ref.zygo_header(raw)['phase_res']}


def _codev_fields(path):
    text = open(path).read()
    title, hdr, _ = ref.codev_split(text)
    img, h, ints = ref.codev_read(text)
    return {'title': title, 'nx': h['nx'], 'ny': h['ny'], 'typ': h.get('typ'), 'wvl': h['wvl'], 'ssz': h['ssz'], 'nda': h['nda'], 'nnb': h['nnb'],
            'ints': ints}


def _same_fields(a, b, counts=0):
    """names of the decoded fields in which two files differ; `counts`: allowed difference of the integer samples (0 when both
    calls pass the same numbers in the same types; 1 when the scalar types differ -- a numpy scalar makes numpy carry float32
    data in double, a python float does not, so the truncation to counts may fall on the other side)"""
    out = []
    for k_ in a:
        va, vb = a[k_], b[k_]
        if isinstance(va, np.ndarray):
            if va.shape != vb.shape or not (np.abs(va - vb) <= counts).all():
                out.append(k_)
        elif va != vb:
            out.append(k_)
    return out


def foreign_traffic(ctx, tmp):
    """Class F prelude: the other public consumers of the helpers the writers / readers share (the Zygo header table:
    write_zygo_ascii / Interferogram.save_zygo_ascii / read_zygo_metadata; the Code V ZFR writer; config.precision) called
    with explicit non-default values under both precisions.  Nothing is judged here; a failure is only counted."""
    from prysm import io as pio
    from prysm.interferogram import Interferogram
    rng = np.random.default_rng([ctx.seed, 1417, ctx.shard])
    z = rng.standard_normal((5, 7)) * 40
    z[1, 2] = np.nan
    for prec in (32, 64):
        with precision(prec), warnings.catch_warnings(), contextlib.redirect_stdout(_io.StringIO()):
            warnings.simplefilter('ignore')
            try:
                pio.write_zygo_ascii(os.path.join(tmp, f'f{ctx.shard}.asc'), phase=z, dx=0.37, wavelength=1.55, intensity=None)
                Interferogram(z.astype(np.float32), dx=2.5, wavelength=10.6).save_zygo_ascii(os.path.join(tmp, f'g{ctx.shard}.asc'))
                pf = os.path.join(tmp, f'f{ctx.shard}.dat')
                pio.write_zygo_dat(pf, z[:3, :2], 7.0, wavelength=3.39)
                pio.read_zygo_metadata(open(pf, 'rb').read())
                pio.write_codev_zfr_int([1.0, -2.0, 3.5], os.path.join(tmp, f'f{ctx.shard}.zfr'), comment='foreign', SUR=False)
                ctx.event('foreign-traffic prelude completed')
            except Exception as e:  # noqa  (not a routine of this property)
                ctx.event(f'foreign-traffic prelude: {type(e).__name__} (not judged)')


def defaults(ctx, tmp):
    """Class E x B: every optional argument of the writers / readers omitted vs passed as its documented default, each after
    earlier calls in the same process that passed OTHER explicit values.  Each file is judged on its own (round trip against
    the map and the documented default; writer contract against the independent decoder) and the two files (omitted /
    explicit default) must decode to the same fields."""
    from prysm import io as pio
    from prysm.interferogram import Interferogram
    nrep = ctx.pick(6, 1200)
    k = -1
    for rep in range(nrep):
        for target in ('zygo:wavelength', 'zygo:intensity', 'zygo:wavelength-positional', 'ifg:wavelength', 'ifg:dx+wavelength', 'codev:typ', 'codev:nnb',
                       'codev:comment', 'codev:all', 'read_zygo:multi_intensity_action', 'from_zygo_dat:multi_intensity_action',
                       'zygo:integer-scalars', 'codev:typ-case'):
            k += 1
            if not ctx.mine(k):
                continue
            rng = np.random.default_rng([ctx.seed, 1416, k])
            shape = [(3, 4), (4, 3), (2, 5), (5, 5), (6, 2)][int(rng.integers(5))] if rep else (3, 4)
            dt, prec = CFGS[rep % 4] if rep >= 2 else CFGS[0]
            HENE = DEFAULTS['write_zygo_dat']['wavelength']
            other_wl = float(rng.uniform(0.9, 10.6))
            dx = float(10 ** rng.uniform(-3, 1))
            z = make_values('mixed', shape, rng, 'zygo', HENE)
            ncls = put_nans(NAN_CLASSES[k % 4], z, rng)
            z = z.astype(dt)
            zo = (make_values('pos-large', shape[::-1], rng, 'zygo', other_wl)).astype(dt)      # the map of the earlier, explicit call
            desc = {'wl': 'defaults', 'target': target, 'shape': shape, 'dtype': dt, 'precision': prec, 'nan': ncls, 'dx': dx,
                    'earlier_explicit': {'wavelength': other_wl}, 'rep': rep, 'class': f'defaults:{target}:{dt}/p{prec}'}
            ctx.case(desc)
            pa, pb, pc = (os.path.join(tmp, f'd{ctx.shard}{c}.{"int" if target.startswith("codev") else "dat"}') for c in 'abc')
            fam, arg = target.split(':')
            arg = 'wavelength' if arg == 'wavelength-positional' else arg
            key = f'C14/{ {"zygo": "zygo", "ifg": "ifg", "codev": "codev", "read_zygo": "zygo", "from_zygo_dat": "ifg"}[fam] }/form:{arg}=omitted'.replace(' ', '')
            step = HENE * 1e3 / 32768
            with precision(prec), ctx.guard(key, desc), warnings.catch_warnings():
                warnings.simplefilter('ignore')
                keep = np.array(z, copy=True)
                if fam in ('zygo', 'ifg'):
                    # earlier traffic with explicit non-default values (io function and method form)
                    pio.write_zygo_dat(pc, zo, dx * 3, wavelength=other_wl, intensity=None)
                    Interferogram(zo, dx=dx * 2, wavelength=other_wl * 0.5).save_zygo_dat(pc)
                    want_dx, want_wl = dx, HENE
                    if target == 'zygo:wavelength':
                        pio.write_zygo_dat(pa, z, dx)
                        pio.write_zygo_dat(pc, zo, dx * 3, wavelength=other_wl)
                        pio.write_zygo_dat(pb, z, dx, wavelength=HENE)
                    elif target == 'zygo:wavelength-positional':
                        pio.write_zygo_dat(pa, z, dx)
                        pio.write_zygo_dat(pc, zo, dx * 3, other_wl)
                        pio.write_zygo_dat(pb, z, dx, HENE, None)
                    elif target == 'zygo:intensity':
                        pio.write_zygo_dat(pa, z, dx, wavelength=HENE)
                        pio.write_zygo_dat(pb, z, dx, wavelength=HENE, intensity=None)
                    elif target == 'zygo:integer-scalars':
                        # dx and wavelength as python / numpy integers: the same numbers as their float forms
                        want_dx, want_wl = float(int(rng.integers(1, 5))), 1.0
                        step = want_wl * 1e3 / 32768
                        ints = [(int(want_dx), 1), (np.int64(want_dx), np.int32(1)), (np.int32(want_dx), np.int64(1))][rep % 3]
                        pio.write_zygo_dat(pa, z, ints[0], wavelength=ints[1])
                        pio.write_zygo_dat(pb, z, want_dx, wavelength=want_wl)
                        key = 'C14/zygo/form:dx+wavelength=integer'
                    elif target == 'ifg:wavelength':
                        Interferogram(z, dx=dx).save_zygo_dat(pa)
                        Interferogram(zo, dx=dx, wavelength=other_wl).save_zygo_dat(pc)
                        Interferogram(z, dx=dx, wavelength=HENE, intensity=None, meta=None).save_zygo_dat(pb)
                    else:   # ifg:dx+wavelength
                        want_dx = 0.0
                        Interferogram(z).save_zygo_dat(pa)
                        Interferogram(zo, dx=dx, wavelength=other_wl).save_zygo_dat(pc)
                        Interferogram(z, 0, HENE).save_zygo_dat(pb)
                    ctx.observe('defaults.zygo')
                    route = 'io' if fam == 'zygo' else 'ifg'
                    # the explicit call is an ordinary round trip (plain keys); the omitting call gets ONE key per (format, argument)
                    got, dx2, wl2, _ = read_zygo(pb, route)
                    cls_b = judge_zygo(ctx, tmp, pb, dict(desc, file='explicit'), keep, want_dx, want_wl, got, dx2, wl2, route,
                                       'defaults.' + ('zygo' if fam == 'zygo' else 'ifg'), lambda f, w: f'C14/{f}/{w}')
                    fa, fb = _zygo_fields(pa), _zygo_fields(pb)
                    diff = _same_fields(fa, fb, counts=1 if target == 'zygo:integer-scalars' else 0)
                    got, dx2, wl2, _ = read_zygo(pa, route)
                    low = lowprec(keep, want_wl)
                    cls_a = classify(got, keep, tolerance(keep, step, low))[0]
                    ok_s = abs(float(dx2) - want_dx) <= scalar_tol(want_dx, low) and abs(float(wl2) - want_wl) <= scalar_tol(want_wl, low)
                    symptoms = ([f'file differs from the explicit-default file in {diff}'] if diff else []) + ([f'map: {cls_a}'] if cls_a != 'ok' else []) + \
                        ([f'dx / wavelength read back as {float(dx2)!r} / {float(wl2)!r}'] if not ok_s else [])
                    ctx.require('defaults.omitted-eq-explicit', not symptoms or cls_b != 'ok', key,
                                ('write with dx / wavelength handed over as python / numpy integers (same numbers as the float call): '
                                 if target == 'zygo:integer-scalars' else
                                 f'write with {arg} omitted (documented default) after earlier writes with other explicit values: ') + '; '.join(symptoms),
                                desc, fields=diff, omitted={k_: v_ for k_, v_ in fa.items() if k_ != 'ints'},
                                explicit={k_: v_ for k_, v_ in fb.items() if k_ != 'ints'})
                elif fam == 'codev':
                    D = DEFAULTS['write_codev_gridint']
                    pio.write_codev_gridint(zo, pc, comment='some other comment', typ='WFR', nnb=True)
                    kw_omit, kw_expl = {}, dict(D)
                    if arg == 'typ':
                        kw_omit = {'comment': D['comment'], 'nnb': D['nnb']}
                    elif arg == 'nnb':
                        kw_omit = {'comment': D['comment'], 'typ': D['typ']}
                    elif arg == 'comment':
                        kw_omit = {'typ': D['typ'], 'nnb': D['nnb']}
                    elif arg == 'typ-case':
                        kw_omit = {'typ': ['sur', 'Sur', 'sUR'][rep % 3]}
                        key = 'C14/codev/form:typ=letter-case'
                    pio.write_codev_gridint(z, pa, **kw_omit)
                    pio.write_codev_gridint(zo, pc, 'x', 'wfr', True)
                    if rep % 2:
                        pio.write_codev_gridint(z, pb, D['comment'], D['typ'], D['nnb'])
                    else:
                        pio.write_codev_gridint(array=z, filename=pb, **kw_expl)
                    ctx.observe('defaults.codev')
                    got, _ = pio.read_codev_gridint(pb)
                    cls_b = judge_codev(ctx, tmp, pb, dict(desc, file='explicit'), keep, got, 'defaults.codev', lambda w: f'C14/codev/{w}')
                    fa, fb = _codev_fields(pa), _codev_fields(pb)
                    diff = _same_fields(fa, fb)
                    got, _ = pio.read_codev_gridint(pa)
                    st_ = 1000.0 * fa['wvl'] / abs(fa['ssz'])
                    cls_a = classify(got, keep, _codev_tol(keep, st_))[0] if np.isfinite(st_) else 'ok'
                    symptoms = ([f'file differs from the explicit-default file in {diff}'] if diff else []) + ([f'map: {cls_a}'] if cls_a != 'ok' else []) + \
                        ([f'header says {fa["typ"]}{" NNB" if fa["nnb"] else ""}'] if not (fa['typ'] == 'SUR' and fa['nnb'] is False) else [])
                    ctx.require('defaults.omitted-eq-explicit', not symptoms or cls_b != 'ok', key,
                                f'Code V write with {arg} omitted (documented defaults) after an earlier write with other explicit values: '
                                + '; '.join(symptoms), desc, fields=diff, omitted={k_: v_ for k_, v_ in fa.items() if k_ != 'ints'},
                                explicit={k_: v_ for k_, v_ in fb.items() if k_ != 'ints'})
                else:
                    # readers: multi_intensity_action omitted vs 'first' explicit, after a read that passed another value
                    pio.write_zygo_dat(pa, z, dx, wavelength=HENE)
                    pio.write_zygo_dat(pc, zo, dx * 3, wavelength=other_wl)
                    if fam == 'read_zygo':
                        with contextlib.suppress(Exception):
                            pio.read_zygo_dat(pc, multi_intensity_action='last')
                        r1 = pio.read_zygo_dat(pa)
                        with contextlib.suppress(Exception):
                            pio.read_zygo_dat(pc, 'last')
                        r2 = pio.read_zygo_dat(pa, 'first') if rep % 2 else pio.read_zygo_dat(file=pa, multi_intensity_action='first')
                        g1, g2 = r1['phase'], r2['phase']
                        s1 = (r1['meta']['lateral_resolution'] * 1e3, r1['meta']['wavelength'] * 1e6)
                        s2 = (r2['meta']['lateral_resolution'] * 1e3, r2['meta']['wavelength'] * 1e6)
                        route = 'io'
                    else:
                        with contextlib.suppress(Exception):
                            Interferogram.from_zygo_dat(pc, multi_intensity_action='last')
                        j1 = Interferogram.from_zygo_dat(pa)
                        with contextlib.suppress(Exception):
                            Interferogram.from_zygo_dat(pc, 'last')
                        j2 = Interferogram.from_zygo_dat(pa, 'first') if rep % 2 else Interferogram.from_zygo_dat(path=pa, multi_intensity_action='first')
                        g1, g2, s1, s2 = j1.data, j2.data, (j1.dx, j1.wavelength), (j2.dx, j2.wavelength)
                        route = 'ifg'
                    ctx.observe('defaults.readers')
                    cls_b = judge_zygo(ctx, tmp, pa, dict(desc, file='explicit'), keep, dx, HENE, g2, s2[0], s2[1], route,
                                       'defaults.' + ('zygo' if route == 'io' else 'ifg'), lambda f, w: f'C14/{f}/{w}')
                    ctx.require('defaults.omitted-eq-explicit', cls_b != 'ok' or (g1.shape == g2.shape and np.array_equal(g1, g2, equal_nan=True) and s1 == s2),
                                key, 'reading with multi_intensity_action omitted differs from reading with the documented default '
                                "'first' passed explicitly (after a read that passed another value)", desc)
                ctx.require('writer.input-untouched', np.array_equal(z, keep, equal_nan=True), 'C14/writer-mutates-input/defaults',
                            'a writer modified the caller\'s array', desc)
    ctx.note('defaults', {'documented_defaults': {f: {a_: repr(v_) for a_, v_ in d_.items()} for f, d_ in DEFAULTS.items()}, 'repetitions': nrep})


# ---------------------------------------------------------------------------------------------- histories
def _hist_map(rng, shape, vcls, ncls, wl, fmt):
    z = make_values(vcls, shape, rng, fmt, wl)
    put_nans(ncls, z, rng)
    if not np.isfinite(z).any():
        z.flat[0] = 1.0
    return z


SCRIPTS = {
    # name: list of steps (route, dx-class, wavelength-class, shape-class, nan-class, index into CFGS)
    'calibrated-then-dx0': [('io', 'a', 'w', 's', 'none', 0), ('io', '0', 'w', 's', 'none', 0), ('io', '0', 'w', 's', 'blob', 0),
                            ('io', 'b', 'w', 's', 'none', 0), ('io', '0', 'w', 's', 'none', 0)],
    'calibrated-then-ifg-default-dx': [('ifg', 'a', 'w', 's', 'corner', 0), ('ifg-default-dx', '0', 'w', 's', 'none', 0),
                                       ('io', 'b', 'v', 's', 'none', 0), ('ifg-default-dx', '0', 'v', 't', 'none', 0)],
    'dx0-first': [('io', '0', 'w', 's', 'none', 0), ('io', 'a', 'w', 's', 'none', 0), ('ifg', '0', 'w', 's', 'none', 0)],
    'dx-a-b-a': [('io', 'a', 'w', 's', 'none', 0), ('io', 'b', 'w', 's', 'none', 0), ('io', 'a', 'w', 's', 'none', 0),
                 ('ifg', 'b', 'w', 's', 'row', 0)],
    'wavelength-a-b-a': [('io', 'a', 'w', 's', 'none', 0), ('io', 'a', 'v', 's', 'none', 0), ('ifg', 'a', 'w', 's', 'none', 0),
                         ('io', 'a', 'default', 's', 'none', 0), ('io', 'a', 'v', 's', 'none', 0)],
    'shape-big-small-big': [('io', 'a', 'w', 'big', 'blob', 0), ('io', 'a', 'w', 's', 'none', 0), ('codev', 'a', 'w', 'big', 'blob', 0),
                            ('codev', 'a', 'w', 's', 'none', 0), ('io', 'a', 'w', 'big', 'none', 0), ('codev', 'a', 'w', 't', 'row', 0)],
    'nan-then-clean': [('io', 'a', 'w', 's', 'row', 0), ('io', 'a', 'w', 's', 'none', 0), ('codev', 'a', 'w', 's', 'row', 0),
                       ('codev', 'a', 'w', 's', 'none', 0), ('ifg', 'a', 'w', 's', 'blob', 0), ('ifg', 'a', 'w', 's', 'none', 0)],
    'precision-32-then-64': [('io', 'a', 'w', 's', 'blob', 3), ('ifg', 'b', 'v', 's', 'corner', 3), ('codev', 'a', 'w', 's', 'blob', 3),
                             ('io', 'a', 'w', 's', 'blob', 0), ('ifg', 'b', 'v', 's', 'corner', 0), ('codev', 'a', 'w', 's', 'blob', 0),
                             ('io', '0', 'w', 's', 'none', 2), ('io', 'a', 'w', 's', 'none', 1)],
    'same-object-twice': [('io', 'a', 'w', 's', 'blob', 0), ('same', 'a', 'w', 's', 'blob', 0), ('codev', 'a', 'w', 's', 'corner', 0),
                          ('same', 'a', 'w', 's', 'corner', 0), ('ifg', 'a', 'w', 's', 'none', 1), ('same', 'a', 'w', 's', 'none', 1)],
}


def histories(ctx, tmp):
    """Sequences of writes in one process; every file is judged on its own (against the map and scalars it was written
    with, and by the writer contract against the independent decoder), then all are re-read in reverse order.  A failure
    that the plain round trips of this process already showed is counted under that plain key (it does not depend on the
    history); anything else is keyed by what was written before."""
    from prysm import io as pio
    names = list(SCRIPTS)
    nrand = ctx.pick(8, 1600)
    maxlen = ctx.pick(8, 40)
    seqs = [(nm, SCRIPTS[nm]) for nm in names]
    rs = np.random.default_rng([ctx.seed, 140014])
    for i in range(nrand):
        n = int(rs.integers(3, maxlen + 1))
        steps = []
        for _ in range(n):
            route = ['io', 'io', 'ifg', 'ifg-default-dx', 'codev', 'same'][int(rs.integers(6))]
            steps.append((route, ['a', 'b', '0', 'r'][int(rs.integers(4))], ['w', 'v', 'default', 'r'][int(rs.integers(4))],
                          ['s', 't', 'big', 'r'][int(rs.integers(4))], NAN_CLASSES[int(rs.integers(4))], int(rs.integers(4))))
        seqs.append(('random', steps))

    def hkey(fmt, after, what):
        base = what.split('/')[0]
        k0 = fired(ctx, f'C14/{fmt}/{base}')
        return k0 if k0 is not None else f'C14/{fmt}/history/{after}/{what}'

    for si, (sname, steps) in enumerate(seqs):
        if not ctx.mine(si):
            continue
        rng = np.random.default_rng([ctx.seed, 1400, si])
        dxs = {'a': float(10 ** rng.uniform(-3, 1)), 'b': float(10 ** rng.uniform(-3, 1)), '0': 0.0}
        wls = {'w': float(rng.uniform(0.4, 1.1)), 'v': float(rng.uniform(1.2, 10.6)), 'default': 0.6328}
        shapes = {'s': (int(rng.integers(2, 7)), int(rng.integers(2, 7))), 'big': (int(rng.integers(9, 20)), int(rng.integers(9, 20)))}
        shapes['t'] = shapes['s'][::-1] if shapes['s'][0] != shapes['s'][1] else (shapes['s'][0], shapes['s'][1] + 1)
        written = []          # (fmt, route, path, z, dx, wl, desc, copy of the first read, object the first read returned, prec)
        last = None
        prev_z = {}
        for ti, (route, dxc, wlc, shc, ncls, cfgi) in enumerate(steps):
            dt, prec = CFGS[cfgi]
            dx = dxs.get(dxc) if dxc != 'r' else float(10 ** rng.uniform(-4, 2))
            wl = wls.get(wlc) if wlc != 'r' else float(10 ** rng.uniform(np.log10(0.2), np.log10(12)))
            shape = shapes.get(shc) if shc != 'r' else (int(rng.integers(1, 12)), int(rng.integers(1, 12)))
            if route == 'same' and last is None:
                route = 'io'
            if route == 'same':
                # the same argument objects as the previous step, once more, to another file
                fmt, route_eff, _, z, dx, wl, _, _, _, prec = last
                dt = str(z.dtype)
            else:
                route_eff = route
                fmt = 'codev' if route == 'codev' else 'zygo'
                if route == 'ifg-default-dx':
                    dx = 0.0
                vcls = ['mixed', 'pos-large', 'neg', 'pos-small'][int(rng.integers(4))]
                z = _hist_map(rng, shape, vcls, ncls, wl, fmt).astype(dt)
            stepcls = _step_class(prev_z.get(fmt), dx, wl, tuple(z.shape)) if fmt == 'zygo' else \
                ('first-write' if prev_z.get(fmt) is None else 'shape-changed' if prev_z[fmt][2] != tuple(z.shape) else 'same-shape-again')
            if route == 'same':
                stepcls = 'same-objects-again'
            dxcls = dx_class(dx) if fmt == 'zygo' else None          # from the contracts' process-wide memory, before the write
            prev_z[fmt] = (dx, wl, tuple(z.shape))
            path = os.path.join(tmp, f'h{ctx.shard}_{ti}.{"int" if fmt == "codev" else "dat"}')
            rname = 'ifg' if route_eff.startswith('ifg') else route_eff
            desc = {'wl': 'history', 'script': sname, 'seq': si, 'step': ti, 'route': route, 'shape': list(z.shape), 'dx': dx, 'wavelength': wl,
                    'dtype': dt, 'precision': prec, 'nan': ncls, 'after': stepcls, 'dx_history': dxcls,
                    'steps_so_far': [s[0] + ':' + s[1] for s in steps[:ti + 1]][-6:],
                    'class': f'history:{sname}:{rname}:{stepcls}'}
            ctx.case(desc)
            hfmt = 'codev' if fmt == 'codev' else rname if rname == 'ifg' else 'zygo'
            with precision(prec), ctx.guard(f'C14/{hfmt}/history', desc):
                keep = np.array(z, copy=True)
                if fmt == 'codev':
                    write_codev(path, z, 'path')
                    got, _ = pio.read_codev_gridint(path)
                    judge_codev(ctx, tmp, path, desc, keep, got, 'history.codev', lambda w: hkey('codev', stepcls, w))
                else:
                    write_zygo(path, z, dx, wl, ZFORMS[ti % len(ZFORMS)], route_eff)
                    got, dx2, wl2, obj = read_zygo(path, 'io' if rname == 'io' else 'ifg')
                    res = judge_zygo(ctx, tmp, path, desc, keep, dx, wl, got, dx2, wl2, 'io' if rname == 'io' else 'ifg', 'history.' + hfmt,
                                     lambda f, w: hkey(f, dxcls if w == 'dx-or-wavelength' else stepcls, w))
                    if rname == 'ifg' and 'dx-or-wavelength' not in res:
                        ctx.require('history.ifg', bool(getattr(obj, '_latcaled', dx != 0)) == (dx != 0), f'C14/ifg/history/{dxcls}/latcal-flag',
                                    'an Interferogram loaded from a file claims a lateral calibration the written one did not have '
                                    '(or the reverse)', desc)
                ctx.require('writer.input-untouched', np.array_equal(z, keep, equal_nan=True), f'C14/{hfmt}/writer-mutates-input',
                            'the writer modified the caller\'s array', desc)
                last = (fmt, route_eff, path, z, dx, wl, desc, np.array(got, copy=True), got, prec)
                written.append(last)
        # read histories: every file again, newest first, after scribbling over what the first read returned
        for (fmt, route_eff, path, z, dx, wl, desc, first, firstobj, prec) in reversed(written):
            rfmt = 'codev' if fmt == 'codev' else 'ifg' if route_eff.startswith('ifg') else 'zygo'
            with precision(prec), ctx.guard(f'C14/{rfmt}/history/re-read', desc):
                try:
                    firstobj[...] = -12345.0           # the caller owns the returned array
                except Exception:  # noqa (read-only result)
                    pass
                if fmt == 'codev':
                    again = pio.read_codev_gridint(path)[0]
                else:
                    again = read_zygo(path, 'io' if rfmt == 'zygo' else 'ifg')[0]
                ctx.require('history.re-read', again.shape == first.shape and np.array_equal(again, first, equal_nan=True),
                            f'C14/{rfmt}/history/re-read-differs',
                            'reading the same file again (after other files were read and the first result was overwritten by the caller) '
                            'returns a different array', desc)
    ctx.note('histories', f'{len(SCRIPTS)} scripted + {nrand} random write sequences (<= {maxlen} steps), all files re-read in reverse order')


# ---------------------------------------------------------------------------------------------- truncation
def _read_with_warnings(fn, path):
    """('exc', type name, None) or ('ret', array, [warning categories])."""
    with warnings.catch_warnings(record=True) as w:
        warnings.simplefilter('always')
        try:
            with contextlib.redirect_stdout(_io.StringIO()):
                out = fn(path)
        except Exception as e:  # noqa  (rejection)
            return 'exc', type(e).__name__, None
    real = [x for x in w if not issubclass(x.category, (DeprecationWarning, PendingDeprecationWarning))]
    return 'ret', out, real


TRUNC_FILES = [
    # (shape, values, nan) — smallest first; content is deterministic in (seed, index)
    ((4, 5), 'mixed', 'none'), ((6, 7), 'mixed', 'blob'), ((3, 3), 'neg-small', 'none'), ((1, 6), 'mixed', 'none'),
    ((5, 1), 'mixed', 'corner'), ((2, 2), 'pos-small', 'none'), ((6, 6), 'mixed', 'row'), ((5, 4), 'huge', 'none'),
    ((3, 7), 'pos-small', 'corner'), ((6, 5), 'mixed', 'blob'),
]
TRUNC_CODEV_FIRST = [((6, 6), 'mixed', 'none'), ((5, 5), 'mixed', 'blob')]


def truncation(ctx, tmp):
    from prysm import io as pio
    nfiles = ctx.pick(3, 320)
    k = -1
    for fmt in ('zygo', 'codev'):
        for fi in range(nfiles):
            rng = np.random.default_rng([ctx.seed, 1414, fi, 0 if fmt == 'zygo' else 1])
            if fmt == 'codev' and fi < len(TRUNC_CODEV_FIRST):
                shape, vcls, ncls = TRUNC_CODEV_FIRST[fi]
            elif fi < len(TRUNC_FILES):
                shape, vcls, ncls = TRUNC_FILES[fi]
            else:
                top = 7 if fi < 40 else 14
                shape = (int(rng.integers(1, top)), int(rng.integers(1, top + 1)))
                if shape == (1, 1):
                    shape = (1, 2)
                vcls = ['mixed', 'pos-small', 'neg-small', 'huge'][int(rng.integers(4))]
                ncls = NAN_CLASSES[int(rng.integers(4))]
            prec = 32 if fi % 3 == 2 else 64          # the reader under both precisions (file 2 of the quick tier is precision 32)
            wl = 0.6328
            z = make_values(vcls, shape, rng, fmt, wl)
            # distinct, non-zero samples so that a zero-extended or mis-parsed sample can never equal the true one
            z = np.where(np.abs(z) < 1.0, z + np.sign(z + 1e-30) * 1.0, z) if vcls != 'huge' else z
            ncls = put_nans(ncls, z, rng)
            if prec == 32:
                z = z.astype(np.float32)
                if vcls == 'huge' and fmt == 'zygo':
                    z = np.clip(z, -0.93 * 2 ** 31 * wl * 1e3 / 32768, 0.93 * 2 ** 31 * wl * 1e3 / 32768).astype(np.float32)
            full = os.path.join(tmp, f't{ctx.shard}.{fmt}')
            cutp = os.path.join(tmp, f'u{ctx.shard}.{fmt}')
            fdesc = {'wl': 'truncation', 'fmt': fmt, 'file': fi, 'shape': shape, 'values': vcls, 'nan': ncls, 'precision': prec}
            with precision(prec):
                try:
                    with warnings.catch_warnings():
                        warnings.simplefilter('ignore')
                        if fmt == 'zygo':
                            pio.write_zygo_dat(full, z.copy(), 0.5, wavelength=wl)
                            reader = lambda p: pio.read_zygo_dat(p)['phase']     # noqa
                            step = wl * 1e3 / 32768
                            tol = tolerance(z, step, prec == 32)
                        else:
                            pio.write_codev_gridint(z.copy(), full)
                            reader = lambda p: pio.read_codev_gridint(p)[0]      # noqa
                            _, hdr, start = ref.codev_split(open(full).read())
                            h = ref.codev_header(hdr)
                            st = 1000.0 * h['wvl'] / abs(h['ssz'])
                            tol = tolerance(z, st, True) if prec == 32 else st * (1 + 1e-9) + 1e-12 * np.abs(np.nan_to_num(z))
                        whole = reader(full)
                except Exception as e:  # noqa  (the round-trip monitor reports these)
                    ctx.skip(f'truncation file not usable: write/read raises {type(e).__name__}')
                    continue
                cls, to_orig = classify(whole, z, tol)
                if to_orig is None:
                    # the untruncated round trip is itself broken in a way that cannot be calibrated out; the round-trip
                    # monitor reports it, the truncation monitor cannot decide on this file
                    ctx.skip(f'truncation file skipped: untruncated round trip is {cls}')
                    continue
                if cls != 'ok':
                    ctx.event(f'truncation calibrated through round-trip defect {fmt}/{cls}')
                raw = open(full, 'rb').read()
                text = raw.decode('ascii') if fmt == 'codev' else None
                whole_o = to_orig(whole)
                off = ref.zygo_layout(raw)[1] if fmt == 'zygo' else None
                for cut in range(len(raw)):
                    k += 1
                    if not ctx.mine(k):
                        continue
                    if fmt == 'zygo':
                        miss = ref.zygo_missing(raw, cut)
                        where = 'header' if cut < off else ('inside-sample' if (cut - off) % 4 else 'between-samples')
                    else:
                        miss, where = ref.codev_missing(text, cut, z.shape)
                    desc = dict(fdesc, cut=cut, of=len(raw), where=where, **{'class': f'trunc:{fmt}:{where}:p{prec}'})
                    ctx.case(desc)
                    with open(cutp, 'wb') as f:
                        f.write(raw[:cut])
                    kind, out, warns = _read_with_warnings(reader, cutp)
                    ctx.observe(f'truncation.{fmt}')
                    if kind == 'exc':
                        ctx.event(f'{fmt} truncated read rejected:{out}')
                        continue
                    key = f'C14/{fmt}/truncate-{where}'
                    t = np.asarray(out)
                    if t.shape != whole.shape:
                        # a smaller array is not "a full-size array of plausible numbers", but the lost samples are not marked
                        ctx.violation(key + '/short-array', 'truncated file is read as a smaller array without an exception', desc,
                                      got_shape=list(t.shape))
                        continue
                    t_o = to_orig(t)
                    if not miss.any():
                        ok = np.array_equal(t_o, whole_o, equal_nan=True)
                        ctx.require('truncation.nothing-lost', ok, key + '/present-samples-changed',
                                    'no sample lost a byte, but the prefix reads differently from the whole file', desc)
                        continue
                    unmarked = miss & ~np.isnan(t_o)
                    if unmarked.any():
                        ctx.violation(key, f'{fmt}: file cut {where.replace("-", " ")} is returned as a full-size array with finite values '
                                      'where the data is missing' + ('' if warns else ' and no warning'), desc,
                                      n_missing=int(miss.sum()), n_unmarked=int(unmarked.sum()), warned=bool(warns),
                                      got=t_o[unmarked][:4], true=whole_o[unmarked][:4])
                        continue
                    present = ~miss
                    same = np.array_equal(t_o[present], whole_o[present], equal_nan=True)
                    over = present & np.isnan(t_o) & ~np.isnan(whole_o)
                    if not same and not (over.any() and np.array_equal(t_o[present & ~over], whole_o[present & ~over], equal_nan=True)):
                        ctx.violation(key + '/present-samples-changed', 'samples whose bytes are all present read differently from the whole file',
                                      desc)
                        continue
                    if over.any():
                        ctx.event(f'{fmt} truncated read marks more samples invalid than were lost')
                    if not warns:
                        ctx.violation(key + '/no-warning', 'missing samples are marked invalid but no warning is issued', desc)
    ctx.note('truncation', f'{nfiles} written files per format (Zygo .dat, Code V grid INT; every third one written and read under '
             'config.precision = 32); every prefix length 0..len-1 enumerated')


# ---------------------------------------------------------------------------------------------- object histories (class B, pass 5)
OBJ_OPS = ['strip_latcal', 'latcal', 'latcal-same', 'pad-samples', 'pad-shape', 'pad-value', 'crop', 'fill', 'mask', 'recenter', 'coords',
           'polar', 'str', 'copy', 'set-wavelength', 'save', 'save-handle']
OBJ_CAL_OPS = ('strip_latcal', 'latcal', 'latcal-same', 'pad-samples', 'pad-shape', 'pad-value')      # ops that touch the calibration state
OBJ_SCRIPTS = [(), ('strip_latcal',), ('latcal',), ('latcal-same',), ('latcal', 'strip_latcal'), ('strip_latcal', 'latcal'),
               ('strip_latcal', 'strip_latcal'), ('latcal', 'latcal'), ('strip_latcal', 'latcal', 'strip_latcal'),
               ('pad-samples',), ('pad-shape',), ('pad-value',), ('pad-samples', 'strip_latcal'), ('strip_latcal', 'pad-samples'),
               ('strip_latcal', 'pad-shape', 'strip_latcal'), ('crop',), ('crop', 'strip_latcal'), ('strip_latcal', 'crop'),
               ('pad-samples', 'crop'), ('fill',), ('fill', 'strip_latcal'), ('mask',), ('mask', 'crop', 'pad-shape'),
               ('strip_latcal', 'mask', 'fill'), ('coords', 'strip_latcal', 'str'), ('polar', 'latcal', 'recenter'),
               ('coords', 'crop', 'strip_latcal'), ('copy', 'strip_latcal'), ('strip_latcal', 'copy'), ('save', 'strip_latcal'),
               ('strip_latcal', 'save'), ('strip_latcal', 'save-handle', 'latcal'), ('latcal', 'save', 'strip_latcal', 'save'),
               ('set-wavelength',), ('set-wavelength', 'strip_latcal'), ('strip_latcal', 'set-wavelength', 'pad-samples'),
               ('str', 'strip_latcal', 'str')]
OBJ_START_DX = ['calibrated', 'dx0', 'dx1', 'default']


def _obj_apply(ifg, op, rng, tmp, tag):
    """Apply one public Interferogram operation; returns the object to go on with (copy() hands out a new one)."""
    if op == 'strip_latcal':
        ifg.strip_latcal()
    elif op == 'latcal':
        ifg.latcal(float(10 ** rng.uniform(-3, 1)))
    elif op == 'latcal-same':
        ifg.latcal(ifg.dx)
    elif op == 'pad-samples':
        ifg.pad(samples=int(rng.integers(1, 4)))
    elif op == 'pad-shape':
        ifg.pad(shape=(ifg.data.shape[0] + int(rng.integers(0, 3)), ifg.data.shape[1] + int(rng.integers(1, 4))))
    elif op == 'pad-value':
        ifg.pad(0.0, samples=(int(rng.integers(0, 3)), int(rng.integers(1, 3))))
    elif op == 'crop':
        ifg.crop()
    elif op == 'fill':
        ifg.fill(float(rng.uniform(-5, 5)))
    elif op == 'mask':
        m = rng.uniform(size=ifg.data.shape) > 0.25
        m.flat[int(rng.integers(m.size))] = True
        ifg.mask(m)
    elif op == 'recenter':
        ifg.recenter()
    elif op == 'coords':
        _ = ifg.x, ifg.y
    elif op == 'polar':
        _ = ifg.r, ifg.t
    elif op == 'str':
        with warnings.catch_warnings():
            warnings.simplefilter('ignore')
            try:
                str(ifg)
            except Exception:  # noqa (pretty-printing is not the subject)
                pass
    elif op == 'copy':
        ifg = ifg.copy()
    elif op == 'set-wavelength':
        ifg.wavelength = float(rng.uniform(0.4, 10.6))
    elif op == 'save':
        ifg.save_zygo_dat(os.path.join(tmp, f'{tag}_mid.dat'))
    elif op == 'save-handle':
        with open(os.path.join(tmp, f'{tag}_mid.dat'), 'wb') as fh:
            ifg.save_zygo_dat(fh)
    return ifg


def object_histories(ctx, tmp):
    """An Interferogram is built, taken through a sequence of its own public operations that change the calibration state / the geometry /
    the data (strip_latcal, latcal, pad, crop, fill, mask, recenter, coordinate access, copy, attribute assignment, earlier saves), and then
    written with the method-form writer.  The reference is the object's *current* data / dx / wavelength (public attributes, read just
    before the save); the file is read back through Interferogram.from_zygo_dat and through read_zygo_dat and judged by the ordinary
    round-trip oracle.  The save must leave the object as it was."""
    from prysm.interferogram import Interferogram
    nrand = ctx.pick(60, 4000)
    seqs = [(f'script{i}', ops) for i, ops in enumerate(OBJ_SCRIPTS)]
    rs = np.random.default_rng([ctx.seed, 140015])
    for i in range(nrand):
        seqs.append(('random', tuple(OBJ_OPS[int(rs.integers(len(OBJ_OPS)))] for _ in range(int(rs.integers(1, 7))))))
    excluded = 0
    k = 0
    for si, (sname, ops) in enumerate(seqs):
        starts = OBJ_START_DX if sname != 'random' else [OBJ_START_DX[si % len(OBJ_START_DX)]]
        for start in starts:
            k += 1
            if not ctx.mine(k):
                continue
            rng = np.random.default_rng([ctx.seed, 1415, si, OBJ_START_DX.index(start)])
            dt, prec = CFGS[k % len(CFGS)] if sname == 'random' or k % 3 == 0 else CFGS[0]
            wl = float(rng.uniform(0.4, 1.1)) if k % 4 else 0.6328
            dx0 = {'calibrated': float(10 ** rng.uniform(-3, 1)), 'dx0': 0.0, 'dx1': 1.0, 'default': None}[start]
            shape = (int(rng.integers(3, 12)), int(rng.integers(3, 12)))
            ncls = NAN_CLASSES[int(rng.integers(4))]
            z = _hist_map(rng, shape, ['mixed', 'pos-large', 'neg', 'pos-small'][int(rng.integers(4))], ncls, wl, 'zygo').astype(dt)
            calops = [o for o in ops if o in OBJ_CAL_OPS]
            state = 'after:' + (calops[-1] if calops else 'no-calibration-op')
            desc = {'wl': 'object-history', 'script': sname, 'ops': list(ops), 'start_dx': start, 'shape': list(shape), 'wavelength': wl,
                    'dtype': dt, 'precision': prec, 'nan': ncls, 'k': k, 'class': f'object-history:{start}:{state}:{"+".join(ops[-3:])}'}
            ctx.case(desc)

            def okey(fmt, what, state=state):
                k0 = fired(ctx, f'C14/{fmt}/{what.split("/")[0]}')
                return k0 if k0 is not None else f'C14/{fmt}/object-history/{state}/{what}'

            with precision(prec), warnings.catch_warnings(), ctx.guard(f'C14/ifg/object-history/{state}', desc):
                warnings.simplefilter('ignore')
                ifg = Interferogram(z.copy(), wavelength=wl) if dx0 is None else Interferogram(z.copy(), dx=dx0, wavelength=wl)
                for oi, op in enumerate(ops):
                    ifg = _obj_apply(ifg, op, rng, tmp, f'o{ctx.shard}')
                cur = np.array(ifg.data, copy=True)
                dxc, wlc = float(ifg.dx), float(ifg.wavelength)
                if cur.ndim != 2 or cur.size < 1 or not np.isfinite(cur).any() or not np.isfinite(dxc) or not wlc > 0:
                    excluded += 1        # the operations left no height map with a finite sample: outside the domain
                    continue
                desc.update(dx=dxc, wavelength=wlc, shape_now=list(cur.shape))
                path = os.path.join(tmp, f'o{ctx.shard}.dat')
                if k % 5 == 0:
                    ifg.save_zygo_dat(pathlib.Path(path))
                else:
                    ifg.save_zygo_dat(path)
                ctx.require('objhistory.ifg.object-untouched',
                            np.array_equal(np.asarray(ifg.data), cur, equal_nan=True) and float(ifg.dx) == dxc and float(ifg.wavelength) == wlc,
                            f'C14/ifg/object-history/{state}/save-changes-object', 'save_zygo_dat changed the data / dx / wavelength of the object it saved', desc)
                for route in ('ifg', 'io'):
                    got, dx2, wl2, _ = read_zygo(path, route)
                    judge_zygo(ctx, tmp, path, dict(desc, read_route=route), cur, dxc, wlc, got, dx2, wl2, 'ifg', 'objhistory.ifg', okey, orig=ifg.data)
    ctx.note('object_histories', f'{len(OBJ_SCRIPTS)} scripted x {len(OBJ_START_DX)} starting calibrations + {nrand} random sequences of Interferogram '
             f'operations before save_zygo_dat; {excluded} excluded in this shard (no finite sample left)')


# ---------------------------------------------------------------------------------------------- run
def run(ctx):
    global CTX
    CTX = ctx
    from prysm.conf import config
    import prysm.interferogram  # noqa
    old = 32 if config.precision is np.float32 else 64
    _MEM.update(any_cal=False, last=None)
    install()
    try:
        with tempfile.TemporaryDirectory(prefix='vp-c14-') as tmp:
            roundtrips(ctx, tmp)
            layouts(ctx, tmp)
            counts(ctx, tmp)             # class I: every sample count
            scales(ctx, tmp)             # class G: magnitudes of heights / dx / wavelength
            specials(ctx, tmp)           # class H: constant / zero / single-valid-sample maps, dx exactly 0
            optargs(ctx, tmp)            # class M: optional blocks (intensity= / meta= / comment=) in hostile states
            truncation(ctx, tmp)
            histories(ctx, tmp)          # after the round trips: a failure they already showed is not a history effect
            object_histories(ctx, tmp)   # class B (pass 5): Interferogram operations before the method-form writer
            foreign_traffic(ctx, tmp)    # class F: other consumers of the shared header table / configuration, then ...
            defaults(ctx, tmp)
            layouts(ctx, tmp) if ctx.quick else None      # ... the layout block once more after all that traffic (quick: it is small)
    finally:
        config.precision = old
        detach_all()


def replay(ctx, rec):
    run(ctx)
