"""C03 -- output sampling and coordinates are physically correct.

Deciding monitors
  M1  contracts on the real propagation.focus_fixed_sampling / unfocus_fixed_sampling (module functions, so the
      Wavefront methods and to_fpm_and_back are seen too) and on Wavefront.focus / Wavefront.unfocus: the returned
      field, read at the coordinates it reports (FFT route: result.intensity.x/.y built from the reported dx) or
      was asked for (fixed sampling: fftrange(samples)*dx - shift), must be proportional to the physical-units
      diffraction sum of vp/refmodels/diffraction.py evaluated at those places.  Scale-free; complex when
      shift == 0, moduli only when shift != 0 (a pure output phase is allowed by the statement).
  M2  the statement's own corollary, driven by the workload: k waves of tilt across a physical width D put the
      peak exactly on the sample at k*lambda*f/D (+ the requested shift), on the right axis, for the FFT route
      and both fixed-sampling methods; a displaced focal spot unfocuses to the pupil tilt with that slope.
  M3  contracts on Q_for_sampling / pupil_sample_to_psf_sample / psf_sample_to_pupil_sample: closed forms and
      exact inverse round trip.
  Histories at fixed array sizes on the shared executors (every step judged by M1, which knows nothing of the process
  history), repeat / aliasing laws (same argument objects again; containers; memory layouts), both precisions and mixed.
  Pass 4: the same contracts / laws under the numpy.fft backend (wl_backend), and on objects RETURNED by pad2d / crop (out of
  place), copy, arithmetic and to_fpm_and_back(return_more=True) with the harness' own wavelength / spacing (wl_chains).
"""
import math

import numpy as np

from ..contracts import attach, detach_all
from ..core import parity
from ..refmodels import diffraction as D
from .c01 import (_copyarg, _same, _same_value, conf_bits, is_single, kernel_phase, low_precision, rtol_for, relayout, LAYOUTS,
                  SHIFT_CONTAINERS, make_container, container_values)

RULE = ('input classes enumerated (pupil/focal array: square even/odd, non-square in the four parity combinations, 1xN / Nx1, '
        'extreme aspect 2xN / Nx3; output: square even/odd, non-square; method mdft/czt; shift none/integer/fractional output samples; '
        'field random complex / real / integer / boolean or uniform+tilt / displaced spot), smallest sizes first; sizes 4..33 (thorough '
        '..64), output samples 8..96 (thorough ..192), wavelength/focal length/spacings log-uniform, requested spacing 0.2x..3x critical; '
        'FFT route on every square N in 4..33 (thorough ..64) x Q in {1,2,3,4,1.5,2.5}; one case in four runs in the float32 '
        'configuration, with complex64 data, or mixed.  Histories: 3..14 fixed-sampling / to_fpm_and_back calls at FIXED array sizes '
        '(function and Wavefront form, both methods, shifted and unshifted, new physical scalars every step, precision switches), the '
        'last step float64.  Repeat cases: the same call again with the same argument objects (shift as tuple / list / float64, float32, '
        'int ndarray / numpy scalars; samples as int / tuple / numpy integers; data in six memory layouts).  Form cases (class E, '
        'vp/propforms.py): fixed sampling (both routes, both methods), Wavefront.focus / unfocus (data and reported dx) and the three '
        'spacing helpers in a canonical form and then in every other accepted form of the same numbers (field dtype kinds incl. integer '
        '/ boolean through czt, containers, numpy / integer / 0-d scalars, positional, omitted defaults after other explicit values, '
        'Wavefront methods).  Foreign-history cases (class F): the other consumers of fftrange / make_xy_grid (incl. the RichData axes '
        'at the spacing Wavefront.focus will report) / forward_ft_unit and of the executors (incl. the adjoint routines at the same '
        'cache keys) run first with every returned array edited in place, then the routes and a tilted pupil built from the harness\' '
        'own coordinates are judged.  Non-trivial: the field has '
        '>= 2 non-zero samples; distinct = distinct descriptor (class, shapes, physical scalars, tilt/shift, sub-seed).')
ASSUMPTIONS = ['Fraunhofer model: E(X,Y) = sum a_j exp(-2 pi i (x_j X + y_j Y)/(lambda f)) with pupil samples at '
               '(index - n//2)*dx; units mm (pupil, f) and um (focal plane, lambda) as documented by prysm',
               'the model is evaluated on the argument values before the call (pre-hook snapshots)',
               'overall complex scale of a propagation is not judged here (C01/C02); with shift != 0 only moduli are compared',
               'output_samples tuples are (rows, columns) as implemented (the Wavefront docstring says (x, y))',
               'a shift moves the image by +shift in output units (the sign both methods implement and the docstring '
               '"shift of the output domain" describes)',
               'FFT route judged on square arrays only: a Wavefront carries a single dx',
               'float64: 1e-9 of the fitted reference maximum, raised for large arrays to 1000 eps64 * kernel phase of the bound |c| sum|w|; '
               'single precision (complex64 data, float32 configuration for mdft and for the reported coordinate grids, float32 shift '
               'container): max(1e-3, 1000 eps32 * kernel phase) of that bound (C01\'s rule), calls whose tolerance would exceed 3e-2 '
               'excluded and counted; fitted slopes 1e-9 rad / 2e-3 rad (float32 round-off measured <= 1.5e-6)',
               'integer / boolean arrays are real fields (both methods and the FFT route)',
               'accepted argument forms are fixed from the reference tree (/repo @ faa8443, vp/propforms.py); a form must reproduce the '
               'canonical result to 1e-12 (float32-carrying forms / single precision 1e-3) of max(max|canonical|, output bound); a '
               'numpy.float32 physical scalar makes Q / the reported dx float32 arithmetic: the contracts judge such calls at the single '
               'precision tolerances (helpers: 1e-5)',
               'foreign traffic is not judged; returned arrays belong to the caller; a changed config.precision is reported under its own key',
               'repeat laws: deterministic routines, a later call with the same argument objects reproduces the first to 10 eps; results '
               'are copied as soon as they are returned',
               'numpy matmul / exp in float64 and long-double phase reduction in the reference model']
REQUIRED = ['focus_fixed_sampling.field-at-requested-coordinates', 'unfocus_fixed_sampling.field-at-requested-coordinates',
            'Wavefront.focus.field-at-reported-coordinates', 'Wavefront.unfocus.field-at-reported-coordinates',
            'tilt->displacement.fft', 'tilt->displacement.fixed', 'shift-translates-image', 'spot->tilt.fft',
            'spot->tilt.fixed', 'Q_for_sampling.closed-form', 'pupil_sample_to_psf_sample.closed-form',
            'psf_sample_to_pupil_sample.closed-form', 'spacing.roundtrip', 'history.ops', 'repeat.same-objects',
            'alias.container-independence', 'form.equivalence', 'foreign.traffic']

RTOL = 1e-9
CTX = None
CUR = None      # descriptor of the workload case currently being driven (merged into contract witnesses)
KEYTAG = ''     # pass 4: context label appended to every mechanism key while a context workload runs ('/backend:numpy.fft', '/after:pad2d(arg:inplace=False)')


# ------------------------------------------------------------------------------------------ helpers
def _pair(v):
    if hasattr(v, '__len__') or hasattr(v, '__iter__'):
        v = tuple(v)
        return (v[0], v[1])
    return (v, v)


def _bind(names, defaults, args, kwargs):
    a = dict(defaults)
    a.update(zip(names, args))
    a.update(kwargs)
    return a


def geom_label(route, method, in_shape, out_shape):
    """Class label of a fixed-sampling call: which geometry class the (input, output) shapes fall in."""
    sq_in = in_shape[0] == in_shape[1]
    sq_out = out_shape[0] == out_shape[1]
    nonsq = (not sq_in) if route == 'focus' else not (sq_in and sq_out)
    eo = method == 'czt' and any(i % 2 == 0 and o % 2 == 1 for i, o in zip(in_shape, out_shape))
    if nonsq and eo:
        return 'nonsquare+even->odd'
    if eo:
        return 'even->odd'
    return 'nonsquare' if nonsq else 'square'


def fixed_key(route, method, in_shape, out_shape, shifted):
    """Mechanism key from class labels only.  The non-square class is keyed by route, not by method (the per-axis
    sampling is decided before the method dispatch); the even->odd class exists for czt only and is route-free (iczt2
    is czt2 on the conjugate)."""
    g = geom_label(route, method, in_shape, out_shape)
    if 'even->odd' in g:
        return f'C03/fixed-sampling/czt/{g}' + KEYTAG
    if g == 'nonsquare':
        return f'C03/{route}_fixed_sampling/nonsquare' + KEYTAG
    return f'C03/{route}_fixed_sampling/{method}/square/' + ('shift!=0' if shifted else 'shift=0') + KEYTAG


def _what(route, method, g):
    if 'even->odd' in g:
        ns = ' (non-square arrays)' if g.startswith('nonsquare') else ''
        return (f'focus_/unfocus_fixed_sampling(method=czt) with an even-length axis mapped to an odd output length{ns}: the '
                f'output is not the diffraction integral at the requested coordinates')
    if g == 'nonsquare':
        return (f'{route}_fixed_sampling (either method) on a non-square array: the output is not the diffraction integral '
                f'at the requested coordinates (sample spacing wrong along one axis)')
    return f'{route}_fixed_sampling(method={method}): the output is not the diffraction integral at the requested coordinates'


def _track(monitor, err, scale):
    """Histogram (by decade) of the relative residual of *passing* evaluations: evidence that the threshold sits far
    above round-off.  Reported as summed events in the evidence file."""
    if scale > 0 and np.isfinite(err):
        r = err / scale
        d = -17 if r <= 1e-17 else int(math.ceil(math.log10(r)))
        CTX.event(f'passing-residual[{monitor}]<=1e{d}')


def _merge(desc):
    d = dict(CUR or {})
    d.update(desc)
    if KEYTAG:
        d['context'] = KEYTAG
    return d


# ------------------------------------------------------------------------------------------ contracts
FF_NAMES = ['wavefunction', 'input_dx', 'prop_dist', 'wavelength', 'output_dx', 'output_samples', 'shift', 'method']


def _tolerance(method, w, idx, odx, wvl, efl, samples, shift_samples, shift_container, scale, c, force_single=False):
    """(tol, single): float64 -- RTOL of the fitted reference maximum (raised with the kernel phase for large arrays).  Single precision (complex64 data, the float32
    configuration for mdft, a float32 shift container) -- C01's rule: max(1e-3, 1000 eps32 * kernel phase) of the bound
    |c| * sum|w| on every output sample; (None, True) when that would exceed 3e-2 (ill-conditioned in float32: skip + count)."""
    single = force_single or is_single(w.dtype) or (method == 'mdft' and conf_bits() == 32) or low_precision(shift_container)
    Qp = tuple(wvl * efl / (n * idx * odx) for n in w.shape)
    if not single:
        # RTOL of the fitted maximum; for large arrays (chirp phases of 1e4 rad) raised to 1000 eps64 * kernel phase of the bound
        # |c| sum|w| so that the threshold stays >= 3 decades above round-off (C01's conditioning rule)
        phi = kernel_phase(method, w.shape, Qp, samples, shift_samples)
        return max(RTOL * scale, 1000 * float(np.finfo(np.float64).eps) * phi * abs(c) * float(np.sum(np.abs(w)))), False
    r = rtol_for(method, True, w.shape, Qp, samples, shift_samples)
    if r is None:
        return None, True
    return r * abs(c) * float(np.sum(np.abs(w))), True


def _check_fixed(route, a, out):
    w = np.asarray(a['wavefunction'])
    method = a['method']
    if w.ndim != 2 or method not in ('mdft', 'czt') or w.dtype.kind not in 'fciub':
        return
    if w.dtype.kind in 'iub':
        w = w.astype(np.float64)          # an integer / boolean image is a real field (both methods)
    samples = tuple(int(s) for s in _pair(a['output_samples']))
    sx, sy = (float(s) for s in _pair(a['shift']))
    idx, odx = float(a['input_dx']), float(a['output_dx'])
    wvl, efl = float(a['wavelength']), float(a['prop_dist'])
    shifted = (sx != 0) or (sy != 0)
    monitor = f'{route}_fixed_sampling.field-at-requested-coordinates'
    desc = _merge({'fn': f'{route}_fixed_sampling', 'in_shape': w.shape, 'input_dx': idx, 'prop_dist': efl,
                   'wavelength': wvl, 'output_dx': odx, 'output_samples': samples, 'shift': (sx, sy), 'method': method,
                   'dtype': str(w.dtype), 'precision': conf_bits()})
    if not np.any(w):
        CTX.skip('zero-field')
        return
    qx = D.axis_coords(samples[1], odx) - np.longdouble(sx)
    qy = D.axis_coords(samples[0], odx) - np.longdouble(sy)
    ref = (D.focal_field if route == 'focus' else D.pupil_field)(w, idx, wvl, efl, qx, qy)
    g = geom_label(route, method, w.shape, samples)
    key = fixed_key(route, method, w.shape, samples, shifted)
    CTX.observe(monitor)
    out = np.asarray(out)
    if out.shape != ref.shape:
        CTX.violation(key + '/shape', f'{route}_fixed_sampling returned shape {out.shape}, asked for {samples}', desc)
        return
    if float(np.max(np.abs(ref))) <= 1e-12 * float(np.sum(np.abs(w))):
        CTX.skip('reference-field-vanishes')
        return
    err, scale, c = D.scale_free_error(out, ref, modulus=shifted)
    # single precision also when a physical scalar arrives as numpy.float32 (Q is then float32 arithmetic) and for an integer /
    # boolean array through czt in the float32 configuration (the chirps are built in the configured precision)
    force = (any(low_precision(a[k_]) for k_ in ('input_dx', 'prop_dist', 'wavelength', 'output_dx'))
             or (method == 'czt' and np.asarray(a['wavefunction']).dtype.kind in 'iub' and conf_bits() == 32))
    tol, single = _tolerance(method, w, idx, odx, wvl, efl, samples, (sx / odx, sy / odx), a['shift'], scale, c, force_single=force)
    if tol is None:
        CTX.observe(monitor, -1)
        CTX.skip('float32: kernel phase beyond the resolution of the working precision (tolerance would exceed 3e-2)')
        return
    if not (scale > 0 and err <= tol):
        CTX.violation(key, _what(route, method, g), desc, err=err, scale=scale, tol=tol, fitted_scale=c,
                      compared='moduli' if shifted else 'complex')
    else:
        _track(f'{monitor}[{method}{"/f32" if single else ""}]', err, tol / RTOL if single else scale)


def _pre_fixed(args, kwargs):
    """Values of all arguments before the call: the model is evaluated on these."""
    a = _bind(FF_NAMES, {'shift': (0, 0), 'method': 'mdft'}, args, kwargs)
    return {k: _copyarg(v) for k, v in a.items()}


def _note_mutation(fn, token, args, kwargs):
    now = _bind(FF_NAMES, {'shift': (0, 0), 'method': 'mdft'}, args, kwargs)
    for k, v in token.items():
        if isinstance(v, (np.ndarray, list)) and not _same_value(now.get(k), v):
            CTX.event(f'argument-mutated-in-place:{fn}:{k}')      # evidence only; the repeat laws judge the later call


def post_focus_fixed(token, args, kwargs, result):
    _note_mutation('focus_fixed_sampling', token, args, kwargs)
    _check_fixed('focus', token, result)


def post_unfocus_fixed(token, args, kwargs, result):
    _note_mutation('unfocus_fixed_sampling', token, args, kwargs)
    _check_fixed('unfocus', token, result)


def _qclass(Q):
    return 'Q-int' if float(Q) == int(Q) else 'Q-frac'


def _pre_wf(args, kwargs):
    self = args[0] if args else kwargs.get('self')
    d = getattr(self, 'data', None)
    return np.array(d, copy=True) if isinstance(d, np.ndarray) else d


def _check_fft(route, self, efl, Q, result, data_before):
    a = np.asarray(data_before)
    monitor = f'Wavefront.{route}.field-at-reported-coordinates'
    if a.ndim != 2 or a.dtype.kind not in 'fciub':
        return
    if a.dtype.kind in 'iub':
        a = a.astype(np.float64)
    if a.shape[0] != a.shape[1]:
        CTX.skip('fft-route-nonsquare(one dx cannot describe two axes)')
        return
    out = np.asarray(result.data)
    desc = _merge({'fn': f'Wavefront.{route}', 'in_shape': a.shape, 'dx': float(self.dx), 'wavelength': float(self.wavelength),
                   'efl': float(efl), 'Q': Q, 'out_shape': out.shape, 'reported_dx': float(result.dx)})
    key = f'C03/Wavefront.{route}/fft/{_qclass(Q)}' + KEYTAG
    if not np.any(a):
        CTX.skip('zero-field')
        return
    CTX.observe(monitor)
    inten = result.intensity
    xg, yg = np.asarray(inten.x), np.asarray(inten.y)
    if xg.shape != out.shape or yg.shape != out.shape or not ((xg == xg[0:1, :]).all() and (yg == yg[:, 0:1]).all()):
        CTX.violation(key + '/coordinates-not-a-grid', f'Wavefront.{route}: reported x/y are not a separable grid of the data shape', desc)
        return
    qx, qy = xg[0, :], yg[:, 0]
    ref = (D.focal_field if route == 'focus' else D.pupil_field)(a, float(self.dx), float(self.wavelength), float(efl), qx, qy)
    if float(np.max(np.abs(ref))) <= 1e-12 * float(np.sum(np.abs(a))):
        CTX.skip('reference-field-vanishes')
        return
    err, scale, c = D.scale_free_error(out, ref)
    # float32 configuration: the reported coordinate grids are float32; numpy.float32 dx / wavelength / efl: the reported dx is float32 arithmetic
    single = is_single(a.dtype) or conf_bits() == 32 or any(low_precision(v) for v in (self.dx, self.wavelength, efl, Q))
    # single precision: FFT round-off / coordinate rounding ~ eps32 * phase of the bound |c| sum|a| on every output sample (1e-3 is >= 3 decades above)
    tol = 1e-3 * abs(c) * float(np.sum(np.abs(a))) if single else RTOL * scale
    if not (scale > 0 and err <= tol):
        CTX.violation(key, f'Wavefront.{route} (FFT route): the field at the reported coordinates (reported dx) is not the '
                           f'diffraction integral at those places', desc, err=err, scale=scale, tol=tol, fitted_scale=c)
    else:
        _track(monitor + ('/f32' if single else ''), err, tol / RTOL if single else scale)


def post_wf_focus(token, args, kwargs, result):
    a = _bind(['self', 'efl', 'Q'], {'Q': 2}, args, kwargs)
    _check_fft('focus', a['self'], a['efl'], a['Q'], result, token)


def post_wf_unfocus(token, args, kwargs, result):
    a = _bind(['self', 'efl', 'Q'], {'Q': 2}, args, kwargs)
    _check_fft('unfocus', a['self'], a['efl'], a['Q'], result, token)


def _scalar_close(monitor, got, ref, key, what, desc, lowp=False):
    CTX.observe(monitor)
    try:
        ok = abs(float(got) - ref) <= (1e-5 if lowp else 1e-14) * abs(ref)      # numpy.float32 arguments: float32 arithmetic (eps 6e-8)
    except Exception:
        ok = False
    if not ok:
        CTX.violation(key, what, desc, got=got, ref=ref)


def post_Q_for_sampling(token, args, kwargs, result):
    a = _bind(['input_diameter', 'prop_dist', 'wavelength', 'output_dx'], {}, args, kwargs)
    try:
        ref = D.q_for_sampling(a['input_diameter'], a['prop_dist'], a['wavelength'], a['output_dx'])
    except Exception:
        return  # non-scalar use, out of this monitor's domain
    _scalar_close('Q_for_sampling.closed-form', result, ref, 'C03/Q_for_sampling',
                  'Q_for_sampling != (lambda z / D) / dx_out', _merge({'fn': 'Q_for_sampling', **{k: float(v) for k, v in a.items()}}), lowp=any(low_precision(v) for v in a.values()))


def post_pupil_to_psf(token, args, kwargs, result):
    a = _bind(['pupil_sample', 'samples', 'wavelength', 'efl'], {}, args, kwargs)
    try:
        ref = D.psf_spacing(a['pupil_sample'], a['samples'], a['wavelength'], a['efl'])
    except Exception:
        return
    _scalar_close('pupil_sample_to_psf_sample.closed-form', result, ref, 'C03/pupil_sample_to_psf_sample',
                  'pupil_sample_to_psf_sample != lambda f / (N dx)', _merge({'fn': 'pupil_sample_to_psf_sample', **{k: float(v) for k, v in a.items()}}), lowp=any(low_precision(v) for v in a.values()))


def post_psf_to_pupil(token, args, kwargs, result):
    a = _bind(['psf_sample', 'samples', 'wavelength', 'efl'], {}, args, kwargs)
    try:
        ref = D.pupil_spacing(a['psf_sample'], a['samples'], a['wavelength'], a['efl'])
    except Exception:
        return
    _scalar_close('psf_sample_to_pupil_sample.closed-form', result, ref, 'C03/psf_sample_to_pupil_sample',
                  'psf_sample_to_pupil_sample != lambda f / (N dx)', _merge({'fn': 'psf_sample_to_pupil_sample', **{k: float(v) for k, v in a.items()}}), lowp=any(low_precision(v) for v in a.values()))


def install():
    from prysm import propagation
    attach(propagation, 'Q_for_sampling', post=post_Q_for_sampling)
    attach(propagation, 'pupil_sample_to_psf_sample', post=post_pupil_to_psf)
    attach(propagation, 'psf_sample_to_pupil_sample', post=post_psf_to_pupil)
    attach(propagation, 'focus_fixed_sampling', pre=_pre_fixed, post=post_focus_fixed)
    attach(propagation, 'unfocus_fixed_sampling', pre=_pre_fixed, post=post_unfocus_fixed)
    attach(propagation.Wavefront, 'focus', pre=_pre_wf, post=post_wf_focus)
    attach(propagation.Wavefront, 'unfocus', pre=_pre_wf, post=post_wf_unfocus)


def install_monitors(ctx):
    """Attach the contracts for the repository's own test traffic (vp/pytest_monitors.py)."""
    global CTX
    CTX = ctx
    install()


# ------------------------------------------------------------------------------------------ generators
def case_rng(ctx, tag, k):
    return np.random.default_rng([ctx.seed, tag, int(k)])


def logu(rng, lo, hi):
    return float(math.exp(rng.uniform(math.log(lo), math.log(hi))))


def physical(rng):
    return logu(rng, 0.3, 12.0), logu(rng, 10.0, 5000.0), logu(rng, 1e-3, 1.0)   # wavelength um, efl mm, pupil dx mm


def with_parity(n, par, lo, hi):
    """Nearest integer to n inside [lo, hi] with the requested parity ('e' / 'o')."""
    n = int(min(max(n, lo), hi))
    if parity(n) != par:
        n = n + 1 if n + 1 <= hi else n - 1
    return n


IN_CLASSES = ['sq:e', 'sq:o', 'nonsq:ee', 'nonsq:eo', 'nonsq:oe', 'nonsq:oo', 'line:1xN', 'line:Nx1', 'extreme:2xN', 'extreme:Nx3']
OUT_CLASSES = ['sq:e', 'sq:o', 'nonsq']
METHODS = ['mdft', 'czt']
SHIFTS = ['0', 'int', 'frac']


def draw_shape(rng, cls, lo, hi):
    if cls.startswith('sq'):
        n = with_parity(int(rng.integers(lo, hi + 1)), cls[-1], lo, hi)
        return (n, n)
    if cls == 'nonsq':
        while True:
            s = (int(rng.integers(lo, hi + 1)), int(rng.integers(lo, hi + 1)))
            if s[0] != s[1]:
                return s
    if cls == 'line:1xN':
        return (1, int(rng.integers(lo, hi + 1)))
    if cls == 'line:Nx1':
        return (int(rng.integers(lo, hi + 1)), 1)
    if cls == 'extreme:2xN':                      # extreme aspect ratio: two rows, as many columns as the round allows
        return (2, int(rng.integers(max(lo, hi - 4), hi + 1)))
    if cls == 'extreme:Nx3':
        return (int(rng.integers(max(lo, hi - 4), hi + 1)), 3)
    p0, p1 = cls[-2], cls[-1]
    while True:
        s = (with_parity(int(rng.integers(lo, hi + 1)), p0, lo, hi), with_parity(int(rng.integers(lo, hi + 1)), p1, lo, hi))
        if s[0] != s[1]:
            return s


def cnormal(rng, shape):
    return rng.standard_normal(shape) + 1j * rng.standard_normal(shape)


def field_array(seed, shape, k, method='mdft'):
    """Random field regenerated from the sub-seed: complex, or (every 6th case) real-valued -- of which every other one is an
    integer or boolean image (a 0/1 aperture mask), through either method."""
    r = np.random.default_rng(seed)
    if k % 6 == 5:        # k: per-case variant number
        if (k // 6) % 2:
            return (r.random(shape) < 0.7) if (k // 12) % 2 else r.integers(0, 5, shape)
        return r.standard_normal(shape)
    return cnormal(r, shape)


def draw_shift(rng, cls, room=None):
    """Shift in output samples (sx, sy) of the class; for 'int' bounded so the peak stays in the window."""
    if cls == '0':
        return (0.0, 0.0)
    which = int(rng.integers(3))          # x only, y only, both
    if cls == 'int':
        v = [int(rng.integers(1, 6)) * (1 if rng.random() < 0.5 else -1) for _ in range(2)]
    else:
        v = [float(np.round(rng.uniform(-4, 4), 3)) for _ in range(2)]
        v = [x if x != int(x) else x + 0.37 for x in v]
    if which == 0:
        v[1] = 0
    elif which == 1:
        v[0] = 0
    return (float(v[0]), float(v[1]))


# ------------------------------------------------------------------------------------------ workloads
def run(ctx):
    global CTX, CUR
    CTX = ctx
    install()
    try:
        _run(ctx)
    finally:
        CUR = None
        detach_all()


def _clear_caches():
    from prysm import fttools
    fttools.mdft.clear()
    fttools.czt.clear()


def _run(ctx):
    import time
    secs = {}

    def timed(name, f, *a):
        t = time.time()
        f(*a)
        secs[name] = round(time.time() - t, 1)
    timed('helpers', wl_helpers, ctx)
    timed('fft', wl_fft, ctx)
    timed('fixed-focus', wl_fixed, ctx, 'focus')
    timed('fixed-unfocus', wl_fixed, ctx, 'unfocus')
    _clear_caches()
    timed('history', wl_history, ctx)
    timed('repeat', wl_repeat, ctx)
    timed('forms', wl_forms, ctx)
    timed('foreign', wl_foreign, ctx)
    timed('special', wl_special, ctx)
    timed('scale-units', wl_scale_units, ctx)
    timed('sizes', wl_sizes, ctx)
    timed('backend', wl_backend, ctx)
    timed('chains', wl_chains, ctx)
    ctx.note('workload_seconds(first shard)', secs)
    _clear_caches()


def wl_helpers(ctx):
    global CUR
    from prysm import propagation as P
    n = ctx.pick(240, 48000)
    for k in range(n):
        if not ctx.mine(k):
            continue
        rng = case_rng(ctx, 1, k)
        wvl, efl, dx = physical(rng)
        N = int(rng.integers(1, 4097))
        desc = {'wl': 'helpers', 'class': 'helpers', 'wavelength': wvl, 'efl': efl, 'dx': dx, 'samples': N}
        CUR = desc
        ctx.case(desc)
        with ctx.guard('C03/helpers', desc):
            p = P.pupil_sample_to_psf_sample(dx, N, wvl, efl)
            back = P.psf_sample_to_pupil_sample(p, N, wvl, efl)
            ctx.require('spacing.roundtrip', abs(back - dx) <= 1e-14 * dx, 'C03/spacing-roundtrip',
                        'psf_sample_to_pupil_sample(pupil_sample_to_psf_sample(dx)) != dx', desc, got=back)
            q = P.psf_sample_to_pupil_sample(dx * 1e3, N, wvl, efl)
            back = P.pupil_sample_to_psf_sample(q, N, wvl, efl)
            ctx.require('spacing.roundtrip', abs(back - dx * 1e3) <= 1e-14 * dx * 1e3, 'C03/spacing-roundtrip',
                        'pupil_sample_to_psf_sample(psf_sample_to_pupil_sample(dx)) != dx', desc, got=back)
            P.Q_for_sampling(N * dx, efl, wvl, logu(rng, 0.05, 50.0))
            P.Q_for_sampling(input_diameter=N * dx, prop_dist=efl * 3, wavelength=wvl, output_dx=logu(rng, 0.05, 50.0))
    CUR = None


def _peak(a):
    i = np.abs(np.asarray(a)) ** 2
    iy, ix = np.unravel_index(int(np.argmax(i)), i.shape)
    return int(iy), int(ix)


def _slope(out, axis):
    """Mean phase step between neighbouring samples along an axis (radians, wrapped to (-pi, pi])."""
    out = np.asarray(out)
    if axis == 1:
        z = np.sum(out[:, 1:] * np.conj(out[:, :-1]))
    else:
        z = np.sum(out[1:, :] * np.conj(out[:-1, :]))
    return float(np.angle(z))


def _wrapdiff(a, b):
    return abs(float(np.angle(np.exp(1j * (a - b)))))


def wl_fft(ctx):
    """FFT route: Wavefront.focus / unfocus on every square N x Q, random field (M1 via contract) or tilt / spot (M2)."""
    global CUR
    from prysm import propagation as P
    Qs = [1, 2, 3, 4, 1.5, 2.5]
    reps = ctx.pick(1, 12)
    k = -1
    for rep in range(reps):
        for N in range(4, ctx.pick(34, 65)):
            for Q in Qs:
                for route in ('focus', 'unfocus'):
                    for field in ('random', 'tilt'):
                        k += 1
                        if not ctx.mine(k):
                            continue
                        rng = case_rng(ctx, 2, k)
                        wvl, efl, dx = physical(rng)
                        Npad = math.ceil(N * Q)
                        kmax = max(1, N // 2 - 1)
                        ky, kx = (int(rng.integers(-kmax, kmax + 1)) for _ in range(2))
                        if field == 'tilt' and kx == 0 and ky == 0:
                            kx = 1 if rng.random() < 0.5 else -1
                        if field == 'tilt' and rng.random() < 0.5:      # single-axis tilt: a wrong axis cannot hide
                            if rng.random() < 0.5:
                                kx = 0
                                ky = ky or 1
                            else:
                                ky = 0
                                kx = kx or -1
                        seed = int(rng.integers(2**31 - 1))
                        desc = {'wl': 'fft', 'route': route, 'N': N, 'Q': Q, 'field': field, 'wavelength': wvl, 'efl': efl,
                                'dx': dx, 'k': (kx, ky), 'seed': seed,
                                'class': f'fft:{route}:{parity(N)}->{parity(Npad)}:{_qclass(Q)}:{field}'}
                        CUR = desc
                        ctx.case(desc)
                        key = f'C03/Wavefront.{route}/fft/{_qclass(Q)}'
                        with ctx.guard(key, desc):
                            if route == 'focus':
                                _fft_focus_case(ctx, P, desc, key, N, Q, Npad, field, wvl, efl, dx, kx, ky, seed)
                            else:
                                _fft_unfocus_case(ctx, P, desc, key, N, Q, Npad, field, wvl, efl, dx, kx, ky, seed)
    CUR = None


def _fft_focus_case(ctx, P, desc, key, N, Q, Npad, field, wvl, efl, dx, kx, ky, seed):
    from prysm.coordinates import make_xy_grid
    from ..util import precision
    bits, dbits = precision_class(seed)
    desc.update(precision=bits, data_bits=dbits)
    if field == 'random':
        a = to_bits(cnormal(np.random.default_rng(seed), (N, N)), dbits)
        with precision(bits):
            P.Wavefront(a, wvl, dx).focus(efl, Q)            # judged by the contract (M1)
        return
    Dw = N * dx
    x, y = make_xy_grid((N, N), dx=dx)
    opd = (kx * x + ky * y) / Dw * wvl * 1e3             # nm: k waves across the width D
    wf = P.Wavefront.from_amp_and_phase(np.ones((N, N)), opd, wvl, dx)
    wf.data = to_bits(wf.data, dbits)
    with precision(bits):
        out = wf.focus(efl, Q)
        inten = out.intensity
        gx_, gy_ = np.asarray(inten.x), np.asarray(inten.y)
    ex, ey = D.tilt_displacement(kx, Dw, wvl, efl), D.tilt_displacement(ky, Dw, wvl, efl)
    if (kx * Npad) % N or (ky * Npad) % N:
        ctx.skip('tilt->displacement.fft: spot between samples (judged by M1 only)')
        return
    iy, ix = _peak(out.data)
    px, py = float(gx_[iy, ix]), float(gy_[iy, ix])
    tol = (1e-9 if bits == 64 else 1e-4) * abs(float(out.dx)) * Npad      # the reported grid is float32 in the float32 configuration
    ok = abs(px - ex) <= tol and abs(py - ey) <= tol
    ctx.require('tilt->displacement.fft', ok, key,
                'Wavefront.focus: a pupil with k waves of tilt does not peak at k*lambda*f/D in the reported coordinates',
                desc, peak_xy=(px, py), expected_xy=(ex, ey), reported_dx=float(out.dx))


def _fft_unfocus_case(ctx, P, desc, key, N, Q, Npad, field, wvl, efl, dx, kx, ky, seed):
    from ..util import precision
    dxp = dx * 1e3 * 0.01          # a focal-plane spacing in microns
    bits, dbits = precision_class(seed)
    desc.update(precision=bits, data_bits=dbits)
    if field == 'random':
        a = to_bits(cnormal(np.random.default_rng(seed), (N, N)), dbits)
        with precision(bits):
            P.Wavefront(a, wvl, dxp, space='psf').unfocus(efl, Q)
        return
    a = np.zeros((N, N), dtype=np.complex64 if dbits == 32 else complex)
    a[N // 2 + ky, N // 2 + kx] = 1.0
    with precision(bits):
        out = P.Wavefront(a, wvl, dxp, space='psf').unfocus(efl, Q)
    # spot at (X0, Y0) = (kx, ky)*dxp -> pupil tilt exp(2 pi i (x X0 + y Y0)/(lambda f)), read with the reported dx
    sx_ref = 2 * math.pi * (kx * dxp) * float(out.dx) / (wvl * efl)
    sy_ref = 2 * math.pi * (ky * dxp) * float(out.dx) / (wvl * efl)
    if max(abs(sx_ref), abs(sy_ref)) > 0.95 * math.pi:
        ctx.skip('spot->tilt: slope aliased')
        return
    stol = SLOPE_TOL[dbits == 32]
    ok = _wrapdiff(_slope(out.data, 1), sx_ref) <= stol and _wrapdiff(_slope(out.data, 0), sy_ref) <= stol
    ctx.require('spot->tilt.fft', ok, key,
                'Wavefront.unfocus: a displaced focal spot does not return the pupil tilt 2*pi*X0/(lambda f) per mm at the reported dx',
                desc, slope_xy=(_slope(out.data, 1), _slope(out.data, 0)), expected=(sx_ref, sy_ref), reported_dx=float(out.dx))


def wl_fixed(ctx, route):
    """Fixed-sampling routes over the class grid; M1 is evaluated by the contract on every call, M2 here."""
    global CUR
    from prysm import propagation as P
    rounds = ctx.pick(8, 480)
    tag = 3 if route == 'focus' else 4
    k = -1
    done = 0
    for rnd in range(rounds):
        # smallest first; the thorough tier goes on to 48 / 64 input samples and 128 / 192 output samples
        hi_in = [9, 16, 33][min(rnd, 2)] if rnd < 120 else (48 if rnd < 240 else 64)
        hi_out = [24, 48, 96][min(rnd, 2)] if rnd < 120 else (128 if rnd < 240 else 192)
        for icls in IN_CLASSES:
            for ocls in OUT_CLASSES:
                for method in METHODS:
                    for scls in SHIFTS:
                        for field in ('random', 'point'):
                            k += 1
                            if not ctx.mine(k):
                                continue
                            if field == 'point' and (icls.startswith('line') or icls.startswith('extreme')):
                                continue               # tilt / slope laws need two samples on each axis; M1 covers lines
                            done += 1
                            if done % 64 == 0:
                                _clear_caches()
                            rng = case_rng(ctx, tag, k)
                            if route == 'focus':
                                _fixed_focus_case(ctx, P, rng, icls, ocls, method, scls, field, hi_in, hi_out, k)
                            else:
                                _fixed_unfocus_case(ctx, P, rng, icls, ocls, method, scls, field, hi_in, hi_out, k)
    CUR = None


RATIOS = [0.2, 0.25, 1 / 3, 0.5, 1.0, 1.5, 2.0, 3.0]
SLOPE_TOL = {False: 1e-9, True: 2e-3}     # rad; float32 round-off of the fitted slope measured <= 1.5e-6 over 18 000 cases


def precision_class(v):
    """(configured precision, data precision) of a case from its variant number: 3 in 4 cases float64 / float64, the
    rest float32 / float32, float32 configuration with float64 data, float64 configuration with float32 data."""
    c = (v // 16) % 12
    return {0: (32, 32), 1: (32, 64), 2: (64, 32)}.get(c, (64, 64))


def to_bits(a, dbits):
    if dbits == 32:
        return a.astype(np.complex64 if np.iscomplexobj(a) else np.float32)
    return a


def _fixed_focus_case(ctx, P, rng, icls, ocls, method, scls, field, hi_in, hi_out, k):
    global CUR
    from prysm.coordinates import make_xy_grid
    from ..util import precision
    k = int(rng.integers(1 << 30))                        # per-case variant number (decoupled from the class loops)
    wvl, efl, dx = physical(rng)
    shp = draw_shape(rng, icls, 4, hi_in)
    seed = int(rng.integers(2**31 - 1))
    use_wf = bool(k % 2)
    cls = f'focus:{icls}->{ocls}:{method}:shift={scls}:{"tilt" if field == "point" else "random"}' + KEYTAG.replace('/', ':')
    if field == 'random':
        crit = wvl * efl / (max(shp) * dx)
        odx = crit * logu(rng, 0.2, 3.0)
        samples = draw_shape(rng, ocls, 8, hi_out)
        s = draw_shift(rng, scls)
        shift = (s[0] * odx, s[1] * odx)
        desc = {'wl': 'fixed', 'route': 'focus', 'class': cls, 'shape': shp, 'samples': samples, 'method': method, 'wavelength': wvl,
                'efl': efl, 'dx': dx, 'odx': odx, 'shift_samples': s, 'seed': seed, 'api': 'Wavefront' if use_wf else 'function'}
        bits, dbits = precision_class(k)
        desc.update(precision=bits, data_bits=dbits)
        desc['class'] = cls + (f':p{bits}/d{dbits}' if (bits, dbits) != (64, 64) else '')
        CUR = desc
        ctx.case(desc)
        a = field_array(seed, shp, k, method)
        a = to_bits(a, dbits) if a.dtype.kind in 'fc' else a
        key = fixed_key('focus', method, shp, samples, scls != '0')
        arg_samples = samples[0] if (samples[0] == samples[1] and (k // 2) % 4 == 1) else samples
        with precision(bits), ctx.guard(_raise_key(method, key, scls), desc, what=_raise_what(method, scls)):
            if use_wf:
                P.Wavefront(a, wvl, dx).focus_fixed_sampling(efl, odx, arg_samples, shift=shift, method=method)
            else:
                P.focus_fixed_sampling(a, dx, efl, wvl, odx, arg_samples, shift=shift, method=method)
        return
    # uniform pupil, tilt of k waves across a physical width D = Nd*dx; requested spacing a rational multiple r of
    # lambda f / D so that the spot lands exactly on output sample m = k / r
    Nd = int(rng.choice([shp[0], shp[1], max(4, int(rng.integers(max(shp) // 2 + 1, 2 * max(shp) + 1)))]))
    Dw = Nd * dx
    rs = [r for r in RATIOS if math.floor(0.9 * Nd / r) >= 10]
    r = float(rs[int(rng.integers(len(rs)))])
    smax = min(hi_out, math.floor(0.9 * Nd / r))          # window narrower than one alias period (= Nd/r samples)
    samples = draw_shape(rng, ocls, 8, smax)
    odx = r * wvl * efl / Dw
    s = draw_shift(rng, scls)
    m = []
    mode = int(rng.integers(3))                           # 0: x tilt only, 1: y tilt only, 2: both
    for ax, sh, zero in ((1, s[0], mode == 1), (0, s[1], mode == 0)):      # (x -> axis 1, y -> axis 0)
        half_lo, half_hi = -(samples[ax] // 2), samples[ax] - samples[ax] // 2 - 1
        lo = max(half_lo + 1 - math.floor(sh), -int(0.45 * Nd / r))
        hi = min(half_hi - 1 - math.ceil(sh), int(0.45 * Nd / r))
        if hi < lo:                                       # the shift alone pushes every spot out of the window
            m.append(None)
        elif zero and lo <= 0 <= hi:
            m.append(0)
        else:
            m.append(int(rng.integers(lo, hi + 1)))
    in_window = None not in m
    mx, my = (v or 0 for v in m)
    kx, ky = mx * r, my * r                                # waves of tilt (integer or fractional)
    shift = (s[0] * odx, s[1] * odx)
    desc = {'wl': 'fixed', 'route': 'focus', 'class': cls, 'shape': shp, 'samples': samples, 'method': method, 'wavelength': wvl,
            'efl': efl, 'dx': dx, 'odx': odx, 'D': Dw, 'ratio': r, 'waves': (kx, ky), 'spot_samples': (mx, my), 'shift_samples': s,
            'api': 'Wavefront' if use_wf else 'function'}
    bits, dbits = precision_class(k)
    desc.update(precision=bits, data_bits=dbits)
    desc['class'] = cls + (f':p{bits}/d{dbits}' if (bits, dbits) != (64, 64) else '')
    CUR = desc
    ctx.case(desc)
    x, y = make_xy_grid(shp, dx=dx)
    key = fixed_key('focus', method, shp, samples, scls != '0')
    with precision(bits), ctx.guard(_raise_key(method, key, scls), desc, what=_raise_what(method, scls)):
        opd = (kx * x + ky * y) / Dw * wvl * 1e3
        with precision(64):
            wf = P.Wavefront.from_amp_and_phase(np.ones(shp), opd, wvl, dx)
        wf.data = to_bits(wf.data, dbits)
        if use_wf:
            out = wf.focus_fixed_sampling(efl, odx, samples, shift=shift, method=method)
            data = out.data
            inten = out.intensity
            gx, gy = np.asarray(inten.x), np.asarray(inten.y)
        else:
            data = P.focus_fixed_sampling(wf.data, dx, efl, wvl, odx, samples, shift=shift, method=method)
            gx, gy = None, None
        if scls == 'frac':
            ctx.skip('tilt->displacement.fixed: fractional shift puts the spot between samples (judged by M1 only)')
            return
        if not in_window:
            ctx.skip('tilt->displacement.fixed: shift moves the spot out of the window (judged by M1 only)')
            return
        if np.asarray(data).shape != tuple(samples) or not np.all(np.isfinite(data)):
            return                                         # already reported by the contract
        iy, ix = _peak(data)
        ey_i, ex_i = samples[0] // 2 + my + int(s[1]), samples[1] // 2 + mx + int(s[0])
        ok = (iy, ix) == (ey_i, ex_i)
        g = geom_label('focus', method, shp, samples)
        if scls == '0':
            ctx.require('tilt->displacement.fixed', ok, key,
                        _what('focus', method, g) + ' [k waves of tilt across D do not peak on the sample at k*lambda*f/D]',
                        desc, peak_index=(iy, ix), expected_index=(ey_i, ex_i))
        else:
            ctx.require('shift-translates-image', ok, key,
                        _what('focus', method, g) + ' [the spot is not at k*lambda*f/D + shift in output samples]',
                        desc, peak_index=(iy, ix), expected_index=(ey_i, ex_i))
        if gx is not None and ok:
            ex_phys = D.tilt_displacement(kx, Dw, wvl, efl) + shift[0]
            ey_phys = D.tilt_displacement(ky, Dw, wvl, efl) + shift[1]
            tol = (1e-9 if bits == 64 else 1e-4) * odx * max(samples)      # the reported grid is float32 in the float32 configuration
            ctx.require('tilt->displacement.fixed', abs(float(gx[iy, ix]) - ex_phys) <= tol and abs(float(gy[iy, ix]) - ey_phys) <= tol,
                        key + '/reported-coordinates', 'Wavefront.focus_fixed_sampling: reported x/y at the peak are not k*lambda*f/D + shift',
                        desc, got=(float(gx[iy, ix]), float(gy[iy, ix])), expected=(ex_phys, ey_phys))


def _raise_what(method, scls):
    if method == 'czt' and scls != '0':
        return 'focus_/unfocus_fixed_sampling(method=czt, shift != 0)'
    return f'fixed-sampling propagation (method={method})'


def _raise_key(method, key, scls):
    """Key under which an exception escaping the call is reported (ctx.guard appends /raises:<Type>)."""
    if method == 'czt' and scls != '0':
        return 'C03/fixed-sampling/czt/shift!=0' + KEYTAG
    return key


def _fixed_unfocus_case(ctx, P, rng, icls, ocls, method, scls, field, hi_in, hi_out, k):
    global CUR
    from ..util import precision
    k = int(rng.integers(1 << 30))                        # per-case variant number
    wvl, efl, dx = physical(rng)                          # dx: requested pupil spacing (mm)
    # here the *input* is the focal-plane array (8..hi_out samples), the *output* the pupil (4..hi_in samples)
    fshape = draw_shape(rng, icls, 8, hi_out)
    pshape = draw_shape(rng, ocls, 4, hi_in)
    crit = wvl * efl / (max(pshape) * dx)
    fdx = crit * logu(rng, 0.2, 3.0)                      # focal-plane spacing (um)
    s = draw_shift(rng, scls)
    shift = (s[0] * dx, s[1] * dx)                        # units of the output (pupil) spacing
    seed = int(rng.integers(2**31 - 1))
    use_wf = bool(k % 2)
    cls = f'unfocus:{icls}->{ocls}:{method}:shift={scls}:{"spot" if field == "point" else "random"}' + KEYTAG.replace('/', ':')
    desc = {'wl': 'fixed', 'route': 'unfocus', 'class': cls, 'shape': fshape, 'samples': pshape, 'method': method, 'wavelength': wvl,
            'efl': efl, 'focal_dx': fdx, 'pupil_dx': dx, 'shift_samples': s, 'seed': seed, 'api': 'Wavefront' if use_wf else 'function'}
    key = fixed_key('unfocus', method, fshape, pshape, scls != '0')
    bits, dbits = precision_class(k)
    desc.update(precision=bits, data_bits=dbits)
    desc['class'] = cls + (f':p{bits}/d{dbits}' if (bits, dbits) != (64, 64) else '')
    if field == 'random':
        CUR = desc
        ctx.case(desc)
        a = field_array(seed, fshape, k, method)
        a = to_bits(a, dbits) if a.dtype.kind in 'fc' else a
        arg_samples = pshape[0] if (pshape[0] == pshape[1] and (k // 2) % 4 == 1) else pshape
        with precision(bits), ctx.guard(_raise_key(method, key, scls), desc, what=_raise_what(method, scls)):
            if use_wf:
                P.Wavefront(a, wvl, fdx, space='psf').unfocus_fixed_sampling(efl, dx, arg_samples, shift=shift, method=method)
            else:
                P.unfocus_fixed_sampling(a, fdx, efl, wvl, dx, arg_samples, shift=shift, method=method)
        return
    # a displaced focal spot: delta at (my, mx) samples from the origin -> pupil tilt
    lim = wvl * efl / (2 * fdx * dx)                       # |m| below this keeps the slope un-aliased
    my, mx = (int(rng.integers(-min(fshape[ax] // 2, int(0.9 * lim)), min(fshape[ax] - fshape[ax] // 2 - 1, int(0.9 * lim)) + 1))
              for ax in (0, 1))
    mode = int(rng.integers(3))
    if mode == 0:
        my = 0
    elif mode == 1:
        mx = 0
    desc = dict(desc, spot_samples=(mx, my))
    CUR = desc
    ctx.case(desc)
    a = np.zeros(fshape, dtype=np.complex64 if dbits == 32 else complex)
    a[fshape[0] // 2 + my, fshape[1] // 2 + mx] = 1.0
    with precision(bits), ctx.guard(_raise_key(method, key, scls), desc, what=_raise_what(method, scls)):
        if use_wf:
            out = P.Wavefront(a, wvl, fdx, space='psf').unfocus_fixed_sampling(efl, dx, pshape, shift=shift, method=method).data
        else:
            out = P.unfocus_fixed_sampling(a, fdx, efl, wvl, dx, pshape, shift=shift, method=method)
        if scls != '0':
            ctx.skip('spot->tilt.fixed: with a shift only moduli are specified (a delta has constant modulus; M1 judges it)')
            return
        if np.asarray(out).shape != tuple(pshape) or not np.all(np.isfinite(out)):
            return
        sx_ref = 2 * math.pi * (mx * fdx) * dx / (wvl * efl)
        sy_ref = 2 * math.pi * (my * fdx) * dx / (wvl * efl)
        stol = SLOPE_TOL[bits == 32 or dbits == 32]
        ok = _wrapdiff(_slope(out, 1), sx_ref) <= stol and _wrapdiff(_slope(out, 0), sy_ref) <= stol
        g = geom_label('unfocus', method, fshape, pshape)
        ctx.require('spot->tilt.fixed', ok, key,
                    _what('unfocus', method, g) + ' [a displaced focal spot does not return the pupil tilt 2*pi*X0/(lambda f)]',
                    desc, slope_xy=(_slope(out, 1), _slope(out, 0)), expected=(sx_ref, sy_ref))


# ------------------------------------------------------------------------------------------ class B: histories
def _cfield(seed, shape, bits):
    a = cnormal(np.random.default_rng(seed), shape)
    return a.astype(np.complex64) if bits == 32 else a


def wl_history(ctx):
    """Histories on the shared executors through the fixed-sampling wrappers at FIXED array sizes: focus / unfocus (function
    and Wavefront form) and to_fpm_and_back, shifted and unshifted, every step with another wavelength / focal length /
    spacing / shift (so the basis caches miss while anything keyed on the array sizes alone hits), both methods, precision
    switches 32 <-> 64 and mixed dtypes.  Every step is judged by the contract against the physical model, which knows
    nothing of the process history; the last step is always a float64 call (the 32 -> 64 switch at full tolerance)."""
    global CUR
    from prysm import propagation as P
    from prysm.conf import config
    n = ctx.pick(400, 120000)
    maxlen = ctx.pick(6, 14)
    for k in range(n):
        if not ctx.mine(k):
            continue
        rng = case_rng(ctx, 7, k)
        icls = IN_CLASSES[int(rng.integers(len(IN_CLASSES)))] if rng.random() < 0.5 else ('sq:e', 'sq:o')[int(rng.integers(2))]
        ocls = OUT_CLASSES[int(rng.integers(len(OUT_CLASSES)))] if rng.random() < 0.5 else ('sq:e', 'sq:o')[int(rng.integers(2))]
        shp = draw_shape(rng, icls, 4, ctx.pick(10, 24))          # pupil array
        smp = draw_shape(rng, ocls, 8, ctx.pick(20, 48))          # focal array
        L = int(rng.integers(3, maxlen + 1))
        steps = []
        for j in range(L):
            r = rng.random()
            if r < 0.12 and j < L - 1:
                steps.append((('p32', 'p64')[int(rng.integers(2))],))
                continue
            kind = ('focus', 'focus-wf', 'unfocus', 'unfocus-wf', 'tfb', 'tfb-wf')[int(rng.integers(6))]
            method = ('mdft', 'mdft', 'czt')[int(rng.integers(3))]
            scls = SHIFTS[int(rng.integers(3))]
            steps.append((kind, method, scls, int(rng.integers(2**31 - 1)), bool(rng.random() < 0.2)))
        desc = {'wl': 'history', 'class': f'history:{icls}->{ocls}:len{L}', 'shape': shp, 'samples': smp,
                'steps': [list(s_) for s_ in steps], 'k': k}
        ctx.case(desc)
        _clear_caches()
        config.precision = 64
        try:
            for j, st in enumerate(steps):
                ctx.observe('history.ops')
                if st[0] in ('p32', 'p64'):
                    config.precision = int(st[0][1:])
                    continue
                kind, method, scls, seed, mixed = st
                if j == L - 1:
                    config.precision = 64                  # the judged last step is a float64 call
                    mixed = False
                bits = conf_bits()
                dbits = (96 - bits) if mixed else bits
                r2 = np.random.default_rng(seed)
                wvl, efl, dx = physical(r2)
                s_ = draw_shift(r2, scls)
                CUR = dict(desc, step=j, step_kind=kind, method=method, shift_samples=s_, precision=bits, data_bits=dbits)
                key = fixed_key('focus' if not kind.startswith('unfocus') else 'unfocus', method, shp if not kind.startswith('unfocus') else smp,
                                smp if not kind.startswith('unfocus') else shp, scls != '0')
                with ctx.guard(_raise_key(method, key, scls), CUR, what=_raise_what(method, scls)):
                    if kind.startswith('focus'):
                        odx = wvl * efl / (max(shp) * dx) * logu(r2, 0.2, 3.0)
                        shift = (s_[0] * odx, s_[1] * odx)
                        a = _cfield(seed, shp, dbits)
                        if kind == 'focus':
                            P.focus_fixed_sampling(a, dx, efl, wvl, odx, smp, shift=shift, method=method)
                        else:
                            P.Wavefront(a, wvl, dx).focus_fixed_sampling(efl, odx, smp, shift=shift, method=method)
                    elif kind.startswith('unfocus'):
                        fdx = wvl * efl / (max(shp) * dx) * logu(r2, 0.2, 3.0)
                        shift = (s_[0] * dx, s_[1] * dx)
                        a = _cfield(seed, smp, dbits)
                        if kind == 'unfocus':
                            P.unfocus_fixed_sampling(a, fdx, efl, wvl, dx, shp, shift=shift, method=method)
                        else:
                            P.Wavefront(a, wvl, fdx, space='psf').unfocus_fixed_sampling(efl, dx, shp, shift=shift, method=method)
                    else:
                        fdx = wvl * efl / (max(shp) * dx) * logu(r2, 0.2, 3.0)
                        shift = (s_[0] * fdx, s_[1] * fdx)
                        a = _cfield(seed, shp, dbits)
                        mask = r2.random(smp) if seed % 2 else cnormal(r2, smp)
                        if kind == 'tfb':
                            P.to_fpm_and_back(a, dx, efl, wvl, mask, fdx, shift=shift, method=method)
                        else:
                            P.Wavefront(a, wvl, dx).to_fpm_and_back(efl, mask, fdx, method=method, shift=shift)
        finally:
            config.precision = 64
            CUR = None
    _clear_caches()


# ------------------------------------------------------------------------------------------ class A: repeat / aliasing
def wl_repeat(ctx):
    """The same call made again with the *same argument objects*: the shift as tuple / list / float64, float32, int ndarray /
    numpy scalars, the sample counts as int / tuple / numpy integers, the data array in six memory layouts; function form,
    Wavefront form and to_fpm_and_back with the same shift object.  Laws (c01.repeat_laws): the later call reproduces the
    first; the container / layout is not part of the answer.  On top, the statement's own corollary on the LATER call: a
    tilted uniform pupil peaks at k*lambda*f/D + shift, with the shift the caller put into the container."""
    global CUR
    from prysm import propagation as P
    from prysm.coordinates import make_xy_grid
    from ..util import precision
    from .c01 import repeat_laws
    n = ctx.pick(400, 180000)
    for k in range(n):
        if not ctx.mine(k):
            continue
        rng = case_rng(ctx, 8, k)
        route = ('focus', 'unfocus', 'tfb', 'tilt')[int(rng.integers(4))]
        method = ('mdft', 'czt')[int(rng.integers(2))]
        bits = 32 if rng.random() < 0.15 else 64
        dbits = bits if rng.random() < 0.8 else (96 - bits)
        single = bits == 32 or dbits == 32
        lay = LAYOUTS[int(rng.integers(len(LAYOUTS)))]
        hkind = SHIFT_CONTAINERS[int(rng.integers(len(SHIFT_CONTAINERS)))]
        scls = ('int', 'frac')[int(rng.integers(2))]
        wvl, efl, dx = physical(rng)
        icls = ('sq:e', 'sq:o', 'nonsq:eo', 'nonsq:oe')[int(rng.integers(4))]
        shp = draw_shape(rng, icls, 4, ctx.pick(9, 24))
        smp = draw_shape(rng, OUT_CLASSES[int(rng.integers(3))], 8, ctx.pick(16, 48))
        skind = ('tuple', 'np-ints', 'int')[int(rng.integers(3))] if smp[0] == smp[1] else ('tuple', 'np-ints')[int(rng.integers(2))]
        seed = int(rng.integers(2**31 - 1))
        if route == 'tilt':
            # uniform pupil, integer tilt in output samples, integer shift in samples handed over in a float64-exact container
            hkind = ('tuple', 'list', 'nd-f64', 'np-scalars')[int(rng.integers(4))]
            method = 'mdft' if rng.random() < 0.7 else 'czt'
            bits = dbits = 64
            single = False
            Nd = shp[1]
            rs = [r_ for r_ in (0.25, 0.5, 1.0) if math.floor(0.9 * Nd / r_) >= 10]      # r = 0.25 always qualifies (Nd >= 4)
            r = rs[int(rng.integers(len(rs)))]
            smax = min(ctx.pick(16, 32), math.floor(0.9 * Nd / r))       # window narrower than one alias period (= Nd / r samples)
            smp = (smax, smax) if smp[0] == smp[1] else (smax, max(8, smax - 1 - int(rng.integers(0, 3))))
            skind = 'tuple'
            odx = r * wvl * efl / (Nd * dx)
            half = min(smp) // 2 - 2
            mx = int(rng.integers(-min(half, int(0.4 * Nd / r)), min(half, int(0.4 * Nd / r)) + 1))
            sxi = int(rng.integers(-(half - abs(mx)), (half - abs(mx)) + 1)) if half - abs(mx) > 0 else 0
            syi = int(rng.integers(-half, half + 1))
            if sxi == 0 and syi == 0:
                syi = 1
            shift_vals = (sxi * odx, syi * odx)
        else:
            odx = None
            shift_vals = None
        Sc = {'tuple': smp, 'np-ints': (np.int64(smp[0]), np.int32(smp[1])), 'int': int(smp[0])}[skind]
        conts = {'wavefunction': lay, 'output_samples': skind, 'shift': hkind}
        desc = {'wl': 'repeat', 'route': route, 'method': method, 'shape': shp, 'samples': smp, 'wavelength': wvl, 'efl': efl, 'dx': dx,
                'containers': conts, 'precision': bits, 'data_bits': dbits, 'seed': seed,
                'class': f'repeat:{route}:{method}:{icls}:samples={skind}:shift={hkind}/{scls}:{lay}:p{bits}/d{dbits}'}
        CUR = desc
        ctx.case(desc)
        try:
            with precision(bits):
                if route in ('focus', 'unfocus', 'tfb'):
                    if route == 'unfocus':
                        in_shape, out_shape = smp, shp
                        idx = wvl * efl / (max(shp) * dx) * logu(rng, 0.2, 3.0)      # focal spacing (um)
                        odx = dx                                                     # pupil spacing (mm)
                        Sc2 = {'tuple': shp, 'np-ints': (np.int64(shp[0]), np.int32(shp[1])), 'int': int(shp[0])}[skind if shp[0] == shp[1] else 'tuple']
                        conts['output_samples'] = skind if shp[0] == shp[1] else 'tuple'
                    else:
                        in_shape, out_shape = shp, smp
                        idx = dx
                        odx = wvl * efl / (max(shp) * dx) * logu(rng, 0.2, 3.0)
                        Sc2 = Sc
                    s_ = draw_shift(rng, scls)
                    phys = (s_[0] * odx, s_[1] * odx)
                    if hkind == 'nd-int':
                        phys = (float(int(rng.integers(1, 4)) * (1 if rng.random() < 0.5 else -1)), float(int(rng.integers(0, 3))))
                        if abs(phys[0] / odx) > 6 or abs(phys[1] / odx) > 6:        # keep the window near the field
                            hkind = conts['shift'] = 'nd-f64'
                            phys = (s_[0] * odx, s_[1] * odx)
                    shc = make_container(hkind, phys)
                    plain_shift = container_values(shc)
                    a0 = _cfield(seed, in_shape, dbits)
                    a = relayout(a0, lay)
                    desc.update(shift=plain_shift, input_dx=idx, output_dx=odx)
                    if route == 'tfb':
                        mask = np.random.default_rng(seed + 1).random(out_shape)
                        objs = {'wavefunction': a, 'shift': shc}

                        def call(wavefunction, shift):
                            return P.to_fpm_and_back(wavefunction, idx, efl, wvl, mask, odx, shift=shift, method=method)

                        def wf_form(wavefunction, shift):
                            return P.Wavefront(wavefunction, wvl, idx).to_fpm_and_back(efl, mask, odx, method=method, shift=shift).data
                        base = {'wavefunction': lambda: np.array(a0, copy=True), 'shift': lambda: plain_shift}
                        label = f'to_fpm_and_back/{method}'
                    else:
                        func = P.focus_fixed_sampling if route == 'focus' else P.unfocus_fixed_sampling
                        objs = {'wavefunction': a, 'output_samples': Sc2, 'shift': shc}

                        def call(wavefunction, output_samples, shift):
                            return func(wavefunction, idx, efl, wvl, odx, output_samples, shift=shift, method=method)

                        def wf_form(wavefunction, output_samples, shift):
                            w = P.Wavefront(wavefunction, wvl, idx, space='pupil' if route == 'focus' else 'psf')
                            g = w.focus_fixed_sampling if route == 'focus' else w.unfocus_fixed_sampling
                            return g(efl, odx, output_samples, shift=shift, method=method).data
                        base = {'wavefunction': lambda: np.array(a0, copy=True), 'output_samples': lambda: tuple(out_shape), 'shift': lambda: plain_shift}
                        label = f'{route}_fixed_sampling/{method}'

                    def plain(over, base=base, call=call):
                        return call(**{k_: (over[k_] if k_ in over else base[k_]()) for k_ in base})
                    if method == 'czt' and route == 'tfb':
                        # to_fpm_and_back(method=czt, shift != 0) is C05's ledgered finding; repetition is still required of it
                        pass
                    repeat_laws(ctx, label, call, objs, plain, desc, single, low_precision(shc), [('Wavefront method form', wf_form)], prefix='C03')
                else:
                    x, y = make_xy_grid(shp, dx=dx)
                    Dw = Nd * dx
                    kx = mx * r
                    opd = (kx * x) / Dw * wvl * 1e3
                    wf = P.Wavefront.from_amp_and_phase(np.ones(shp), opd, wvl, dx)
                    a = relayout(wf.data, lay)
                    shc = make_container(hkind, shift_vals)
                    desc.update(shift=shift_vals, output_dx=odx, spot_samples=(mx, 0), shift_samples=(sxi, syi))
                    key = fixed_key('focus', method, shp, smp, True)
                    with ctx.guard(_raise_key(method, key, 'int'), desc, what=_raise_what(method, 'int')):
                        P.focus_fixed_sampling(a, dx, efl, wvl, odx, smp, shift=shc, method=method)
                        P.Wavefront(a, wvl, dx).focus_fixed_sampling(efl, odx, smp, shift=shc, method=method)
                        P.to_fpm_and_back(a, dx, efl, wvl, np.ones(smp), odx, shift=shc, method='mdft')
                        data = np.array(P.focus_fixed_sampling(a, dx, efl, wvl, odx, smp, shift=shc, method=method), copy=True)
                        iy, ix = _peak(data)
                        ey_i, ex_i = smp[0] // 2 + syi, smp[1] // 2 + mx + sxi
                        g = geom_label('focus', method, shp, smp)
                        ctx.require('shift-translates-image', (iy, ix) == (ey_i, ex_i),
                                    f'C03/repeat/focus_fixed_sampling/{method}/later-call-with-the-same-shift-object/image-not-at-k*lambda*f/D+shift',
                                    _what('focus', method, g) + ' [fourth call with the same shift object: the spot is not at k*lambda*f/D + the shift '
                                    'the caller put into the container]', desc, peak_index=(iy, ix), expected_index=(ey_i, ex_i),
                                    shift_object_now=[float(v) for v in shc])
        finally:
            CUR = None
    _clear_caches()


# ------------------------------------------------------------------------------------------ class E: argument forms
FORM_ROUTINES = ('focus_fixed_sampling', 'unfocus_fixed_sampling', 'Wavefront.focus', 'Wavefront.unfocus', 'Q_for_sampling',
                 'pupil_sample_to_psf_sample', 'psf_sample_to_pupil_sample')


def wl_forms(ctx):
    """Class E (vp/propforms.py): every routine of the property in its canonical form (complex128 data, python floats / tuples,
    keywords, explicit defaults) and then in every other accepted form of the same numbers -- field dtype kinds (real-dtype,
    integer, boolean vs the complex copy; both methods, both directions), shift / sample counts in other containers, numpy and
    integer scalars, 0-d arrays, positional calls, omitted defaults after a call with other explicit values, the Wavefront
    method form.  Each form must reproduce the canonical result (Wavefront.focus / unfocus: data AND reported dx), and each call
    is judged by the contracts against the physical model at the coordinates it reports / was asked for."""
    global CUR
    from .. import propforms as PF
    from prysm import propagation as P
    from ..util import precision
    reps = ctx.pick(5, 600)
    k = -1
    for rep in range(reps):
        for routine in FORM_ROUTINES:
            for kind in PF.FIELD_KINDS:
                k += 1
                if not ctx.mine(k):
                    continue
                helper = routine in ('Q_for_sampling', 'pupil_sample_to_psf_sample', 'psf_sample_to_pupil_sample')
                if helper and kind != 'complex':
                    continue
                rng = case_rng(ctx, 9, k)
                bits = 32 if (k // ctx.nshards) % 5 == 4 else 64
                single = bits == 32
                desc = {'wl': 'forms', 'routine': routine, 'field_kind': kind, 'precision': bits, 'k': k, 'class': f'forms:{routine}:{kind}:p{bits}'}
                if not routine.startswith('Wavefront.'):
                    vals = PF.draw_values(routine, rng, kind)
                    desc['values'] = {a_: v_ for a_, v_ in vals.items() if not isinstance(v_, np.ndarray)}
                    CUR = desc
                    ctx.case(desc)
                    with precision(bits):
                        PF.judge_forms(ctx, 'C03', routine, vals, desc, single=single and not helper, field_kinds={'wavefunction': kind})
                    continue
                # Wavefront.focus / unfocus: data and the reported spacing
                route = routine.split('.')[1]
                N = int(rng.integers(2, 10))
                Q = float([1, 2, 3, 1.5, 2.5, 1.25][int(rng.integers(6))])
                wvl, efl, dx = [0.5, 0.625, 1.0, 2.0][int(rng.integers(4))], [64.0, 100.0, 250.0][int(rng.integers(3))], [0.125, 0.25, 1.0, 4.0][int(rng.integers(4))]
                a0 = PF.make_field(kind, (N, N), int(rng.integers(2**31 - 1)))
                desc.update(N=N, Q=Q, wavelength=wvl, efl=efl, dx=dx)
                CUR = desc
                ctx.case(desc, nontrivial=int(np.count_nonzero(a0)) >= 2)
                space = 'pupil' if route == 'focus' else 'psf'

                def run(a=None, wvl_=wvl, dx_=dx, efl_=efl, Q_=Q, style='kw'):
                    w = P.Wavefront(np.array(a0, dtype=complex) if a is None else a, wvl_, dx_, space=space)
                    m = getattr(w, route)
                    o = m(efl=efl_, Q=Q_) if style == 'kw' else (m(efl_, Q_) if style == 'pos' else m(efl_))
                    return np.array(o.data, copy=True), float(o.dx)
                with precision(bits):
                    ref = [None]
                    with ctx.guard(f'C03/Wavefront.{route}/form:canonical', desc):
                        ref[0] = run()
                    if ref[0] is None:
                        continue
                    forms = [('call', 'positional', lambda: run(style='pos'), False)]
                    if Q == 2:
                        def omitted():
                            run(Q_=3)
                            return run(style='omit')
                        forms.append(('Q', 'omitted(default)', omitted, False))
                    for nm, val in (('Q', Q), ('efl', efl), ('wavelength', wvl), ('dx', dx)):
                        for label, make, lowp in PF.scalar_forms(val):
                            kwn = {'Q': 'Q_', 'efl': 'efl_', 'wavelength': 'wvl_', 'dx': 'dx_'}[nm]
                            forms.append((nm, label, (lambda kwn=kwn, make=make: run(**{kwn: make()})), lowp))
                    for label, dt, sgl in PF.field_forms(kind):
                        forms.append(('cmplx_field', PF.DTYPE_CLASS[np.dtype(dt).kind],
                                      (lambda dt=dt: run(a=np.array(a0.real if np.dtype(dt).kind != 'c' else a0).astype(dt))), sgl))
                    for arg, label, call, lowp in forms:
                        key = f'C03/Wavefront.{route}/form:{arg}={label}'
                        d2 = dict(desc, form=f'{arg}={label}')
                        got = [None]
                        with ctx.guard(key, d2):
                            got[0] = call()
                        if got[0] is None:
                            continue
                        ctx.observe('form.equivalence')
                        tol = PF.TOL_SINGLE if (single or lowp) else PF.TOL_EXACT
                        d = PF.rel_diff(got[0][0], ref[0][0])
                        ddx = abs(got[0][1] - ref[0][1]) / abs(ref[0][1])
                        if not (d <= tol and ddx <= (1e-5 if lowp else 1e-14)):
                            ctx.violation(key + '/result-differs-from-canonical-form',
                                          f'Wavefront.{route}: data or reported dx for {arg} given as {label} differ from the canonical call', d2,
                                          rel_diff=d, dx_rel_diff=ddx, tol=tol)
    CUR = None


# ------------------------------------------------------------------------------------------ class F: cross-module histories
def wl_foreign(ctx):
    """Class F: the other public consumers of fftrange / forward_ft_unit / make_xy_grid (incl. the RichData axes) and the shared
    executors run first -- at the axis lengths AND the spacings (input, requested and the one Wavefront.focus will report) of
    the case, with non-zero shifts, ndarray containers, precision 32, every returned array edited in place -- then the routes of
    the property are driven (FFT route with its reported coordinates, fixed sampling in function and Wavefront form, a tilted
    pupil built from the harness' own coordinates) and judged by the contracts and the tilt law, nothing cleared in between."""
    global CUR
    from .. import propforms as PF
    from prysm import propagation as P
    n = ctx.pick(24, 7200)
    for k in range(n):
        if not ctx.mine(k):
            continue
        rng = case_rng(ctx, 10, k)
        N = int(rng.integers(4, ctx.pick(13, 33)))
        Q = [1, 2, 3, 1.5][int(rng.integers(4))]
        Npad = math.ceil(N * Q)
        wvl, efl, dx = physical(rng)
        smp = (int(rng.integers(8, ctx.pick(17, 33))), int(rng.integers(8, ctx.pick(17, 33))))
        if rng.random() < 0.5:
            smp = (smp[0], smp[0])
        rep_dx = (efl * wvl) / (dx * Npad)                       # the spacing Wavefront.focus reports
        odx = wvl * efl / (N * dx) * logu(rng, 0.3, 2.0)         # a requested focal spacing
        method = ('mdft', 'czt')[int(rng.integers(2))]
        seed = int(rng.integers(2**31 - 1))
        desc = {'wl': 'foreign', 'class': f'foreign-traffic-then-routes:{method}:{_qclass(Q)}', 'N': N, 'Q': Q, 'samples': smp, 'method': method,
                'wavelength': wvl, 'efl': efl, 'dx': dx, 'odx': odx, 'seed': seed, 'k': k}
        CUR = desc
        ctx.case(desc)
        PF.foreign_traffic(ctx, rng, [N, Npad, smp[0], smp[1]], dxs=(dx, rep_dx, odx), heavy=(k % 3 == 0), prefix='C03', desc=desc)
        a = cnormal(np.random.default_rng(seed), (N, N))
        s_ = draw_shift(rng, SHIFTS[int(rng.integers(3))])
        shift = (s_[0] * odx, s_[1] * odx)
        key = fixed_key('focus', method, (N, N), smp, s_ != (0.0, 0.0))
        with ctx.guard(_raise_key(method, key, '0' if s_ == (0.0, 0.0) else 'x'), desc, what=_raise_what(method, '0' if s_ == (0.0, 0.0) else 'x')):
            f = P.Wavefront(a, wvl, dx).focus(efl, Q)                                            # contract: field at the reported coordinates
            P.Wavefront(np.array(f.data, copy=True), wvl, float(f.dx), space='psf').unfocus(efl, 1)
            try:        # the adjoint routines (another property's consumers of the same cached bases) at exactly the keys used below
                gb = cnormal(np.random.default_rng(seed + 1), smp)
                P.focus_fixed_sampling_backprop(gb, dx, efl, wvl, odx, (N, N), shift=shift, method='mdft')
                P.focus_fixed_sampling_backprop(gb, dx, efl, wvl, odx, (N, N), method='mdft')
                P.unfocus_fixed_sampling_backprop(cnormal(np.random.default_rng(seed + 2), (N, N)), odx, efl, wvl, dx, smp, shift=(0.5 * dx, -dx), method='mdft')
            except Exception as e:  # noqa -- foreign routine
                ctx.event(f'foreign-traffic-raised:{type(e).__name__}')
            P.focus_fixed_sampling(a, dx, efl, wvl, odx, smp, shift=shift, method=method)
            g = P.Wavefront(a, wvl, dx).focus_fixed_sampling(efl, odx, smp, method=method)
            P.Wavefront(np.array(g.data, copy=True), wvl, odx, space='psf').unfocus_fixed_sampling(efl, dx, N, shift=(0.5 * dx, -dx), method=method)
            # reported coordinates of a fixed-sampling result: sample (i - n//2) * dx on each axis (harness' own arithmetic)
            inten = g.intensity
            gx, gy = np.asarray(inten.x), np.asarray(inten.y)
            ex = (np.arange(smp[1]) - smp[1] // 2) * odx
            ey = (np.arange(smp[0]) - smp[0] // 2) * odx
            ok = gx.shape == tuple(smp) and np.allclose(gx, ex[None, :], rtol=0, atol=1e-9 * odx * max(smp)) and \
                np.allclose(gy, ey[:, None], rtol=0, atol=1e-9 * odx * max(smp))
            ctx.require('tilt->displacement.fixed', ok, key + '/reported-coordinates',
                        'Wavefront.focus_fixed_sampling: the reported x / y are not (index - n//2) * dx [after foreign traffic]', desc)
            if float(Q).is_integer():
                # k waves of tilt across D = N dx, built from the harness' own coordinates: peak at k lambda f / D in the reported grid
                kmax = max(1, N // 2 - 1)
                kx, ky = int(rng.integers(-kmax, kmax + 1)), int(rng.integers(-kmax, kmax + 1))
                xs = (np.arange(N) - N // 2) * dx
                t = np.exp(2j * np.pi * (kx * xs[None, :] + ky * xs[:, None]) / (N * dx))
                out = P.Wavefront(t, wvl, dx).focus(efl, Q)
                inten = out.intensity
                iy, ix = _peak(out.data)
                px, py = float(np.asarray(inten.x)[iy, ix]), float(np.asarray(inten.y)[iy, ix])
                ex_, ey_ = D.tilt_displacement(kx, N * dx, wvl, efl), D.tilt_displacement(ky, N * dx, wvl, efl)
                tol = 1e-9 * abs(float(out.dx)) * Npad
                ctx.require('tilt->displacement.fft', abs(px - ex_) <= tol and abs(py - ey_) <= tol, f'C03/Wavefront.focus/fft/{_qclass(Q)}',
                            'Wavefront.focus: a pupil with k waves of tilt does not peak at k*lambda*f/D in the reported coordinates [after foreign traffic]',
                            dict(desc, waves=(kx, ky)), peak_xy=(px, py), expected_xy=(ex_, ey_), reported_dx=float(out.dx))
    CUR = None
    _clear_caches()


# ------------------------------------------------------------------------------------------ hardening pass 3: classes G / H / I
RULE = RULE + ('.  Hardening pass 3 -- class H ("the requested grid is exactly an FFT grid"): fixed sampling with output_dx EXACTLY the spacing the '
               'library reports for a q-times padded FFT (pupil_sample_to_psf_sample / psf_sample_to_pupil_sample / Wavefront.focus(efl, Q=q).dx; the '
               'library\'s own Q_for_sampling then returns q = 1, 2, 3, 4 exactly) and output_samples equal to the input shape or to q times it, '
               'combined with every shift pattern (x only, y only, both, none; int and fractional samples; zero component as int 0 / float 0.0), both '
               'routes, both methods, function and Wavefront form, square (even / odd / prime) and non-square arrays (the spacing natural for one '
               'axis), random fields (contract) and tilted pupils / displaced spots (peak on the sample at k lambda f / D + shift).  Class G: fields '
               'of magnitude 1e-12 ... 1e12 through both fixed-sampling routes and Wavefront.focus / unfocus (homogeneity and the contract), and the '
               'same propagation in other consistent units (metres everywhere, microns everywhere, nm in the focal plane, ...): equal fields, reported '
               'dx scaled by the unit of the output plane, spacing helpers scaled likewise.  Class I: thin arrays whose long axis has 65 ... 1024 '
               'samples (prime, awkward, power of two) onto long output axes incl. band-complete grids with Q within 1e-3 of an integer, with and '
               'without one-axis shifts; Wavefront.focus / unfocus on square prime sizes 65 ... 127')
ASSUMPTIONS = ASSUMPTIONS + [
    'exactly-special geometries are produced with the library\'s own expressions ((efl*wvl)/(dx*n); Q_for_sampling) so that floating-point equality is '
    'hit on purpose; draws for which the library\'s Q is not exactly the integer are excluded and counted',
    'homogeneity f(s a) = s f(a) is compared at 1e-11 (single precision 1e-3) of max|s f(a)|; unit invariance at the C01 conditioning tolerance of the '
    'call relative to the bound sum|a| / sqrt(Na Q0 Ma Q1); reported dx and helpers under a change of units at 1e-13 relative',
]
REQUIRED = REQUIRED + ['special.fft-grid-with-shift', 'scale.homogeneity', 'scale.unit-invariance', 'size.large-or-prime']


def _typed_shift(s, unit):
    """(sx, sy) in samples -> output units; an int 0 stays an int 0, a float 0.0 a float 0.0 (the library tests components for truth / != 0)."""
    return tuple((v * unit if v != 0 else v) for v in s)


def _shift_cls(s):
    return '0' if (s[0] == 0 and s[1] == 0) else ('int' if all(float(v).is_integer() for v in s) else 'frac')


def _special_shape(rng, scls, hi):
    if scls == 'sq:e':
        n = 2 * int(rng.integers(2, hi // 2 + 1))
        return (n, n)
    if scls == 'sq:o':
        n = 2 * int(rng.integers(2, hi // 2 + 1)) + 1
        return (n, n)
    if scls == 'sq:prime':
        n = [5, 7, 11, 13, 17, 19, 23, 29, 31][int(rng.integers(0, 4 if hi < 20 else 9))]
        return (n, n)
    while True:
        shp = (int(rng.integers(4, hi + 1)), int(rng.integers(4, hi + 1)))
        if shp[0] != shp[1]:
            return shp


def wl_special(ctx):
    """Class H: output grid == an FFT grid exactly (Q_for_sampling returns the integer q exactly; output_samples == input shape or
    q x input shape) AND a shift (every pattern), both routes, both methods, function and Wavefront form."""
    global CUR
    from .. import propforms as PF
    from prysm import propagation as P
    from ..util import precision
    k = -1
    done = 0
    for rep in range(ctx.pick(2, 600)):
        hi = ctx.pick(12, 32) if rep else 9
        for route in ('focus', 'unfocus'):
            for method in METHODS:
                for q in (1, 2, 3, 4):
                    for ocls in ('same-as-input', 'fft-grid'):
                        for pname, s in PF.SHIFT_PATTERNS:
                            for field in ('random', 'point'):
                                k += 1
                                if not ctx.mine(k):
                                    continue
                                done += 1
                                if done % 64 == 0:
                                    _clear_caches()
                                rng = case_rng(ctx, 11, k)
                                v = int(rng.integers(1 << 30))
                                scls = ('sq:e', 'sq:o', 'sq:prime', 'nonsq')[(v // 7) % 4]
                                shp = _special_shape(rng, scls, hi)
                                ax = int(rng.integers(2))                    # non-square: the axis for which the spacing is the natural one
                                g = PF.exact_Q_geometry(rng, shp[ax], q)
                                if g is None:
                                    ctx.skip('special: no draw for which the library\'s own Q is exactly the integer')
                                    continue
                                wvl, efl, idx, odx = g
                                # the spacing as the LIBRARY reports it (three sources, all the same number on the reference tree)
                                src = v % 3
                                with precision(64):
                                    if src == 1:
                                        odx = (P.pupil_sample_to_psf_sample if route == 'focus' else P.psf_sample_to_pupil_sample)(idx, shp[ax] * q, wvl, efl)
                                    elif src == 2 and shp[0] == shp[1]:
                                        w0 = P.Wavefront(np.ones(shp, dtype=complex), wvl, idx, space='pupil' if route == 'focus' else 'psf')
                                        odx = float((w0.focus(efl, Q=q) if route == 'focus' else w0.unfocus(efl, Q=q)).dx)
                                    Qlib = P.Q_for_sampling(shp[ax] * idx, efl, wvl, odx)
                                if Qlib != q:
                                    ctx.skip('special: the library\'s own Q is not exactly the integer for this draw')
                                    continue
                                ulp = ('', '+1ulp', '', '-1ulp', '', '')[(v // 5) % 6]          # special only up to rounding: one ulp off the FFT spacing
                                if ulp:
                                    odx = float(np.nextafter(odx, np.inf if ulp == '+1ulp' else 0.0))
                                    Qlib = P.Q_for_sampling(shp[ax] * idx, efl, wvl, odx)
                                samples = shp if ocls == 'same-as-input' else (shp[0] * q, shp[1] * q)
                                shift = _typed_shift(s, odx)
                                use_wf = bool((v // 3) % 2)
                                bits, dbits = precision_class(v)
                                seed = int(rng.integers(2**31 - 1))
                                cls = f'special:{route}:{method}:Q=={q}{ulp}:{ocls}:{scls}:shift={pname}:{"tilt/spot" if field == "point" else "random"}'
                                desc = {'wl': 'special', 'route': route, 'class': cls + (f':p{bits}/d{dbits}' if (bits, dbits) != (64, 64) else ''), 'shape': shp,
                                        'samples': samples, 'method': method, 'wavelength': wvl, 'efl': efl, 'input_dx': idx, 'output_dx': odx, 'Q_library': float(Qlib),
                                        'natural_axis': ax, 'shift_samples': s, 'seed': seed, 'api': 'Wavefront' if use_wf else 'function', 'precision': bits,
                                        'data_bits': dbits, 'spacing_source': ('own expression', 'spacing helper', 'Wavefront.focus/unfocus(Q=q).dx')[src]}
                                CUR = desc
                                ctx.case(desc)
                                ctx.observe('special.fft-grid-with-shift')
                                sc = _shift_cls(s)
                                key = fixed_key(route, method, shp, samples, sc != '0')
                                arg_samples = samples[0] if (samples[0] == samples[1] and (v // 2) % 4 == 1) else samples

                                def call(a):
                                    if use_wf:
                                        w = P.Wavefront(a, wvl, idx, space='pupil' if route == 'focus' else 'psf')
                                        f = w.focus_fixed_sampling if route == 'focus' else w.unfocus_fixed_sampling
                                        return f(efl, odx, arg_samples, shift=shift, method=method).data
                                    f = P.focus_fixed_sampling if route == 'focus' else P.unfocus_fixed_sampling
                                    return f(a, idx, efl, wvl, odx, arg_samples, shift=shift, method=method)
                                with precision(bits), ctx.guard(_raise_key(method, key, sc), desc, what=_raise_what(method, sc)):
                                    if field == 'random':
                                        a = field_array(seed, shp, v, method)
                                        call(to_bits(a, dbits) if a.dtype.kind in 'fc' else a)          # judged by the contract (M1)
                                        continue
                                    gl = geom_label(route, method, shp, samples)
                                    if route == 'focus':
                                        # k waves of tilt across D = n dx on each axis: the spot lands on sample k * Q_axis (+ shift); Q_axis = q on the natural axis
                                        Qax = [wvl * efl / (n_ * idx * odx) for n_ in shp]
                                        if any(samples[ax_] > 0.9 * shp[ax_] * Qax[ax_] + 1e-9 and samples[ax_] != round(shp[ax_] * Qax[ax_]) for ax_ in (0, 1)) or \
                                                any(samples[ax_] > shp[ax_] * Qax[ax_] + 1e-9 for ax_ in (0, 1)):
                                            # (a window of exactly one alias period -- the FFT grid itself -- is fine: every spot appears once)
                                            a_ = field_array(seed, shp, v, method)
                                            call(to_bits(a_, dbits) if a_.dtype.kind in 'fc' else a_)
                                            ctx.skip('special: output window wider than one alias period on the non-natural axis (judged by the contract only)')
                                            continue
                                        kk = []
                                        for axis, sh in ((1, s[0]), (0, s[1])):           # x -> axis 1, y -> axis 0
                                            room = samples[axis] // 2 - 2 - abs(math.ceil(abs(sh)))
                                            kmax = int(min(room / Qax[axis], shp[axis] // 2 - 1)) if room > 0 else 0
                                            kk.append(int(rng.integers(-kmax, kmax + 1)) if kmax > 0 else 0)
                                        kx, ky = kk
                                        xs = (np.arange(shp[1]) - shp[1] // 2) * idx
                                        ys = (np.arange(shp[0]) - shp[0] // 2) * idx
                                        t = np.exp(2j * np.pi * (kx * xs[None, :] / (shp[1] * idx) + ky * ys[:, None] / (shp[0] * idx)))
                                        data = np.asarray(call(to_bits(t, dbits)))
                                        desc.update(waves=(kx, ky))
                                        if sc == 'frac' or data.shape != tuple(samples) or not np.all(np.isfinite(data)):
                                            continue                                      # between samples / already reported by the contract
                                        ex_f, ey_f = kx * Qax[1] + s[0], ky * Qax[0] + s[1]
                                        if abs(ex_f - round(ex_f)) > 1e-6 or abs(ey_f - round(ey_f)) > 1e-6:
                                            ctx.skip('special: spot between samples on the non-natural axis (judged by the contract only)')
                                            continue
                                        iy, ix = _peak(data)
                                        ey_i, ex_i = samples[0] // 2 + int(round(ey_f)), samples[1] // 2 + int(round(ex_f))
                                        if not (0 < ey_i < samples[0] - 1 and 0 < ex_i < samples[1] - 1):
                                            ctx.skip('special: spot outside the window (judged by the contract only)')
                                            continue
                                        ctx.require('shift-translates-image' if sc != '0' else 'tilt->displacement.fixed', (iy, ix) == (ey_i, ex_i), key,
                                                    _what('focus', method, gl) + ' [output grid exactly an FFT grid: the spot is not at k*lambda*f/D + shift in output samples]',
                                                    desc, peak_index=(iy, ix), expected_index=(ey_i, ex_i))
                                    else:
                                        my, mx = (int(rng.integers(-(shp[ax_] // 2) + 1, shp[ax_] - shp[ax_] // 2 - 1)) for ax_ in (0, 1))
                                        a = np.zeros(shp, dtype=np.complex64 if dbits == 32 else complex)
                                        a[shp[0] // 2 + my, shp[1] // 2 + mx] = 1.0
                                        out = np.asarray(call(a))
                                        desc.update(spot_samples=(mx, my))
                                        if sc != '0' or out.shape != tuple(samples) or not np.all(np.isfinite(out)):
                                            continue                                      # with a shift only moduli are specified (the contract judges them)
                                        sx_ref = 2 * math.pi * (mx * idx) * odx / (wvl * efl)
                                        sy_ref = 2 * math.pi * (my * idx) * odx / (wvl * efl)
                                        if max(abs(sx_ref), abs(sy_ref)) > 0.95 * math.pi or min(samples) < 2:
                                            ctx.skip('spot->tilt: slope aliased')
                                            continue
                                        stol = SLOPE_TOL[bits == 32 or dbits == 32]
                                        ok = _wrapdiff(_slope(out, 1), sx_ref) <= stol and _wrapdiff(_slope(out, 0), sy_ref) <= stol
                                        ctx.require('spot->tilt.fixed', ok, key,
                                                    _what('unfocus', method, gl) + ' [output grid exactly an FFT grid: a displaced focal spot does not return the pupil tilt]',
                                                    desc, slope_xy=(_slope(out, 1), _slope(out, 0)), expected=(sx_ref, sy_ref))
    CUR = None
    _clear_caches()


def _bound(a, shp, Qp):
    return float(np.sum(np.abs(a))) / math.sqrt(shp[0] * Qp[0] * shp[1] * Qp[1])


def wl_scale_units(ctx):
    """Class G: (i) a field of magnitude s = 1e-12 ... 1e12 through both fixed-sampling routes and Wavefront.focus / unfocus -- the
    contract is scale-free, the homogeneity law is not; (ii) the same propagation in other consistent units -- equal fields, the
    reported dx / the spacing helpers scaled by the unit of the output plane."""
    global CUR
    from .. import propforms as PF
    from prysm import propagation as P
    from ..util import precision
    n = ctx.pick(160, 240000)
    for k in range(n):
        if not ctx.mine(k):
            continue
        if (k // ctx.nshards) % 64 == 63:
            _clear_caches()
        rng = case_rng(ctx, 12, k)
        v = int(rng.integers(1 << 30))
        what = ('scale', 'units')[k % 2]
        route = ('focus', 'unfocus')[(k // 2) % 2]
        fft_route = (k // 4) % 3 == 2
        method = METHODS[int(rng.integers(2))]
        bits, dbits = precision_class(v)
        single = bits == 32 or dbits == 32
        wvl, efl, dx = physical(rng)
        icls = IN_CLASSES[int(rng.integers(len(IN_CLASSES)))] if not fft_route else ('sq:e', 'sq:o')[int(rng.integers(2))]
        shp = draw_shape(rng, icls, 4, ctx.pick(12, 32))
        samples = draw_shape(rng, OUT_CLASSES[int(rng.integers(3))], 8, ctx.pick(24, 64))
        pname, s = PF.SHIFT_PATTERNS[int(rng.integers(len(PF.SHIFT_PATTERNS)))]
        if route == 'focus':
            idx, odx = dx, wvl * efl / (max(shp) * dx) * logu(rng, 0.2, 3.0)
        else:
            idx, odx = wvl * efl / (max(samples) * dx) * logu(rng, 0.2, 3.0), dx
            shp, samples = samples, shp
        Q = float([1, 2, 3, 1.5][int(rng.integers(4))])
        seed = int(rng.integers(2**31 - 1))
        a = to_bits(cnormal(np.random.default_rng(seed), shp), dbits)
        use_wf = bool(v % 2)
        space = 'pupil' if route == 'focus' else 'psf'
        fname = f'Wavefront.{route}' if fft_route else f'{route}_fixed_sampling'
        desc = {'wl': 'scale-units', 'what': what, 'fn': fname, 'shape': shp, 'samples': samples, 'method': method, 'wavelength': wvl, 'efl': efl, 'input_dx': idx,
                'output_dx': odx, 'shift_samples': s, 'Q': Q, 'seed': seed, 'precision': bits, 'data_bits': dbits, 'api': 'Wavefront' if use_wf else 'function'}
        sc = _shift_cls(s)
        key = fixed_key(route, method, shp, samples, sc != '0') if not fft_route else f'C03/Wavefront.{route}/fft/{_qclass(Q)}'

        def fixed(arr, idx_, efl_, wvl_, odx_):
            shift = _typed_shift(s, odx_)
            if use_wf:
                w = P.Wavefront(arr, wvl_, idx_, space=space)
                f = w.focus_fixed_sampling if route == 'focus' else w.unfocus_fixed_sampling
                return np.array(f(efl_, odx_, samples, shift=shift, method=method).data, copy=True)
            f = P.focus_fixed_sampling if route == 'focus' else P.unfocus_fixed_sampling
            return np.array(f(arr, idx_, efl_, wvl_, odx_, samples, shift=shift, method=method), copy=True)

        def fft(arr, idx_, efl_, wvl_):
            w = P.Wavefront(arr, wvl_, idx_, space=space)
            o = w.focus(efl_, Q) if route == 'focus' else w.unfocus(efl_, Q)
            return np.array(o.data, copy=True), float(o.dx)
        if what == 'scale':
            sv = PF.SCALES[int(rng.integers(len(PF.SCALES)))]
            desc.update(s=sv)
            desc['class'] = f'scale:{fname}:{method if not fft_route else "fft"}:{PF.scale_class(sv)}:{icls}:shift={pname}' + (f':p{bits}/d{dbits}' if (bits, dbits) != (64, 64) else '')
            CUR = desc
            ctx.case(desc)
            with precision(bits), ctx.guard(_raise_key(method, key, sc) if not fft_route else key, desc, what=f'{fname} of a field of magnitude {sv:g}'):
                sa = (a * sv).astype(a.dtype)
                if fft_route:
                    r1, rs = fft(a, idx, efl, wvl)[0], fft(sa, idx, efl, wvl)[0]
                else:
                    r1, rs = fixed(a, idx, efl, wvl, odx), fixed(sa, idx, efl, wvl, odx)
                ctx.observe('scale.homogeneity')
                ref = sv * r1
                scl = float(np.max(np.abs(ref)))
                err = float(np.max(np.abs(rs - ref))) if rs.shape == ref.shape and np.isfinite(rs).all() else float('inf')
                if not err <= (1e-3 if single else 1e-11) * scl:
                    ctx.violation(f'C03/{fname}/scale:{PF.scale_class(sv)}/not-homogeneous',
                                  f'{fname} is linear, but f(s a) != s f(a) for a field of magnitude s (tiny: s <= 1e-3, huge: s >= 1e3)', desc, err=err, scale=scl)
            continue
        uname, al, be, ga, de = PF.UNIT_SYSTEMS[int(rng.integers(len(PF.UNIT_SYSTEMS)))]
        if route == 'unfocus':
            al, de = de, al                       # the input plane is the focal plane there
        desc.update(units=uname)
        desc['class'] = f'units:{fname}:{method if not fft_route else "fft"}:{uname}:{icls}:shift={pname}' + (f':p{bits}/d{dbits}' if (bits, dbits) != (64, 64) else '')
        CUR = desc
        ctx.case(desc)
        with precision(bits), ctx.guard(_raise_key(method, key, sc) if not fft_route else key, desc, what=f'{fname} in the unit system {uname}'):
            if fft_route:
                (r1, dx1), (r2, dx2) = fft(a, idx, efl, wvl), fft(a, idx * al, efl * be, wvl * ga)
                tol = (1e-3 if single else 1e-12) * float(np.max(np.abs(r1)))
                okdx = abs(dx2 - dx1 * de) <= (1e-5 if bits == 32 else 1e-13) * abs(dx1 * de)
                hfun, hinv = (P.pupil_sample_to_psf_sample, P.psf_sample_to_pupil_sample) if route == 'focus' else (P.psf_sample_to_pupil_sample, P.pupil_sample_to_psf_sample)
                h1, h2 = hfun(idx, shp[0], wvl, efl), hfun(idx * al, shp[0], wvl * ga, efl * be)
                okdx = okdx and abs(h2 - h1 * de) <= 1e-13 * abs(h1 * de) and abs(hinv(h2, shp[0], wvl * ga, efl * be) - idx * al) <= 1e-13 * idx * al
                ctx.require('scale.unit-invariance', okdx, f'C03/Wavefront.{route}/scale:units/reported-dx-not-scaled-with-the-units',
                            f'Wavefront.{route} / the spacing helpers in other consistent units: the reported spacing is not the same length', desc,
                            reported=(dx1, dx2), expected_ratio=de)
            else:
                r1, r2 = fixed(a, idx, efl, wvl, odx), fixed(a, idx * al, efl * be, wvl * ga, odx * de)
                Qp = tuple(wvl * efl / (n_ * idx * odx) for n_ in shp)
                r = rtol_for(method, single, shp, Qp, samples, (float(s[0]), float(s[1])))
                if r is None:
                    ctx.skip('float32: kernel phase beyond the resolution of the working precision (tolerance would exceed 3e-2)')
                    continue
                tol = r * _bound(a, shp, Qp)
            ctx.observe('scale.unit-invariance')
            err = float(np.max(np.abs(r2 - r1))) if r2.shape == r1.shape and np.isfinite(r2).all() else float('inf')
            if not err <= tol:
                ctx.violation(f'C03/{fname}/scale:units/result-changes-under-a-consistent-change-of-units',
                              f'{fname}: the same propagation expressed in other consistent units (lambda f / (dx_in dx_out) and shift / dx_out unchanged) gives another field',
                              desc, err=err, tol=tol)
    CUR = None
    _clear_caches()


def wl_sizes(ctx):
    """Class I: thin arrays whose long axis has 65 ... 1024 samples (prime / awkward / power of two) through both fixed-sampling
    routes onto long output axes -- incl. band-complete grids whose Q is within 1e-3 of an integer -- with and without one-axis
    shifts (contract M1), and Wavefront.focus / unfocus on square prime sizes."""
    global CUR
    from .. import propforms as PF
    from prysm import propagation as P
    jobs = []
    for i, (nn, MM) in enumerate(PF.NEAR_INTEGER_PAIRS[:ctx.pick(5, 8)]):
        jobs.append(('near-integer-Q', nn, MM, i))
    for i, nn in enumerate(PF.AWKWARD_SIZES + PF.LARGE_SIZES):
        jobs.append(('awkward', nn, [nn, nn + 1, 2 * nn, 97][i % 4], i))
    if not ctx.quick:
        g = np.random.default_rng([ctx.seed, 1234])
        for i in range(300):
            nn = int(g.integers(64, 1100))
            jobs.append(('random', nn, int(g.integers(64, 1300)), i))
    k = -1
    for (kind, nn, MM, i) in jobs:
        for route in ('focus', 'unfocus'):
            for method in METHODS:
                for shifted in (False, True):
                    k += 1
                    if not ctx.mine(k):
                        continue
                    rng = case_rng(ctx, 13, k)
                    shp = PF.thin(nn, i + k)
                    samples = tuple(MM if v_ == nn else v_ for v_ in shp)
                    along_x = shp[1] == nn
                    wvl, efl, dx = physical(rng)
                    if kind == 'near-integer-Q':
                        odx = PF.lib_spacing(dx, MM, wvl, efl)          # band-complete: Q = M / n on the long axis
                    else:
                        odx = wvl * efl / (nn * dx) * logu(rng, 0.3, 2.0)
                    s = (0, 0) if not shifted else ((2.5, 0) if along_x else (0.0, -3))
                    seed = int(rng.integers(2**31 - 1))
                    desc = {'wl': 'sizes', 'route': route, 'shape': shp, 'samples': samples, 'method': method, 'wavelength': wvl, 'efl': efl, 'input_dx': dx, 'output_dx': odx,
                            'shift_samples': s, 'seed': seed, 'class': f'sizes:{kind}:{route}:{method}:{"x" if along_x else "y"}-axis:{"shifted" if shifted else "unshifted"}'}
                    CUR = desc
                    ctx.case(desc)
                    ctx.observe('size.large-or-prime')
                    a = cnormal(np.random.default_rng(seed), shp)
                    sc = _shift_cls(s)
                    key = fixed_key(route, method, shp, samples, shifted)
                    with ctx.guard(_raise_key(method, key, sc), desc, what=_raise_what(method, sc)):
                        f = P.focus_fixed_sampling if route == 'focus' else P.unfocus_fixed_sampling
                        if k % 2:
                            f(a, dx, efl, wvl, odx, samples, shift=_typed_shift(s, odx), method=method)
                        else:
                            w = P.Wavefront(a, wvl, dx, space='pupil' if route == 'focus' else 'psf')
                            (w.focus_fixed_sampling if route == 'focus' else w.unfocus_fixed_sampling)(efl, odx, samples, shift=_typed_shift(s, odx), method=method)
                    _clear_caches()
    # FFT route on square prime / awkward sizes (reported coordinates judged by the contract)
    k = -1
    for N in (65, 67, 74, 101, 127) + ctx.pick((), (129, 131, 257)):
        for Q in (1, 2, 1.5):
            for route in ('focus', 'unfocus'):
                k += 1
                if not ctx.mine(k):
                    continue
                if ctx.quick and N > 74 and Q != 1:
                    continue
                rng = case_rng(ctx, 14, k)
                wvl, efl, dx = physical(rng)
                seed = int(rng.integers(2**31 - 1))
                desc = {'wl': 'sizes', 'route': route, 'N': N, 'Q': Q, 'wavelength': wvl, 'efl': efl, 'dx': dx, 'seed': seed, 'class': f'sizes:fft:{route}:{N}:{_qclass(Q)}'}
                CUR = desc
                ctx.case(desc)
                ctx.observe('size.large-or-prime')
                a = cnormal(np.random.default_rng(seed), (N, N))
                with ctx.guard(f'C03/Wavefront.{route}/fft/{_qclass(Q)}', desc):
                    w = P.Wavefront(a, wvl, dx if route == 'focus' else dx * 10, space='pupil' if route == 'focus' else 'psf')
                    (w.focus if route == 'focus' else w.unfocus)(efl, Q)
    CUR = None
    _clear_caches()


# ------------------------------------------------------------------------------------------ hardening pass 4: classes M / N
RULE = RULE + ('.  Hardening pass 4 -- class N (backend configuration): the fixed-sampling class grid (both routes, all input / output classes, shift none / int / '
               'frac, random fields and tilted pupils / displaced spots, function and Wavefront form; three czt cases for one mdft), to_fpm_and_back (function, and '
               'Wavefront form with return_more=True) and Wavefront.focus / unfocus are repeated with prysm.mathops.fft._srcmodule = numpy.fft (no next_fast_len '
               'there: the power-of-two fallback sizes the chirp-Z convolution; m+M-1 is almost never a power of two on these sizes) and judged by the same '
               'contracts / laws.  Class M (optional arguments, metadata consumed downstream): a Wavefront whose wavelength / dx the harness chose goes through '
               '1..2 metadata-preserving operations -- pad2d(Q | out_shape=, inplace=False | True), crop(inplace=False | True), copy(), * ndarray, * / + Wavefront '
               '-- and the RETURNED object is then propagated by a different routine (focus, focus_fixed_sampling mdft / czt with and without shift, unfocus, '
               'unfocus_fixed_sampling; also pupil -> focus -> crop -> unfocus and the three Wavefronts of to_fpm_and_back(return_more=True)); that later result '
               'is judged by the module\'s contracts evaluated with the HARNESS\' wavelength / spacing (not the object\'s), and a tilted pupil must still peak at '
               'k lambda f / D in the coordinates the final result reports')
ASSUMPTIONS = ASSUMPTIONS + [
    'pad2d / crop / copy / arithmetic with a compatible operand do not change the plane, the sample spacing or the wavelength of a Wavefront (their docstrings: '
    '"wavefront with padded data", "cropped wavefront"); the samples of the intermediate object are taken as they are (centring is C04), only its metadata is at stake',
    'numpy.fft is a supported FFT backend (mathops documents swapping _srcmodule; established on /repo @ 66c5405: every route holds under it); float32 data under '
    'numpy.fft is judged at the same single-precision tolerances',
]
REQUIRED = REQUIRED + ['backend.numpy-fft', 'chain.metadata-consumed-downstream']


def wl_backend(ctx):
    """Class N: every FFT / chirp-Z based route again under the numpy.fft backend (restored afterwards), same oracles."""
    global CUR, KEYTAG
    import numpy.fft as npfft
    from prysm import propagation as P
    from ..util import fft_backend
    _clear_caches()
    KEYTAG = '/backend:numpy.fft'
    try:
        with fft_backend(npfft):
            k = -1
            done = 0
            for rnd in range(ctx.pick(2, 60)):
                hi_in, hi_out = ((16, 48), (33, 96))[min(rnd, 1)] if rnd < 30 else (64, 192)
                for route in ('focus', 'unfocus'):
                    for icls in IN_CLASSES:
                        for ocls in OUT_CLASSES:
                            for scls in SHIFTS:
                                for field in ('random', 'point'):
                                    k += 1
                                    if not ctx.mine(k):
                                        continue
                                    if field == 'point' and (icls.startswith('line') or icls.startswith('extreme')):
                                        continue
                                    done += 1
                                    if done % 64 == 0:
                                        _clear_caches()
                                    rng = case_rng(ctx, 15, k)
                                    method = 'mdft' if int(rng.integers(4)) == 0 else 'czt'
                                    ctx.observe('backend.numpy-fft')
                                    (_fixed_focus_case if route == 'focus' else _fixed_unfocus_case)(ctx, P, rng, icls, ocls, method, scls, field, hi_in, hi_out, k)
            # to_fpm_and_back (function; Wavefront form with return_more=True) through czt
            for k in range(ctx.pick(24, 1200)):
                if not ctx.mine(k):
                    continue
                rng = case_rng(ctx, 16, k)
                wvl, efl, dx = physical(rng)
                shp = draw_shape(rng, IN_CLASSES[int(rng.integers(6))], 4, ctx.pick(24, 48))
                smp = draw_shape(rng, OUT_CLASSES[int(rng.integers(3))], 8, ctx.pick(40, 96))
                scls = SHIFTS[int(rng.integers(3))]
                s_ = draw_shift(rng, scls)
                fdx = wvl * efl / (max(shp) * dx) * logu(rng, 0.2, 3.0)
                shift = (s_[0] * fdx, s_[1] * fdx)
                seed = int(rng.integers(2**31 - 1))
                desc = {'wl': 'backend', 'class': f'backend:numpy.fft:to_fpm_and_back:czt:shift={scls}:{"wf+return_more" if k % 2 else "function"}', 'shape': shp, 'samples': smp,
                        'wavelength': wvl, 'efl': efl, 'dx': dx, 'fpm_dx': fdx, 'shift_samples': s_, 'seed': seed}
                CUR = desc
                ctx.case(desc)
                ctx.observe('backend.numpy-fft')
                a = _cfield(seed, shp, 64)
                mask = rng.random(smp) if seed % 2 else cnormal(rng, smp)
                key = fixed_key('focus', 'czt', shp, smp, scls != '0')
                with ctx.guard(_raise_key('czt', key, scls), desc, what=_raise_what('czt', scls)):
                    if k % 2:
                        P.Wavefront(a, wvl, dx).to_fpm_and_back(efl, mask, fdx, method='czt', shift=shift, return_more=True)
                    else:
                        P.to_fpm_and_back(a, dx, efl, wvl, mask, fdx, shift=shift, method='czt')
            _clear_caches()
            # FFT route
            k = -1
            for N in (5, 8, 12, 17, 31, 32) + ctx.pick((), tuple(range(33, 65, 3))):
                for Q in (1, 2, 3, 1.5, 2.5):
                    for route in ('focus', 'unfocus'):
                        for field in ('random', 'tilt'):
                            k += 1
                            if not ctx.mine(k):
                                continue
                            rng = case_rng(ctx, 17, k)
                            wvl, efl, dx = physical(rng)
                            Npad = math.ceil(N * Q)
                            kmax = max(1, N // 2 - 1)
                            ky, kx = (int(rng.integers(-kmax, kmax + 1)) for _ in range(2))
                            if kx == 0 and ky == 0:
                                kx = 1
                            if rng.random() < 0.5:
                                kx, ky = ((0, ky or 1) if rng.random() < 0.5 else (kx or -1, 0))
                            seed = int(rng.integers(2**31 - 1))
                            desc = {'wl': 'backend', 'route': route, 'N': N, 'Q': Q, 'field': field, 'wavelength': wvl, 'efl': efl, 'dx': dx, 'k': (kx, ky), 'seed': seed,
                                    'class': f'backend:numpy.fft:fft:{route}:{parity(N)}->{parity(Npad)}:{_qclass(Q)}:{field}'}
                            CUR = desc
                            ctx.case(desc)
                            ctx.observe('backend.numpy-fft')
                            key = f'C03/Wavefront.{route}/fft/{_qclass(Q)}' + KEYTAG
                            with ctx.guard(key, desc):
                                (_fft_focus_case if route == 'focus' else _fft_unfocus_case)(ctx, P, desc, key, N, Q, Npad, field, wvl, efl, dx, kx, ky, seed)
    finally:
        KEYTAG = ''
        CUR = None
        _clear_caches()


class _Meta:
    """The metadata the HARNESS knows a wavefront to have (stands in for `self` in the FFT-route contract)."""
    def __init__(self, dx, wavelength):
        self.dx, self.wavelength = dx, wavelength


def _preop(P, rng, wf, name):
    """One metadata-preserving operation; returns the object the caller goes on with (the RETURNED one)."""
    shp = wf.data.shape
    d0, d1 = int(rng.integers(0, 9)), int(rng.integers(0, 9))
    if shp[0] == shp[1]:
        d1 = d0                                          # a square array stays square (the FFT route carries one dx)
    if name == 'pad2d(Q,inplace=False)':
        return wf.pad2d([2, 3, 1.5][int(rng.integers(3))], inplace=False)
    if name == 'pad2d(out_shape=,inplace=False)':
        return wf.pad2d(2, out_shape=(shp[0] + 1 + d0, shp[1] + 1 + d1), inplace=False)
    if name == 'pad2d(Q,inplace=True)':
        return wf.pad2d(2)
    if name == 'pad2d(Q,value=,inplace=False)':
        return wf.pad2d(2, value=0.25, mode='constant', out_shape=None, inplace=False)
    if name == 'crop(inplace=False)':
        return wf.crop((max(4, shp[0] - d0 % 3), max(4, shp[1] - d1 % 3)), inplace=False)
    if name == 'crop(inplace=True)':
        return wf.crop((max(4, shp[0] - d0 % 3), max(4, shp[1] - d1 % 3)))
    if name == 'copy()':
        return wf.copy()
    if name == '*ndarray':
        return wf * (0.5 + rng.random(shp))
    if name == '*Wavefront':
        return wf * P.Wavefront(0.5 + rng.random(shp) + 0j, wf.wavelength, wf.dx, wf.space)
    if name == '+Wavefront':
        return wf + P.Wavefront(cnormal(rng, shp), wf.wavelength, wf.dx, wf.space)
    raise KeyError(name)


PREOPS = ['pad2d(Q,inplace=False)', 'pad2d(out_shape=,inplace=False)', 'crop(inplace=False)', 'pad2d(Q,value=,inplace=False)', 'pad2d(Q,inplace=True)',
          'crop(inplace=True)', 'copy()', '*ndarray', '*Wavefront', '+Wavefront']


def _op_label(name):
    return name.replace('(Q,', '(').replace('(out_shape=,', '(').replace('value=,', '')


def _meta_is(wf, dx, wvl, space):
    try:
        return abs(float(wf.dx) - dx) <= 1e-12 * dx and abs(float(wf.wavelength) - wvl) <= 1e-12 * wvl and wf.space == space
    except Exception:
        return False


def wl_chains(ctx):
    """Class M: the object RETURNED by pad2d / crop (out of place and in place), copy and arithmetic is consumed by a propagation;
    the propagation is judged with the wavelength / spacing the harness put in at the start of the chain."""
    global CUR, KEYTAG
    from prysm import propagation as P
    from prysm.coordinates import make_xy_grid
    n = ctx.pick(480, 96000)
    try:
        for k in range(n):
            if not ctx.mine(k):
                continue
            if (k // ctx.nshards) % 64 == 63:
                _clear_caches()
            rng = case_rng(ctx, 18, k)
            wvl, efl, dx = physical(rng)
            if abs(math.log(dx / wvl)) < 0.05:
                dx *= 1.5                                   # dx == wavelength numerically would hide a transposition
            space = ('pupil', 'pupil', 'psf')[k % 3]
            term = ('fft', 'mdft', 'czt')[(k // 3) % 3]
            first = PREOPS[(k // 9) % len(PREOPS)]
            names = [first] + ([PREOPS[int(rng.integers(len(PREOPS)))]] if rng.random() < 0.4 else [])
            field = 'tilt' if (space == 'pupil' and term != 'czt' and rng.random() < 0.5) else 'random'
            hi = ctx.pick(16, 40)
            N = int(rng.integers(6, hi + 1))
            shp = (N, N) if (term == 'fft' or field == 'tilt' or rng.random() < 0.5) else (N, int(rng.integers(6, hi + 1)))
            seed = int(rng.integers(2**31 - 1))
            scls = SHIFTS[int(rng.integers(3))] if term != 'fft' and field == 'random' else '0'
            s_ = draw_shift(rng, scls)
            tag = '/after:metadata-preserving-ops'
            desc = {'wl': 'chains', 'class': f'chain:{space}:{"+".join(names)}->{term}:{field}:shift={scls}', 'shape': shp, 'wavelength': wvl, 'efl': efl, 'dx': dx,
                    'ops': names, 'terminal': term, 'shift_samples': s_, 'seed': seed}
            CUR = desc
            ctx.case(desc)
            route = 'focus' if space == 'pupil' else 'unfocus'
            KEYTAG = tag
            gkey = (f'C03/Wavefront.{route}/fft' if term == 'fft' else f'C03/{route}_fixed_sampling/{term}') + tag
            with ctx.guard(gkey, desc, what=f'{" -> ".join(names)} -> {route} ({term})'):
                dx0 = dx if space == 'pupil' else dx * 10.0                     # mm in the pupil, um in the focal plane
                kx = ky = 0
                if field == 'tilt':
                    kmax = max(1, N // 2 - 2)
                    kx, ky = (int(rng.integers(-kmax, kmax + 1)) for _ in range(2))
                    if rng.random() < 0.5:
                        kx, ky = ((0, ky or 1) if rng.random() < 0.5 else (kx or -1, 0))
                    x, y = make_xy_grid(shp, dx=dx0)
                    a = np.exp(2j * np.pi * (kx * x + ky * y) / (N * dx0))
                    desc.update(waves=(kx, ky))
                else:
                    a = cnormal(np.random.default_rng(seed), shp)
                wf = P.Wavefront(a, wvl, dx0, space=space)
                KEYTAG = ''                                                      # (no propagation happens in the pre-operations)
                for nm in names:
                    wf = _preop(P, rng, wf, nm)
                    if tag.endswith('-ops') and not _meta_is(wf, dx0, wvl, space):
                        # diagnosis for the key label only (one defect => one label): the first operation after which the object's own
                        # metadata is no longer what the harness put in; the verdict is the propagation below
                        tag = '/after:' + _op_label(nm)
                KEYTAG = tag
                din = np.array(wf.data, copy=True)
                ishp = din.shape
                ctx.observe('chain.metadata-consumed-downstream')
                if term == 'fft':
                    if ishp[0] != ishp[1]:
                        ctx.skip('chain: intermediate array not square (FFT route carries one dx)')
                        continue
                    Q = [1, 2, 1.5][int(rng.integers(3))] if field == 'random' else int(rng.integers(1, 3))
                    desc.update(Q=Q)
                    out = wf.focus(efl, Q) if route == 'focus' else wf.unfocus(efl, Q)
                    _check_fft(route, _Meta(dx0, wvl), efl, Q, out, din)          # the contract, with the harness' metadata
                    if field == 'tilt' and not ((kx * out.data.shape[1]) % N or (ky * out.data.shape[0]) % N):
                        inten = out.intensity
                        gx_, gy_ = np.asarray(inten.x), np.asarray(inten.y)
                        iy, ix = _peak(out.data)
                        ex, ey = D.tilt_displacement(kx, N * dx0, wvl, efl), D.tilt_displacement(ky, N * dx0, wvl, efl)
                        tol = 1e-9 * D.psf_spacing(dx0, out.data.shape[1], wvl, efl) * out.data.shape[1]
                        uniform = all(nm_.startswith(('pad2d(Q,inplace', 'pad2d(out', 'copy')) for nm_ in names)     # the amplitude is still a plane wave over D
                        if uniform:
                            ctx.require('tilt->displacement.fft', abs(float(gx_[iy, ix]) - ex) <= tol and abs(float(gy_[iy, ix]) - ey) <= tol,
                                        f'C03/Wavefront.focus/fft/{_qclass(Q)}' + tag,
                                        'a tilted pupil padded / copied before Wavefront.focus does not peak at k*lambda*f/D in the reported coordinates', desc,
                                        peak_xy=(float(gx_[iy, ix]), float(gy_[iy, ix])), expected_xy=(ex, ey), reported_dx=float(out.dx))
                    if route == 'focus' and (k // 90) % 2:
                        # length-3 chain: the PSF trimmed out of place, located through its reported dx, then back to the pupil
                        m_ = out.data.shape[0]
                        psf_dx = D.psf_spacing(dx0, m_, wvl, efl)
                        trimmed = out.crop(max(4, m_ - int(rng.integers(1, m_ // 2))), inplace=False)
                        if tag.endswith('-ops'):
                            KEYTAG = '/after:focus+crop' if _meta_is(trimmed, psf_dx, wvl, 'psf') else '/after:crop(inplace=False)'
                        tdin = np.array(trimmed.data, copy=True)
                        back = trimmed.unfocus(efl, 1)
                        ctx.observe('chain.metadata-consumed-downstream')
                        _check_fft('unfocus', _Meta(psf_dx, wvl), efl, 1, back, tdin)
                else:
                    crit = wvl * efl / (max(ishp) * dx0)
                    odx = crit * logu(rng, 0.3, 2.5)
                    if field == 'tilt':
                        r = [0.25, 0.5, 1.0][int(rng.integers(3))]
                        odx = r * wvl * efl / (N * dx0)
                    samples = draw_shape(rng, OUT_CLASSES[int(rng.integers(3))], 8, ctx.pick(40, 80))
                    shift = (s_[0] * odx, s_[1] * odx)
                    f = wf.focus_fixed_sampling if route == 'focus' else wf.unfocus_fixed_sampling
                    out = f(efl, odx, samples, shift=shift, method=term)
                    desc.update(samples=samples, output_dx=odx)
                    _check_fixed(route, {'wavefunction': din, 'input_dx': dx0, 'prop_dist': efl, 'wavelength': wvl, 'output_dx': odx, 'output_samples': samples,
                                         'shift': shift, 'method': term}, out.data)
                    ok_meta = abs(float(out.dx) - odx) <= 1e-14 * odx and abs(float(out.wavelength) - wvl) <= 1e-14 * wvl
                    ctx.require('chain.metadata-consumed-downstream', ok_meta, f'C03/Wavefront.{route}_fixed_sampling/reported-metadata' + tag,
                                f'Wavefront.{route}_fixed_sampling: the result does not carry the requested spacing and the wavelength of the light', desc,
                                got=(float(out.dx), float(out.wavelength)), expected=(odx, wvl))
        # the three Wavefronts of to_fpm_and_back(return_more=True), each consumed by a later propagation
        for k in range(ctx.pick(24, 2400)):
            if not ctx.mine(k):
                continue
            rng = case_rng(ctx, 19, k)
            wvl, efl, dx = physical(rng)
            N = int(rng.integers(6, ctx.pick(16, 32) + 1))
            M = int(rng.integers(8, ctx.pick(32, 64) + 1))
            method = METHODS[k % 2]
            fdx = wvl * efl / (N * dx) * logu(rng, 0.3, 2.0)
            seed = int(rng.integers(2**31 - 1))
            tag = '/after:to_fpm_and_back(arg:return_more=True)'
            desc = {'wl': 'chains', 'class': f'chain:to_fpm_and_back(return_more=True):{method}:{("next-pupil", "at-fpm", "after-fpm")[(k // 2) % 3]}', 'shape': (N, N),
                    'samples': (M, M), 'wavelength': wvl, 'efl': efl, 'dx': dx, 'fpm_dx': fdx, 'seed': seed}
            CUR = desc
            ctx.case(desc)
            with ctx.guard(f'C03/Wavefront.to_fpm_and_back/{method}' + tag, desc):
                a = cnormal(np.random.default_rng(seed), (N, N))
                mask = rng.random((M, M))
                trio = P.Wavefront(a, wvl, dx).to_fpm_and_back(efl, mask, fdx, method=method, return_more=True)
                which = (k // 2) % 3
                w = trio[which]
                din = np.array(w.data, copy=True)
                KEYTAG = tag
                ctx.observe('chain.metadata-consumed-downstream')
                if which == 0:
                    Q = (1, 2)[k % 2]
                    _check_fft('focus', _Meta(dx, wvl), efl, Q, w.focus(efl, Q), din)
                else:
                    Q = (1, 2)[(k // 6) % 2]
                    _check_fft('unfocus', _Meta(fdx, wvl), efl, Q, w.unfocus(efl, Q), din)
                KEYTAG = ''
    finally:
        KEYTAG = ''
        CUR = None
        _clear_caches()


def replay(ctx, rec):
    run(ctx)
