"""C06 — every backprop routine returns the true gradient of its forward routine.

One harness, one table.  Every row of the table names a *companion* routine (the thing under test), the forward
it belongs to and a generator of argument classes.  Two deciding tests:

  linear forward A      <ybar, A x> == <A^H ybar, x>  as complex numbers, for random x, ybar (x / ybar real where the
                        routine is real-only), |difference| <= 1e-9 * |x| |ybar| |A|   (|A| estimated from the probes)
  non-linear forward f  c(x) = Re<gbar, f(x)>; the derivative of t -> c(x + t d) measured by central differences at
                        h, h/2, h/4 + two Richardson steps must equal Re<backprop(gbar), d> within 1e-6 * |gbar| |J d|;
                        points where the two O(h^4) extrapolants disagree by more than 1e-7 are dropped and counted
  activations           backprop(x) == d forward / dx elementwise (the contract the repo's own tests use), x not mutated;
                        reference = Richardson differences where well conditioned, else the complex-step derivative after
                        it has been validated against Richardson on the well-conditioned elements of the same case
  costs                 returned gradient vs directional derivative of the returned cost

The violation key is  C06/<companion routine>/<argument class>  (plus /raises:<Type> when the routine throws on an
in-domain input, /shape when the gradient does not have the shape of the forward input).
"""
import math

import numpy as np

from ..core import shape_class
from ..refmodels.diffops import (inner, norm, richardson_directional, richardson_elementwise,
                                 complex_step_elementwise)
from ..util import precision

RULE = ('table of (forward, companion, argument generator); per row the argument classes (shape kind sq/nonsq/line x '
        'parity, scalar/per-axis Q, zero/non-zero shift, equal/unequal pupil-focal-mask shapes, real/complex masks and '
        'Lyot stops, DM geometry features, node parameters, masked/unmasked costs) are enumerated smallest first, '
        'then filled with random members; arrays are regenerated from the per-case sub-seed in the descriptor. '
        'A case is non-trivial when input and upstream gradient have >= 2 non-zero samples and the forward response '
        '(A x, or J d) is not identically zero; distinct = distinct descriptor')
ASSUMPTIONS = [
    'inner product <a,b> = sum conj(a) b; gradient convention fixed by the library itself (intensity_backprop '
    'returns 2*Ibar*E, i.e. dc = Re<Gbar, d>), so the backprop of a complex-linear map is its adjoint A^H',
    'the forward routine of the working tree is the definition of the map (C06 does not ask whether the forward is '
    'physically right, only that the companion differentiates it)',
    'three-level Richardson extrapolation of central differences is accurate to 1e-7 relative where its own '
    'h/2-vs-h/4 disagreement is below 1e-7 (measured per case; other cases are excluded and counted)',
    'activation forwards are evaluated at x + 1e-30i for the complex-step derivative; that reference is used only when it '
    'agrees with the Richardson reference on every well-conditioned element of the same case',
    'finite differences are trusted only where the response |J d| exceeds 1e-5 |f(x)| (saturated soft-max and the like are '
    'excluded and counted)',
    'GumbelSoftmax is differentiated at fixed noise: the same seeded Generator is injected before every forward call',
    'numpy.vdot / matmul round-off is far below 1e-9 relative for the sizes used (<= 56x56); observed <= 1e-15',
]
REQUIRED = []          # filled from the table below
UNREACHABLE = ['focal-plane masks / Lyot stops given as Wavefront objects: the forward routine itself raises TypeError '
               'on them, so there is no forward map to differentiate',
               "method='czt' backprops: documented ValueError('not yet implemented')"]

RT_LIN = 1e-9
RT_DIR = 1e-6
SETTLE = 1e-7
RT_F32 = 2e-4
FLOOR = 1e-5        # smallest |J d| / |f(x)| at which a finite-difference reference is trusted


# ============================================================================================ small helpers
def crandn(rng, shape):
    return rng.standard_normal(shape) + 1j * rng.standard_normal(shape)


def draw(rng, shape, kind):
    return crandn(rng, shape) if kind == 'c' else rng.standard_normal(shape)


def nz(v):
    return any(float(s) != 0 for s in v)


class Lin:
    """A linear case: forward A, companion B claimed to be A^H."""
    kind = 'linear'

    def __init__(self, fwd, bwd, xshape, yshape, xkind='c', ykind='c', nprobe=2, rtol=RT_LIN, fwd_name=None):
        self.fwd, self.bwd, self.xshape, self.yshape = fwd, bwd, tuple(xshape), tuple(yshape)
        self.xkind, self.ykind, self.nprobe, self.rtol, self.fwd_name = xkind, ykind, nprobe, rtol, fwd_name


class Vjp:
    """A non-linear case: forward f at x0, companion vjp(x0, gbar) claimed to be J^H gbar."""
    kind = 'vjp'

    def __init__(self, f, vjp, x0, gkind='r', xkind='r', h=1e-2, nprobe=2, gshape=None):
        self.f, self.vjp, self.x0, self.gkind, self.xkind, self.h, self.nprobe, self.gshape = f, vjp, x0, gkind, xkind, h, nprobe, gshape


class Pointwise:
    """An activation node: backprop(x) claimed to be d forward / dx elementwise."""
    kind = 'pointwise'

    def __init__(self, node, x0, h):
        self.node, self.x0, self.h = node, x0, h


class Cost:
    """A cost function returning (cost, gradient)."""
    kind = 'cost'

    def __init__(self, fn, x0, h, nprobe=2):
        self.fn, self.x0, self.h, self.nprobe = fn, x0, h, nprobe


# ============================================================================================ the harness
class Harness:
    def __init__(self, ctx):
        self.ctx = ctx
        self.roundoff = {}

    def _ro(self, row, rel):
        if rel == rel and rel < 1e-3:
            self.roundoff[row] = max(self.roundoff.get(row, 0.0), rel)

    def key(self, row, cls):
        # the Wavefront methods of the fixed-sampling / mask-and-back backprops are thin wrappers: they are monitored
        # separately (own deciding monitor, 'form' in the descriptor) but keyed by the routine they wrap
        return f'C06/{KEY_ROUTINE.get(row, row)}/{cls}'

    def run_case(self, row, cls, desc, build):
        ctx = self.ctx
        desc = dict(desc)
        desc['row'] = row
        desc['class'] = f'{row}:{cls}' + (f'[{desc["detail"]}]' if 'detail' in desc else '')
        key = self.key(row, cls)
        rng = np.random.default_rng(desc['sub'])
        try:
            case = build(rng)
        except _OutOfDomain as e:
            ctx.skip(f'{row}: {e}')
            return
        if case is None:
            return
        fn = getattr(self, 'check_' + case.kind)
        trivial = fn(row, key, desc, case, rng)
        ctx.case(desc, nontrivial=not trivial)

    # ---------------------------------------------------------------- linear: adjoint identity
    def check_linear(self, row, key, desc, c, rng):
        ctx = self.ctx
        mon = 'adjoint:' + row
        probes = []
        trivial = False
        for _ in range(c.nprobe):
            x = draw(rng, c.xshape, c.xkind)
            y = draw(rng, c.yshape, c.ykind)
            x0, y0 = x.copy(), y.copy()
            try:
                Ax = np.asarray(c.fwd(x))
            except _OutOfDomain as e:
                ctx.skip(f'{row}: {e}')
                return True
            except Exception as e:   # the forward itself does not run on this in-domain input: no map to differentiate
                fk = f'C06/{c.fwd_name or row}/{key.split("/", 2)[2]}/forward-raises:{type(e).__name__}'
                ctx.observe(mon)
                ctx.violation(fk, f'{c.fwd_name or row}: the forward raises {type(e).__name__} ({str(e)[:120]}) on an '
                              'in-domain input, so the node has no gradient there', desc, exception=repr(e)[:300])
                return False
            try:
                Ahy = np.asarray(c.bwd(y))
            except _OutOfDomain as e:
                ctx.skip(f'{row}: {e}')
                return True
            except Exception as e:
                ctx.observe(mon)
                ctx.violation(f'{key}/raises:{type(e).__name__}', f'{row} raises {type(e).__name__}: {str(e)[:160]}',
                              desc, exception=repr(e)[:300])
                return False
            if Ahy.shape != x.shape:
                ctx.observe(mon)
                ctx.violation(key + '/shape', f'{row}: gradient has shape {Ahy.shape}, the forward input has {x.shape}', desc)
                return False
            probes.append((x0, y0, Ax, Ahy))
        nA = max(norm(Ax) / max(norm(x), 1e-300) for x, y, Ax, Ahy in probes)
        if nA == 0.0:
            trivial = True
        for x, y, Ax, Ahy in probes:
            lhs = inner(y, Ax)
            rhs = inner(Ahy, x)
            scale = norm(x) * norm(y) * nA
            if nA == 0.0:     # the zero map: its adjoint is the zero map
                scale = norm(x) * norm(y)
            ok = ctx.close(mon, rhs, lhs, key, f'{row} is not the adjoint of its forward: <ybar,Ax> != <backprop(ybar),x>',
                           desc, rtol=c.rtol, scale=scale, lhs=complex(lhs), rhs=complex(rhs))
            if ok and scale > 0:
                self._ro(row, abs(lhs - rhs) / scale)
        return trivial

    # ---------------------------------------------------------------- non-linear: directional derivative
    def _directional(self, mon, row, key, desc, cost_along, analytic, scale, what):
        ctx = self.ctx
        num, settle = richardson_directional(cost_along, 1.0)
        if not np.isfinite(num) or not (settle <= SETTLE * scale):
            ctx.skip(f'{row}: richardson extrapolants disagree > 1e-7 (non-smooth or round-off dominated point)')
            return None
        ok = ctx.close(mon, analytic, num, key, what, desc, rtol=RT_DIR, scale=scale,
                       analytic=float(np.real(analytic)), numeric=float(num))
        if ok and scale > 0:
            self._ro(row, abs(float(np.real(analytic)) - num) / scale)
        return ok

    def check_vjp(self, row, key, desc, c, rng):
        ctx = self.ctx
        mon = 'dirderiv:' + row
        x0 = c.x0
        try:
            y0 = np.asarray(c.f(x0))
        except _OutOfDomain as e:
            ctx.skip(f'{row}: {e}')
            return True
        trivial = True
        for _ in range(c.nprobe):
            g = draw(rng, y0.shape if c.gshape is None else c.gshape, c.gkind)
            d = draw(rng, x0.shape, c.xkind)
            d *= c.h / max(np.max(np.abs(d)), 1e-300)        # largest per-sample step = h (in the input's own units)
            try:
                xbar = np.asarray(c.vjp(x0, g.copy()))
            except _OutOfDomain as e:
                ctx.skip(f'{row}: {e}')
                return True
            except Exception as e:
                ctx.observe(mon)
                ctx.violation(f'{key}/raises:{type(e).__name__}', f'{row} raises {type(e).__name__}: {str(e)[:160]}',
                              desc, exception=repr(e)[:300])
                return False
            if xbar.shape != x0.shape:
                ctx.observe(mon)
                ctx.violation(key + '/shape', f'{row}: gradient has shape {xbar.shape}, the forward input has {x0.shape}', desc)
                return False

            def cost_along(t):
                return float(np.real(inner(g, c.f(x0 + t * d))))
            Jd = (np.asarray(c.f(x0 + d)) - np.asarray(c.f(x0 - d))) / 2
            scale = norm(g) * norm(Jd)
            if scale == 0.0:
                ctx.skip(f'{row}: zero response J d')
                continue
            if norm(Jd) < FLOOR * norm(y0):
                # e.g. a softmax saturated to one-hot: J d is at the round-off level of the forward values, a finite
                # difference cannot resolve it to 1e-7 relative
                ctx.skip(f'{row}: response |J d| < 1e-5 |f(x)| (finite differences round-off dominated)')
                continue
            trivial = False
            analytic = np.real(inner(xbar, d))
            self._directional(mon, row, key, desc, cost_along, analytic, scale,
                              f'{row}: Re<backprop(gbar),d> is not the directional derivative of Re<gbar,forward(x)>')
        return trivial

    def check_pointwise(self, row, key, desc, c, rng):
        ctx = self.ctx
        mon = 'pointwise:' + row
        x = c.x0.copy()
        keep = x.copy()
        try:
            got = np.asarray(c.node.backprop(x))
        except Exception as e:
            ctx.observe(mon)
            ctx.violation(f'{key}/raises:{type(e).__name__}', f'{row} raises {type(e).__name__}: {str(e)[:160]}', desc,
                          exception=repr(e)[:300])
            return False
        ctx.require('no-input-mutation:' + row, np.array_equal(x, keep), key + '/mutates-input',
                    f'{row} modifies the array it is given', desc)
        # reference: Richardson central differences where they are well conditioned; the complex-step derivative
        # (no subtractive cancellation) everywhere once it has been validated against Richardson on those elements
        f0 = np.abs(np.asarray(c.node.forward(keep)))
        rich, settle = richardson_elementwise(c.node.forward, keep, c.h)
        scale = float(np.max(np.abs(rich))) if rich.size else 0.0
        if scale == 0.0:
            return True
        good = (settle <= SETTLE * scale) & (np.abs(rich) * c.h >= FLOOR * np.maximum(f0, 1e-300))
        ref, use = rich, good
        try:
            with np.errstate(all='ignore'):
                cs = complex_step_elementwise(c.node.forward, keep)
            if cs.shape == rich.shape and np.isfinite(cs).all() and good.any() \
                    and np.max(np.abs(cs[good] - rich[good])) <= RT_DIR * scale:
                ref, use = cs, np.ones(rich.shape, dtype=bool)
                scale = float(np.max(np.abs(cs)))
        except Exception:
            pass
        if not use.all():
            ctx.skip(f'{row}: finite-difference reference ill-conditioned and complex step not validated (elements dropped)',
                     int((~use).sum()))
        if not use.any():
            return True
        if got.shape != ref.shape:
            ctx.observe(mon)
            ctx.violation(key + '/shape', f'{row}: shape {got.shape} != {ref.shape}', desc)
            return False
        ok = ctx.close(mon, got[use], ref[use], key, f'{row}(x) is not d forward/dx', desc, rtol=RT_DIR, scale=scale)
        if ok:
            self._ro(row, float(np.max(np.abs(got[use] - ref[use]))) / scale)
        return False

    def check_cost(self, row, key, desc, c, rng):
        ctx = self.ctx
        mon = 'dirderiv:' + row
        x0 = c.x0
        keep = x0.copy()
        try:
            cost0, grad = c.fn(x0)
        except Exception as e:
            ctx.observe(mon)
            ctx.violation(f'{key}/raises:{type(e).__name__}', f'{row} raises {type(e).__name__}: {str(e)[:160]}', desc,
                          exception=repr(e)[:300])
            return False
        grad = np.asarray(grad)
        if grad.shape != x0.shape:
            ctx.observe(mon)
            ctx.violation(key + '/shape', f'{row}: gradient has shape {grad.shape}, the model input has {x0.shape}', desc)
            return False
        trivial = True
        # reference-side scale |grad| |d|: plain central differences per coordinate (sizes are small)
        gn = np.zeros(x0.size)
        for j in range(x0.size):
            e = np.zeros(x0.size)
            e[j] = c.h
            e = e.reshape(x0.shape)
            gn[j] = (c.fn(keep + e)[0] - c.fn(keep - e)[0]) / (2 * c.h)
        gnum = norm(gn)
        for _ in range(c.nprobe):
            d = rng.standard_normal(x0.shape)
            d *= c.h / max(np.max(np.abs(d)), 1e-300)

            def cost_along(t):
                return float(c.fn(keep + t * d)[0])
            scale = gnum * norm(d)
            if scale == 0.0:
                ctx.skip(f'{row}: zero response')
                continue
            if scale < FLOOR * abs(cost0):
                ctx.skip(f'{row}: response < 1e-5 |cost| (finite differences round-off dominated)')
                continue
            trivial = False
            analytic = float(np.sum(grad * d))
            self._directional(mon, row, key, desc, cost_along, analytic, scale,
                              f'{row}: returned gradient is not the gradient of the returned cost')
        return trivial


class _OutOfDomain(Exception):
    pass


# ============================================================================================ the table
# Each generator yields (cls, desc, build) with build(rng) -> Lin | Vjp | Pointwise | Cost.  `n` is the number
# of random extras wanted on this shard after the enumerated classes; `k` counts enumeration indices for sharding.
def _subseed(rng):
    return int(rng.integers(0, 2 ** 31 - 1))


SHAPES_SMALL = {
    'sq': [(4, 4), (5, 5), (6, 6), (7, 7)],
    'nonsq': [(4, 6), (5, 8), (7, 4), (6, 9), (5, 7)],
    'line': [(1, 6), (7, 1)],
}


def _rand_shape(rng, kind, lo, hi):
    if kind == 'sq':
        n = int(rng.integers(lo, hi + 1))
        return (n, n)
    if kind == 'line':
        n = int(rng.integers(max(lo, 2), hi + 1))
        return (1, n) if rng.integers(2) else (n, 1)
    while True:
        a, b = (int(v) for v in rng.integers(lo, hi + 1, 2))
        if a != b:
            return (a, b)


def _shift_of(rng, kind):
    if kind == '0':
        return (0, 0)
    c = int(rng.integers(4))
    if c == 0:
        return (float(rng.integers(-3, 4)) or 1.0, float(rng.integers(-3, 4)))
    if c == 1:
        return (float(np.round(rng.uniform(-2, 2), 3)) or 0.5, 0)
    if c == 2:
        return (0, float(np.round(rng.uniform(-2, 2), 3)) or -0.25)
    return tuple(float(v) for v in np.round(rng.uniform(-3, 3, 2), 3))


def _Q_of(rng, kind):
    if kind == 'scalar':
        return [1, 2, 1.5, float(np.round(rng.uniform(0.8, 4), 3)), 3][int(rng.integers(5))]
    q = tuple(float(v) for v in np.round(rng.uniform(0.8, 4, 2), 3))
    return q


def gen_mdft(ctx, rng, which, f32=False):
    """mdft.dft2 <-> dft2_backprop, mdft.idft2 <-> idft2_backprop."""
    from prysm.fttools import mdft
    fwd = getattr(mdft, which)
    bwd = getattr(mdft, which + '_backprop')
    hi = ctx.pick(12, 28)
    kinds = ['sq', 'nonsq', 'line']
    classes = [(a, b, q, s) for a in kinds for b in kinds for q in ('scalar', 'pair') for s in ('0', 'nz')]
    reps = ctx.pick(18, 200)
    k = -1
    for rep in range(reps + 1):
        for (ka, kb, kq, ks) in classes:
            k += 1
            if not ctx.mine(k):
                continue
            if rep == 0:
                sa = SHAPES_SMALL[ka][k % len(SHAPES_SMALL[ka])]
                sb = SHAPES_SMALL[kb][(k // 3) % len(SHAPES_SMALL[kb])]
            else:
                sa, sb = _rand_shape(rng, ka, 2, hi), _rand_shape(rng, kb, 2, hi)
            Q = _Q_of(rng, kq)
            shift = _shift_of(rng, ks)
            xk = 'r' if (k % 5 == 0) else 'c'
            samples_int = (kb == 'sq' and k % 2 == 0)    # the int form of samples_out on the forward side
            back_int = (ka == 'sq' and k % 4 < 2)        # the int form of the input-shape argument of the backprop
            cls = f'{ka}->{kb}/Q:{kq}/shift:{ks}'
            desc = {'in': sa, 'out': sb, 'parity': shape_class(sa) + '>' + shape_class(sb), 'Q': Q, 'shift': shift,
                    'x': xk, 'samples_as_int': [samples_int, back_int], 'sub': _subseed(rng)}

            def build(r, sa=sa, sb=sb, Q=Q, shift=shift, xk=xk, samples_int=samples_int, back_int=back_int):
                so = sb[0] if samples_int else sb
                si = sa[0] if back_int else sa
                return Lin(lambda x: fwd(x, Q, so, shift), lambda y: bwd(y, Q, si, shift), sa, sb, xkind=xk)
            yield cls, desc, build


def _focal_geometry(rng, pupil_shape):
    """Random physical parameters with Q (axis 0) in [1, 4]."""
    dx = float(np.round(rng.uniform(0.02, 0.5), 4))          # mm
    wvl = float(np.round(rng.uniform(0.4, 1.6), 3))           # um
    efl = float(np.round(rng.uniform(50, 500), 1))            # mm
    Q = float(rng.uniform(1, 4))
    fdx = wvl * efl / (pupil_shape[0] * dx) / Q               # um
    fdx = float(np.round(fdx, 4 - int(math.floor(math.log10(abs(fdx)))) - 1))
    return dx, wvl, efl, fdx


def _phys_shift(rng, kind, unit):
    if kind == '0':
        return (0, 0)
    s = _shift_of(rng, 'nz')
    return (float(np.round(s[0] * unit, 6)), float(np.round(s[1] * unit, 6)))


def gen_ffs(ctx, rng, which, form):
    """focus_fixed_sampling / unfocus_fixed_sampling <-> their backprops; function and Wavefront forms."""
    from prysm import propagation as P
    hi = ctx.pick(10, 24)
    kinds = ['sq', 'nonsq']
    rel = ['equal', 'unequal']
    classes = [(ka, r, ks) for ka in kinds for r in rel for ks in ('0', 'nz')]
    reps = ctx.pick(72, 900)
    k = -1
    for rep in range(reps + 1):
        for (ka, r, ks) in classes:
            k += 1
            if not ctx.mine(k):
                continue
            pupil = SHAPES_SMALL[ka][k % len(SHAPES_SMALL[ka])] if rep == 0 else _rand_shape(rng, ka, 3, hi)
            if r == 'equal':
                focal = pupil
            else:
                fk = ['sq', 'nonsq'][int(rng.integers(2))]
                while True:
                    focal = _rand_shape(rng, fk, 3, hi + 4)
                    if focal != pupil:
                        break
            dx, wvl, efl, fdx = _focal_geometry(rng, pupil)
            # shift is "same units as output_dx": focal units (um) for focus, pupil units (mm) for unfocus
            shift = _phys_shift(rng, ks, fdx if which == 'focus' else dx)
            as_int = (k % 2 == 0)
            cls = f'pupil:{ka}/focal:{r}/shift:{ks}'
            desc = {'pupil': pupil, 'focal': focal, 'dx': dx, 'wvl': wvl, 'efl': efl, 'fdx': fdx, 'shift': shift,
                    'form': form, 'int_samples': as_int, 'sub': _subseed(rng)}

            def build(r_, pupil=pupil, focal=focal, dx=dx, wvl=wvl, efl=efl, fdx=fdx, shift=shift, as_int=as_int):
                def smp(s):
                    return s[0] if (as_int and s[0] == s[1]) else s
                if which == 'focus':
                    if form == 'function':
                        return Lin(lambda x: P.focus_fixed_sampling(x, dx, efl, wvl, fdx, smp(focal), shift=shift),
                                   lambda y: P.focus_fixed_sampling_backprop(y, dx, efl, wvl, fdx, smp(pupil), shift=shift),
                                   pupil, focal)
                    return Lin(lambda x: P.Wavefront(x, wvl, dx).focus_fixed_sampling(efl, fdx, smp(focal), shift=shift).data,
                               lambda y: P.Wavefront(y, wvl, fdx, 'psf').focus_fixed_sampling_backprop(efl, dx, smp(pupil), shift=shift).data,
                               pupil, focal)
                # unfocus: forward maps focal -> pupil
                return Lin(lambda x: P.unfocus_fixed_sampling(x, fdx, efl, wvl, dx, smp(pupil), shift=shift),
                           lambda y: P.unfocus_fixed_sampling_backprop(y, fdx, efl, wvl, dx, smp(focal), shift=shift),
                           focal, pupil)
            yield cls, desc, build


def _mask(rng, shape, kind):
    """real: grey-level transmission in [0,1] (every fourth one a hard-edged boolean mask); complex: amplitude * phase."""
    m = rng.uniform(0.0, 1.0, shape)
    if kind == 'complex':
        m = m * np.exp(1j * rng.uniform(-np.pi, np.pi, shape))
    elif rng.integers(4) == 0:
        m = m > 0.4
        if m.sum() < 2:
            m[...] = True
    return m


def gen_tfb(ctx, rng, form):
    """to_fpm_and_back <-> to_fpm_and_back_backprop."""
    from prysm import propagation as P
    hi = ctx.pick(9, 20)
    classes = [(mk, r, ks) for mk in ('real', 'complex') for r in ('same', 'other') for ks in ('0', 'nz')]
    reps = ctx.pick(72, 900)
    k = -1
    for rep in range(reps + 1):
        for (mk, r, ks) in classes:
            k += 1
            if not ctx.mine(k):
                continue
            pk = 'sq' if (k // 8) % 3 != 2 else 'nonsq'
            pupil = SHAPES_SMALL[pk][k % len(SHAPES_SMALL[pk])] if rep == 0 else _rand_shape(rng, pk, 3, hi)
            if r == 'same':
                ms = pupil
            else:
                while True:
                    ms = _rand_shape(rng, ['sq', 'nonsq'][int(rng.integers(2))], 3, hi + 4)
                    if ms != pupil:
                        break
            dx, wvl, efl, fdx = _focal_geometry(rng, pupil)
            shift = _phys_shift(rng, ks, fdx)
            more = (k % 3 == 0)
            cls = f'{mk}-mask/{r}-shape/shift:{ks}'
            desc = {'pupil': pupil, 'mask': ms, 'mask_kind': mk, 'dx': dx, 'wvl': wvl, 'efl': efl, 'fdx': fdx, 'shift': shift,
                    'form': form, 'return_more': more, 'sub': _subseed(rng)}

            def build(r_, pupil=pupil, ms=ms, mk=mk, dx=dx, wvl=wvl, efl=efl, fdx=fdx, shift=shift, more=more):
                fpm = _mask(r_, ms, mk)

                def first(v):
                    return v[0] if more else v
                if form == 'function':
                    return Lin(lambda x: first(P.to_fpm_and_back(x, dx, efl, wvl, fpm, fdx, shift=shift, return_more=more)),
                               lambda y: first(P.to_fpm_and_back_backprop(y, dx, wvl, efl, fpm, fdx, shift=shift, return_more=more)),
                               pupil, pupil)
                return Lin(lambda x: first(P.Wavefront(x, wvl, dx).to_fpm_and_back(efl, fpm, fdx, shift=shift, return_more=more)).data,
                           lambda y: first(P.Wavefront(y, wvl, dx).to_fpm_and_back_backprop(efl, fpm, fdx, shift=shift, return_more=more)).data,
                           pupil, pupil)
            yield cls, desc, build


def gen_babinet(ctx, rng):
    """Wavefront.babinet <-> Wavefront.babinet_backprop."""
    from prysm import propagation as P
    hi = ctx.pick(9, 20)
    classes = [(lk, mk, r) for lk in ('none', 'real', 'complex') for mk in ('real', 'complex') for r in ('same', 'other')]
    reps = ctx.pick(48, 600)
    k = -1
    for rep in range(reps + 1):
        for (lk, mk, r) in classes:
            k += 1
            if not ctx.mine(k):
                continue
            pk = 'sq' if (k // 12) % 3 != 2 else 'nonsq'
            pupil = SHAPES_SMALL[pk][k % len(SHAPES_SMALL[pk])] if rep == 0 else _rand_shape(rng, pk, 3, hi)
            if r == 'same':
                ms = pupil
            else:
                while True:
                    ms = _rand_shape(rng, ['sq', 'nonsq'][int(rng.integers(2))], 3, hi + 4)
                    if ms != pupil:
                        break
            dx, wvl, efl, fdx = _focal_geometry(rng, pupil)
            # the Lyot stop kind is crossed with every mask class (so a Lyot-specific defect shows up under the
            # otherwise clean real-mask/same-shape key); it is recorded in the descriptor, not in the key
            cls = f'{mk}-mask/{r}-shape'
            desc = {'pupil': pupil, 'mask': ms, 'mask_kind': mk, 'lyot': lk, 'detail': f'lyot:{lk}', 'dx': dx, 'wvl': wvl, 'efl': efl, 'fdx': fdx,
                    'sub': _subseed(rng)}

            def build(r_, pupil=pupil, ms=ms, mk=mk, lk=lk, dx=dx, wvl=wvl, efl=efl, fdx=fdx):
                fpm = _mask(r_, ms, mk)
                lyot = None if lk == 'none' else _mask(r_, pupil, lk)
                return Lin(lambda x: P.Wavefront(x, wvl, dx).babinet(efl, lyot, fpm, fdx).data,
                           lambda y: P.Wavefront(y.copy(), wvl, dx).babinet_backprop(efl, lyot, fpm, fdx).data,
                           pupil, pupil)
            yield cls, desc, build


def gen_intensity(ctx, rng):
    """Wavefront.intensity <-> intensity_backprop."""
    from prysm import propagation as P
    n = ctx.share(ctx.pick(720, 9600))
    for i in range(n):
        kind = ['sq', 'nonsq', 'line'][i % 3]
        shape = _rand_shape(rng, kind, 2, ctx.pick(10, 24))
        space = ['pupil', 'psf'][i % 2]
        cls = f'{kind}/{space}'
        desc = {'shape': shape, 'space': space, 'sub': _subseed(rng)}

        def build(r_, shape=shape, space=space):
            E = crandn(r_, shape) * float(r_.uniform(0.1, 10))

            def f(x):
                return np.asarray(P.Wavefront(x, 0.6, 0.1, space).intensity.data)

            def vjp(x, g):
                return P.Wavefront(x, 0.6, 0.1, space).intensity_backprop(g).data
            return Vjp(f, vjp, E, gkind='r', xkind='c', h=1e-2 * float(np.max(np.abs(E))))
        yield cls, desc, build


def gen_phase(ctx, rng):
    """Wavefront.from_amp_and_phase <-> from_amp_and_phase_backprop_phase."""
    from prysm import propagation as P
    n = ctx.share(ctx.pick(720, 9600))
    for i in range(n):
        kind = ['sq', 'nonsq', 'line'][i % 3]
        shape = _rand_shape(rng, kind, 2, ctx.pick(10, 24))
        ak = ['real', 'complex', 'binary'][(i // 3) % 3]
        wvl = float(np.round(rng.uniform(0.4, 2.0), 3))
        rms = float(np.round(10 ** rng.uniform(0, 2.5), 2))          # nm
        cls = f'amp:{ak}'
        desc = {'shape': shape, 'amp': ak, 'wvl': wvl, 'phase_rms_nm': rms, 'sub': _subseed(rng)}

        def build(r_, shape=shape, ak=ak, wvl=wvl, rms=rms):
            amp = r_.uniform(0.1, 1.5, shape)
            if ak == 'complex':
                amp = amp * np.exp(1j * r_.uniform(-3, 3, shape))
            if ak == 'binary':
                amp = (r_.uniform(0, 1, shape) > 0.3).astype(float)
                if amp.sum() < 2:
                    amp[...] = 1.0
            ph = r_.standard_normal(shape) * rms

            def f(p):
                return P.Wavefront.from_amp_and_phase(amp, p, wvl, 0.1).data

            def vjp(p, g):
                w = P.Wavefront.from_amp_and_phase(amp, p, wvl, 0.1)
                return w.from_amp_and_phase_backprop_phase(P.Wavefront(g, wvl, 0.1))
            h = 1e-2 * wvl * 1e3 / (2 * np.pi)     # 0.01 rad of phase
            return Vjp(f, vjp, ph, gkind='c', xkind='r', h=h)
        yield cls, desc, build


def gen_modes(ctx, rng):
    """polynomials.sum_of_2d_modes <-> sum_of_2d_modes_backprop (linear in the weights)."""
    from prysm import polynomials
    n = ctx.share(ctx.pick(720, 9600))
    for i in range(n):
        kind = ['sq', 'nonsq', 'line'][i % 3]
        shape = _rand_shape(rng, kind, 2, ctx.pick(10, 24))
        K = [1, 2, 5, int(rng.integers(1, 12))][i % 4]
        as_list = (i % 2 == 0)
        gk = ['r', 'c'][(i // 2) % 2]
        cls = f'{"list" if as_list else "array"}/databar:{"real" if gk == "r" else "complex"}'
        desc = {'shape': shape, 'K': K, 'modes_as_list': as_list, 'sub': _subseed(rng)}

        def build(r_, shape=shape, K=K, as_list=as_list, gk=gk):
            modes = r_.standard_normal((K,) + shape)
            mm = [m for m in modes] if as_list else modes
            return Lin(lambda w: polynomials.sum_of_2d_modes(mm, w), lambda g: polynomials.sum_of_2d_modes_backprop(mm, g),
                       (K,), shape, xkind='r', ykind=gk)
        yield cls, desc, build


def _dm_ifn(N, sigma):
    c = np.arange(N) - N // 2
    x, y = np.meshgrid(c, c)
    return np.exp(-(x * x + y * y) / (2.0 * sigma * sigma))


DM_CONFIGS = [
    # (features, kwargs) -- smallest first; label = '+'.join(features) or 'plain'
    ((), {}),
    (('shift!=0',), {'shift': (1.5, -0.7)}),
    (('pad',), {'dN': 8}),
    (('crop',), {'dN': -8}),
    (('shift!=0', 'pad'), {'shift': (-2.25, 1.0), 'dN': 6}),
    (('shift!=0', 'crop'), {'shift': (0.5, 0.5), 'dN': -6}),
    (('ifn=odd',), {'odd': True}),
    (('rot!=0',), {'rot': (0, 10, 0)}),
    (('upsample!=1',), {'upsample': 0.5}),
    (('ifn=odd', 'shift!=0', 'pad'), {'odd': True, 'shift': (1.5, -0.7), 'dN': 8}),
    (('rot!=0', 'shift!=0', 'crop'), {'rot': (5, 0, 3), 'shift': (1.0, 2.0), 'dN': -8}),
    (('upsample!=1', 'pad'), {'upsample': 2, 'dN': 8}),
]


def gen_dm(ctx, rng):
    """DM.render <-> DM.render_backprop (render is linear in the actuator commands)."""
    import warnings
    from prysm.x.dm import DM
    reps = ctx.pick(30, 300)
    k = -1
    for rep in range(reps):
        for feats, kw in DM_CONFIGS:
            k += 1
            if not ctx.mine(k):
                continue
            odd = kw.get('odd', False)
            N = (24 if rep == 0 else int(rng.integers(12, 21)) * 2) + (1 if odd else 0)
            Nact = [4, 3, 5][k % 3] if rep else 4
            sep = [3, 4][k % 2]
            if (Nact // 2 + 1) * sep + sep // 2 >= N // 2:
                sep = 3
            shift = kw.get('shift', (0, 0))
            if rep and nz(shift):
                shift = tuple(float(v) for v in np.round(rng.uniform(-3, 3, 2), 2))
            rot = kw.get('rot', (0, 0, 0))
            if rep and nz(rot):
                rot = tuple(float(v) for v in np.round(rng.uniform(-12, 12, 3), 1))
            up = kw.get('upsample', 1)
            Ninter = int(N * up) if up != 1 else N
            Nout = Ninter + kw.get('dN', 0)
            wfe = bool((k + rep) % 2 == 0)
            sigma = float(np.round(rng.uniform(1.0, 2.0), 2))
            cls = '+'.join(feats) if feats else 'plain'
            desc = {'N': N, 'Nact': Nact, 'sep': sep, 'shift': shift, 'rot': rot, 'upsample': up, 'Nout': Nout, 'wfe': wfe,
                    'sigma': sigma, 'sub': _subseed(rng)}

            def build(r_, N=N, Nact=Nact, sep=sep, shift=shift, rot=rot, up=up, Nout=Nout, wfe=wfe, sigma=sigma):
                ifn = _dm_ifn(N, sigma)
                with warnings.catch_warnings():
                    warnings.simplefilter('ignore')
                    dm = DM(ifn, Nout=Nout, Nact=Nact, sep=sep, shift=shift, rot=rot, upsample=up)

                def fwd(a):
                    dm.update(a)
                    return dm.render(wfe=wfe)

                def bwd(g):
                    return dm.render_backprop(g.copy(), wfe=wfe)
                return Lin(fwd, bwd, dm.actuators.shape, (Nout, Nout), xkind='r', ykind='r')
            yield cls, desc, build


def gen_softmax(ctx, rng, which):
    """Softmax / GumbelSoftmax forward <-> backprop as vector-Jacobian products."""
    from prysm.x.optym.activation import Softmax, GumbelSoftmax
    n = ctx.share(ctx.pick(720, 9600))
    for i in range(n):
        nd = [2, 3, 4][i % 3]
        K = [2, 3, 5, int(rng.integers(2, 9))][i % 4]
        lead = tuple(int(v) for v in rng.integers(1, ctx.pick(5, 8), nd - 1))
        shape = lead + (K,)
        spread = float(np.round(rng.uniform(0.2, 2.0), 2))
        tau = float(np.round(10 ** rng.uniform(-0.7, 0.7), 3))
        epsk = ['default', 'given'][i % 2]
        seed = _subseed(rng)
        cls = f'ndim={nd}' if which == 'Softmax' else f'ndim={nd}/eps:{epsk}'
        desc = {'shape': shape, 'spread': spread, 'sub': _subseed(rng)}
        # history: the node is built at another temperature, used once, then annealed to tau (the documented usage)
        anneal = which != 'Softmax' and i % 3 == 2
        tau0 = float(np.round(tau * [4.0, 0.25, 10.0][(i // 3) % 3], 3)) if anneal else tau
        if which != 'Softmax':
            desc.update(tau=tau, eps=epsk, noise_seed=seed)
            if anneal:
                cls += '/annealed'
                desc.update(built_with_tau=tau0)

        def build(r_, shape=shape, spread=spread, tau=tau, epsk=epsk, seed=seed, tau0=tau0, anneal=anneal):
            x0 = r_.standard_normal(shape) * spread
            if which == 'Softmax':
                node = Softmax()

                def f(x):
                    return node.forward(x)
                hh = 1e-2
            else:
                node = GumbelSoftmax(tau=tau0, eps=(1e-9 if epsk == 'given' else None))
                if anneal:
                    node.rng = np.random.default_rng(seed)
                    node.backprop(np.ones(shape) * node.forward(x0))   # one step at the old temperature
                    node.tau = tau

                def f(x):
                    node.rng = np.random.default_rng(seed)
                    return node.forward(x)
                hh = 1e-2 * min(tau, 1.0)

            def vjp(x, g):
                f(x)
                return node.backprop(g)
            return Vjp(f, vjp, x0, gkind='r', xkind='r', h=hh)
        yield cls, desc, build


def gen_encoder(ctx, rng):
    """DiscreteEncoder forward <-> backprop, 2-D and N-D inputs, Softmax and GumbelSoftmax estimators."""
    from prysm.x.optym.activation import Softmax, GumbelSoftmax, DiscreteEncoder
    n = ctx.share(ctx.pick(720, 9600))
    for i in range(n):
        nd = [2, 3, 2, 4][i % 4]
        est = ['GumbelSoftmax', 'Softmax'][(i // 4) % 2]
        lk = ['int', 'gapped', 'arange'][(i // 2) % 3]
        K = [2, 3, 5, int(rng.integers(2, 8))][i % 4]
        lead = tuple(int(v) for v in rng.integers(2, ctx.pick(5, 8), nd - 1))
        if nd == 3 and i % 8 == 1:
            lead = (lead[0], K)        # the silent-broadcast trap: second dimension equal to the number of levels
        shape = lead + (K,)
        tau = float(np.round(10 ** rng.uniform(-0.5, 0.5), 3))
        seed = _subseed(rng)
        if lk == 'int':
            levels = K
        elif lk == 'arange':
            levels = np.arange(K)
        else:
            levels = np.sort(rng.choice(np.arange(-5, 20), K, replace=False))
        cls = 'ndim=2' if nd == 2 else 'ndim>2'
        desc = {'shape': shape, 'estimator': est, 'levels': levels if lk == 'int' else levels.tolist(), 'tau': tau,
                'noise_seed': seed, 'sub': _subseed(rng)}
        anneal = est == 'GumbelSoftmax' and i % 3 == 1
        tau0 = float(np.round(tau * [4.0, 0.2][(i // 3) % 2], 3)) if anneal else tau
        if anneal:
            cls += '/annealed'
            desc.update(built_with_tau=tau0)

        def build(r_, shape=shape, est=est, levels=levels, tau=tau, seed=seed, tau0=tau0, anneal=anneal):
            x0 = r_.standard_normal(shape)
            e = GumbelSoftmax(tau=tau0) if est == 'GumbelSoftmax' else Softmax()
            node = DiscreteEncoder(e, levels)
            if anneal:
                e.rng = np.random.default_rng(seed)
                node.backprop(node.forward(x0))     # one step at the old temperature
                node.est.tau = tau                  # anneal through the encoder's estimator, as the docstring describes

            def f(x):
                if est == 'GumbelSoftmax':
                    e.rng = np.random.default_rng(seed)
                return node.forward(x)

            def vjp(x, g):
                f(x)
                return node.backprop(g)
            return Vjp(f, vjp, x0, gkind='r', xkind='r', h=1e-2 * min(tau, 1.0) if est == 'GumbelSoftmax' else 1e-2)
        yield cls, desc, build


def gen_activation(ctx, rng, name):
    """Tanh / Arctan / Softplus / Sigmoid with arbitrary (a, x0, y0): backprop(x) == d forward/dx, x not mutated."""
    from prysm.x.optym import activation
    klass = getattr(activation, name)
    n = ctx.share(ctx.pick(720, 9600))
    for i in range(n):
        pk = ['default', 'a', 'a,x0', 'a,x0,y0', 'x0,y0'][i % 5]
        given = pk.split(',')
        a = float(np.round(10 ** rng.uniform(-1, 0.7), 3)) if 'a' in given else 1
        x0 = float(np.round(rng.uniform(-2, 2), 3)) if 'x0' in given else 0
        y0 = float(np.round(rng.uniform(-2, 2), 3)) if 'y0' in given else 0
        shape = [(7,), (3, 4), (2, 3, 2), (1,)][i % 4]
        cls = f'params:{pk}'
        desc = {'a': a, 'x0': x0, 'y0': y0, 'shape': shape, 'sub': _subseed(rng)}
        reparam = pk != 'default' and i % 4 == 3
        if reparam:
            cls += '/set-after-construction'

        def build(r_, a=a, x0=x0, y0=y0, shape=shape, reparam=reparam):
            if reparam:
                # history: built with other parameters, used once, then the public attributes are re-assigned
                node = klass(a=2.5 * a, x0=x0 - 1.0, y0=y0 + 0.5)
                node.backprop(node.forward(np.linspace(-1, 1, 5)))
                node.a, node.x0, node.y0 = a, x0, y0
            else:
                node = klass(a=a, x0=x0, y0=y0)
            x = x0 + r_.uniform(-6, 6, shape) / a
            return Pointwise(node, x, 3e-3 / a)
        yield cls, desc, build


def gen_cost(ctx, rng, name):
    """mean_square_error / negative_loglikelihood / bias_and_gain_invariant_error: gradient of the returned cost."""
    from prysm.x.optym import cost
    fn = getattr(cost, name)
    n = ctx.share(ctx.pick(720, 9600))
    for i in range(n):
        mk = ['unmasked', 'masked', 'mask-all-true'][i % 3]
        shape = [(5, 6), (12,), (4, 4), (3, 7), (2, 3, 4)][i % 5]
        if mk != 'unmasked' and name == 'bias_and_gain_invariant_error' and len(shape) == 3:
            shape = (6, 4)
        cls = mk
        desc = {'shape': shape, 'mask': mk, 'sub': _subseed(rng)}
        if name == 'negative_loglikelihood':
            tk = ['array', 'scalar'][(i // 3) % 2]
            cls = f'{mk}/target:{tk}'
            desc['target'] = tk

        def build(r_, shape=shape, mk=mk, desc=desc):
            mask = None
            if mk == 'masked':
                mask = r_.uniform(0, 1, shape) > 0.35
                if mask.sum() < 3:
                    mask = np.ones(shape, dtype=bool)
                    mask.flat[0] = False
            elif mk == 'mask-all-true':
                mask = np.ones(shape, dtype=bool)
            if name == 'negative_loglikelihood':
                y = r_.uniform(0.05, 0.95, shape)
                yhat = r_.uniform(0.05, 0.95, shape) if desc['target'] == 'array' else float(r_.uniform(0.05, 0.95))
                return Cost(lambda m: fn(m, yhat, mask), y, 5e-4)
            M = r_.uniform(0.1, 1.1, shape) * float(r_.uniform(0.5, 20))
            D = r_.uniform(0.1, 1.1, shape) * float(r_.uniform(0.5, 20))
            return Cost(lambda m: fn(m, D, mask), M, 3e-3 * float(np.max(M)))
        yield cls, desc, build


def gen_spatial(ctx, rng, axis):
    """SpatialGradient2D.forward_x/y <-> backprop_x/y."""
    from prysm.x.optym.operators import SpatialGradient2D
    op = SpatialGradient2D()
    fwd = getattr(op, 'forward_' + axis)
    bwd = getattr(op, 'backprop_' + axis)
    n = ctx.share(ctx.pick(720, 9600))
    shapes0 = [(3, 3), (4, 4), (3, 4), (3, 5), (5, 3), (6, 4), (4, 7), (5, 8)]
    for i in range(n):
        if i < len(shapes0) and ctx.shard == 0:
            shape = shapes0[i]
        else:
            kind = ['sq', 'wide', 'tall'][i % 3]
            if kind == 'sq':
                shape = _rand_shape(rng, 'sq', 3, ctx.pick(10, 24))
            else:
                a, b = sorted(_rand_shape(rng, 'nonsq', 3, ctx.pick(10, 24)))
                shape = (a, b) if kind == 'wide' else (b, a)
        kind = 'square' if shape[0] == shape[1] else ('wide' if shape[1] > shape[0] else 'tall')
        xk = ['r', 'c'][i % 2]
        cls = kind
        desc = {'shape': shape, 'x': xk, 'sub': _subseed(rng)}

        def build(r_, shape=shape, xk=xk):
            return Lin(fwd, bwd, shape, shape, xkind=xk, ykind=xk, fwd_name='SpatialGradient2D.forward_' + axis)
        yield cls, desc, build


def gen_f32(ctx, rng):
    """float32 configuration slice of the mdft / fixed-sampling adjoints (loose tolerance)."""
    from prysm.fttools import mdft
    from prysm import propagation as P
    n = ctx.share(ctx.pick(96, 1600))
    for i in range(n):
        sa = _rand_shape(rng, ['sq', 'nonsq'][i % 2], 3, 12)
        sb = _rand_shape(rng, ['sq', 'nonsq'][(i // 2) % 2], 3, 12)
        Q = _Q_of(rng, ['scalar', 'pair'][i % 2])
        shift = tuple(float(v) for v in np.round(rng.uniform(-2, 2, 2), 5))   # fresh key => bases built in float32
        which = ['dft2', 'idft2', 'focus'][i % 3]
        cls = which
        desc = {'in': sa, 'out': sb, 'Q': Q, 'shift': shift, 'sub': _subseed(rng)}

        def build(r_, sa=sa, sb=sb, Q=Q, shift=shift, which=which):
            def wrap(fn):
                def g(*a):
                    with precision(32):
                        return fn(*a)
                return g
            if which == 'focus':
                return Lin(wrap(lambda x: P.focus_fixed_sampling(x, 0.1, 100., 0.5, 20., sb, shift=shift)),
                           wrap(lambda y: P.focus_fixed_sampling_backprop(y, 0.1, 100., 0.5, 20., sa, shift=shift)),
                           sa, sb, rtol=RT_F32)
            f, b = getattr(mdft, which), getattr(mdft, which + '_backprop')
            return Lin(wrap(lambda x: f(x, Q, sb, shift)), wrap(lambda y: b(y, Q, sa, shift)), sa, sb, rtol=RT_F32)
        yield cls, desc, build


# (row name = companion routine, monitor kind, generator)
TABLE = [
    ('mdft.dft2_backprop', 'adjoint', lambda c, r: gen_mdft(c, r, 'dft2')),
    ('mdft.idft2_backprop', 'adjoint', lambda c, r: gen_mdft(c, r, 'idft2')),
    ('focus_fixed_sampling_backprop', 'adjoint', lambda c, r: gen_ffs(c, r, 'focus', 'function')),
    ('Wavefront.focus_fixed_sampling_backprop', 'adjoint', lambda c, r: gen_ffs(c, r, 'focus', 'Wavefront')),
    ('unfocus_fixed_sampling_backprop', 'adjoint', lambda c, r: gen_ffs(c, r, 'unfocus', 'function')),
    ('Wavefront.intensity_backprop', 'dirderiv', gen_intensity),
    ('Wavefront.from_amp_and_phase_backprop_phase', 'dirderiv', gen_phase),
    ('sum_of_2d_modes_backprop', 'adjoint', gen_modes),
    ('to_fpm_and_back_backprop', 'adjoint', lambda c, r: gen_tfb(c, r, 'function')),
    ('Wavefront.to_fpm_and_back_backprop', 'adjoint', lambda c, r: gen_tfb(c, r, 'Wavefront')),
    ('Wavefront.babinet_backprop', 'adjoint', gen_babinet),
    ('DM.render_backprop', 'adjoint', gen_dm),
    ('Softmax.backprop', 'dirderiv', lambda c, r: gen_softmax(c, r, 'Softmax')),
    ('GumbelSoftmax.backprop', 'dirderiv', lambda c, r: gen_softmax(c, r, 'GumbelSoftmax')),
    ('DiscreteEncoder.backprop', 'dirderiv', gen_encoder),
    ('Tanh.backprop', 'pointwise', lambda c, r: gen_activation(c, r, 'Tanh')),
    ('Arctan.backprop', 'pointwise', lambda c, r: gen_activation(c, r, 'Arctan')),
    ('Softplus.backprop', 'pointwise', lambda c, r: gen_activation(c, r, 'Softplus')),
    ('Sigmoid.backprop', 'pointwise', lambda c, r: gen_activation(c, r, 'Sigmoid')),
    ('mean_square_error', 'dirderiv', lambda c, r: gen_cost(c, r, 'mean_square_error')),
    ('negative_loglikelihood', 'dirderiv', lambda c, r: gen_cost(c, r, 'negative_loglikelihood')),
    ('bias_and_gain_invariant_error', 'dirderiv', lambda c, r: gen_cost(c, r, 'bias_and_gain_invariant_error')),
    ('SpatialGradient2D.backprop_x', 'adjoint', lambda c, r: gen_spatial(c, r, 'x')),
    ('SpatialGradient2D.backprop_y', 'adjoint', lambda c, r: gen_spatial(c, r, 'y')),
    ('float32-config', 'adjoint', gen_f32),
]
KEY_ROUTINE = {'Wavefront.focus_fixed_sampling_backprop': 'focus_fixed_sampling_backprop',
               'Wavefront.to_fpm_and_back_backprop': 'to_fpm_and_back_backprop'}
REQUIRED += [f'{kind}:{row}' for row, kind, _ in TABLE]
REQUIRED += [f'no-input-mutation:{row}' for row, kind, _ in TABLE if kind == 'pointwise']


# ============================================================================================ entry points
def run(ctx, only_row=None):
    from prysm.fttools import mdft
    from prysm.conf import config
    prec0 = config.precision
    h = Harness(ctx)
    try:
        for row, kind, gen in TABLE:
            if only_row is not None and row != only_row:
                continue
            rng = ctx.rng('c06', row)
            for cls, desc, build in gen(ctx, rng):
                h.run_case(row, cls, desc, build)
    finally:
        mdft.clear()
        if config.precision is not prec0:
            config.precision = 32 if prec0 is np.float32 else 64
    ctx.note('max_relative_residual_of_passing_cases_by_row', {k: float(f'{v:.2e}') for k, v in sorted(h.roundoff.items())})
    ctx.note('tolerances', {'adjoint': RT_LIN, 'directional': RT_DIR, 'richardson_settle': SETTLE, 'float32': RT_F32})


def replay(ctx, rec):
    """Replay re-runs only the table row named in the witness key (same seed and shard => same cases)."""
    key = rec.get('key', '') if isinstance(rec, dict) else ''
    parts = key.split('/')
    rows = {r for r, _, _ in TABLE}
    only = parts[1] if len(parts) > 1 and parts[1] in rows else None
    if only is None and len(parts) > 1 and parts[1].startswith('SpatialGradient2D.forward_'):
        only = 'SpatialGradient2D.backprop_' + parts[1][-1]
    run(ctx, only_row=only)
